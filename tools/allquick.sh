#!/bin/sh
# dev helper: run every registered quick check sequentially, print one summary line each
cd /verif
for p in $(python3 -c "import json;print(' '.join(c['property_id'] for c in json.load(open('MANIFEST.json'))['checks']))"); do
  t0=$(date +%s); out=$(./vcheck $p ${1:-quick} 2>&1); rc=$?
  echo "$p rc=$rc $(( $(date +%s) - t0 ))s :: $(echo "$out" | tail -1)"
  echo "$out" | grep -E "^(VIOLATION|INCONCLUSIVE)" | head -5
done

import json,sys
# helper: run a property's jobs in-process and list slowest records

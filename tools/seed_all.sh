#!/bin/sh
# run seedtest for all delivered mutants sequentially (each: demo x2, full suite, quick checks against the patched worktree)
cd /verif
for spec in "C12 m1" "C12 m2 C05" "C05 m1" "C05 m2 C18" "C08 m1" "C08 m2 C09" "C09 m1 C08" "C09 m2 C08" "C11 m1" "C11 m2 C12" "C14 m1" "C14 m2" "C18 m1" "C18 m2 C09" "C20 m1" "C20 m2"; do
  set -- $spec
  p=$1; n=$2; shift 2
  echo "=== $p $n"
  python3 tools/seedtest.py $p /tmp/wt_$p $n "$@" 2>&1 | tail -40
done

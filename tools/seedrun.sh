#!/bin/sh
# dev helper: tools/seedrun.sh <seeded-id> <Cxx> [tier] [nlines]
# apply /verif/seeded/<id>/patch.diff in a scratch worktree (build artefacts copied from /repo), run the check against it, remove the worktree
ID=$1; P=$2; TIER=${3:-quick}
WT=/tmp/seedwt_$$
git -C /repo worktree add -q --detach $WT HEAD || exit 3
(cd /repo && git status --short --ignored | grep '^!! src/gstools/' | cut -c4- | while read f; do [ -f "$f" ] && cp "$f" "$WT/$f"; done)
git -C $WT apply /verif/seeded/$ID/patch.diff || { git -C /repo worktree remove --force $WT; exit 3; }
cd /verif && VERIF_REPO=$WT ./vcheck $P $TIER > /tmp/seedrun_$$.log 2>&1; rc=$?
grep -E "^(VIOLATION|C[0-9]+ (quick|thorough)|KNOWN)" /tmp/seedrun_$$.log | cut -c1-400 | tail -${4:-4}
echo "$ID $P exit=$rc"; rm -f /tmp/seedrun_$$.log
git -C /repo worktree remove --force $WT

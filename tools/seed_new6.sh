#!/bin/sh
cd /verif
run() { p=$1; shift; ms=$1; shift; for n in $ms; do echo "=== $p $n"; python3 tools/seedtest.py $p /tmp/wt_$p $n "$@" 2>&1 | tail -30; done > /tmp/seednew_$p.log 2>&1; }
run C08 "m3 m4" C09 & run C09 "m3 m4" C08 & run C06 "m3 m4" C05 & wait
echo ALLDONE

#!/bin/sh
cd /verif
while pgrep -f "[s]eed_recheck.py" > /dev/null; do sleep 30; done
run() { p=$1; shift; ms=$1; shift; for n in $ms; do echo "=== $p $n"; python3 tools/seedtest.py $p /tmp/wt_$p $n "$@" 2>&1 | tail -30; done > /tmp/seednew_$p.log 2>&1; }
run C14 "m3 m4" C03 & run C13 "m3 m4" C05 & wait
run C11 "m3 m4" C17 & run C20 "m3 m4" C18 & wait
echo ALLDONE

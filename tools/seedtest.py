"""dev tool: confirm a seeded change and run the checks against it.
usage: seedtest.py <Cxx> <worktree> <name> [more property ids to run]
 1. in the scratch worktree: demo passes unpatched, fails patched, full test-suite passes patched
 2. apply to /repo, run ./vcheck <Cxx> quick (and extra ids), record exit codes, revert /repo
 3. store under /verif/seeded/<Cxx>-<name>/ : patch.diff, demo.py, meta.json
"""
import json, os, shutil, subprocess, sys, time

prop, wt, name = sys.argv[1:4]
extra = sys.argv[4:]
src = os.path.join(wt, "out", name)
dst = f"/verif/seeded/{prop}-{name}"
env = dict(os.environ, PYTHONPATH=os.path.join(wt, "src"))
def sh(cmd, **kw):
    return subprocess.run(cmd, shell=True, capture_output=True, text=True, **kw)
meta = {"property": prop, "origin": "independent sub-agent given only the property text and a scratch worktree", "ran": []}
sh(f"git -C {wt} checkout -- src")
r0 = sh(f"cd {wt} && /venv/bin/python {src}/demo.py", env=env); meta["demo_unpatched_exit"] = r0.returncode
ap = sh(f"git -C {wt} apply {src}/patch.diff"); meta["apply_in_worktree"] = ap.returncode
r1 = sh(f"cd {wt} && /venv/bin/python {src}/demo.py", env=env); meta["demo_patched_exit"] = r1.returncode
meta["demo_patched_tail"] = (r1.stdout + r1.stderr)[-400:]
t0 = time.time()
ts = sh(f"cd {wt} && /venv/bin/python -m pytest -q -p no:cacheprovider --timeout=900 2>&1 | tail -1", env=env)
meta["suite_patched"] = ts.stdout.strip()[-120:]
sh(f"git -C {wt} checkout -- src")
meta["ran"] += ["demo.py on unpatched worktree", "demo.py on patched worktree", "full pytest suite on patched worktree"]
# the checks against the patched scratch worktree (VERIF_REPO), not /repo
ap2 = sh(f"git -C {wt} apply {src}/patch.diff"); meta["apply_in_repo"] = ap2.returncode
res = {}
if ap2.returncode == 0:
    for p in [prop] + extra:
        t0 = time.time()
        r = sh(f"cd /verif && VERIF_REPO={wt} VERIF_NPROC=8 ./vcheck {p} quick")
        lines = [l for l in r.stdout.splitlines() if l.startswith("VIOLATION")]
        res[p] = {"exit": r.returncode, "violation_lines": len(lines), "first": (lines[0][:200] if lines else ""), "summary": r.stdout.strip().splitlines()[-1][:200] if r.stdout.strip() else "", "wall_s": round(time.time() - t0, 1)}
    sh(f"git -C {wt} checkout -- src")
meta["checks"] = res
meta["ran"].append("git apply patch.diff in the scratch worktree; VERIF_REPO=<worktree> ./vcheck <id> quick; git checkout -- src")
try:
    meta["needs"] = open(os.path.join(src, "notes.txt")).read()[:1500]
except OSError:
    meta["needs"] = ""
os.makedirs(dst, exist_ok=True)
shutil.copy(os.path.join(src, "patch.diff"), dst); shutil.copy(os.path.join(src, "demo.py"), dst)
meta["detected_by"] = [p for p, v in res.items() if v["exit"] == 1]
json.dump(meta, open(os.path.join(dst, "meta.json"), "w"), indent=1)
print(json.dumps({k: meta[k] for k in ("demo_unpatched_exit", "demo_patched_exit", "suite_patched", "apply_in_repo", "checks", "detected_by")}, indent=0)[:1500])

#!/bin/sh
# dev helper: tools/seedwt.sh <seeded-id>  -> creates /tmp/swt_<id> with the patch applied (remove with: git -C /repo worktree remove --force /tmp/swt_<id>)
ID=$1; WT=/tmp/swt_$ID
git -C /repo worktree add -q --detach $WT HEAD || exit 3
(cd /repo && git status --short --ignored | grep '^!! src/gstools/' | cut -c4- | while read f; do [ -f "$f" ] && cp "$f" "$WT/$f"; done)
git -C $WT apply /verif/seeded/$ID/patch.diff && echo $WT

#!/bin/sh
# dev helper: run thorough checks for the given ids sequentially, one summary line each
cd /verif
for p in "$@"; do
  t0=$(date +%s); out=$(./vcheck $p thorough 2>&1); rc=$?
  echo "$p rc=$rc $(( $(date +%s) - t0 ))s :: $(echo "$out" | tail -1 | cut -c1-220)"
  echo "$out" | grep -E "^(VIOLATION|INCONCLUSIVE)" | cut -c1-300 | head -6
done

"""dev tool: re-run the registered checks against every stored seeded change and refresh meta.json (checks, detected_by).
usage: seed_recheck.py [id ...]      each run: scratch worktree of /repo HEAD + build artefacts, git apply, VERIF_REPO=<wt> ./vcheck, worktree removed"""
import json, os, subprocess, sys, time

ids = sys.argv[1:] or sorted(os.listdir("/verif/seeded"))
def sh(cmd, **kw):
    return subprocess.run(cmd, shell=True, capture_output=True, text=True, **kw)
for sid in ids:
    d = f"/verif/seeded/{sid}"
    meta = json.load(open(f"{d}/meta.json"))
    props = list(dict.fromkeys([meta["property"]] + list(meta.get("checks", {}).keys())))
    wt = f"/tmp/seedre_{sid}"
    sh(f"git -C /repo worktree remove --force {wt}")
    if sh(f"git -C /repo worktree add -q --detach {wt} HEAD").returncode:
        print(sid, "worktree failed"); continue
    sh(f"cd /repo && git status --short --ignored | grep '^!! src/gstools/' | cut -c4- | while read f; do [ -f \"$f\" ] && cp \"$f\" \"{wt}/$f\"; done")
    ap = sh(f"git -C {wt} apply {d}/patch.diff")
    res = {}
    if ap.returncode == 0:
        for p in props:
            t0 = time.time()
            r = sh(f"cd /verif && VERIF_NPROC=5 VERIF_REPO={wt} ./vcheck {p} quick")
            lines = [l for l in r.stdout.splitlines() if l.startswith("VIOLATION")]
            res[p] = {"exit": r.returncode, "violation_lines": len(lines), "first": (lines[0][:200] if lines else ""), "summary": r.stdout.strip().splitlines()[-1][:200] if r.stdout.strip() else "", "wall_s": round(time.time() - t0, 1)}
    sh(f"git -C /repo worktree remove --force {wt}")
    meta["apply_on_head"] = ap.returncode
    meta["checks"] = res
    meta["detected_by"] = [p for p, v in res.items() if v["exit"] == 1]
    json.dump(meta, open(f"{d}/meta.json", "w"), indent=1)
    print(sid, meta["detected_by"], {p: (v["exit"], v["wall_s"]) for p, v in res.items()}, flush=True)

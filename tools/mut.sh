#!/bin/sh
# dev helper: tools/mut.sh <Cxx> <file-relative-to-repo> <python-regex> <replacement> [tier]
# applies a single-occurrence textual mutation to /repo, runs the check, restores the file.
P=$1; F=$2; PAT=$3; REP=$4; TIER=${5:-quick}
cp /repo/$F /tmp/mut_backup.$$ 
python3 - "$F" "$PAT" "$REP" <<'PY'
import re,sys
f,pat,rep=sys.argv[1:4]
p='/repo/'+f; s=open(p).read()
n=len(re.findall(pat,s))
if n<1: print("PATTERN NOT FOUND"); sys.exit(3)
s2=re.sub(pat,rep,s,count=1)
open(p,'w').write(s2); print(f"mutated {f}: {n} match(es), first replaced")
PY
rc0=$?
if [ $rc0 = 0 ]; then /verif/vcheck $P $TIER 2>&1 | grep -v "^INCONCLUSIVE" | tail -6; echo "exit=$?"; fi
cp /tmp/mut_backup.$$ /repo/$F; rm -f /tmp/mut_backup.$$
git -C /repo status --short | head -3

#!/bin/sh
cd /verif
run() { p=$1; shift; ms=$1; shift; for n in $ms; do echo "=== $p $n"; python3 tools/seedtest.py $p /tmp/wt_$p $n "$@" 2>&1 | tail -30; done > /tmp/seednew_$p.log 2>&1; }
run C02 "m1 m2" C04 C03 & run C10 "m1 m2" C14 & run C12 "m3 m4" C14 C05 & wait
echo ALLDONE

"""Regenerate MANIFEST.json from the per-property table below (run after adding a check)."""
import json, os
ROOT = os.path.dirname(os.path.dirname(os.path.abspath(__file__)))
ALL = [json.loads(l)["id"] for l in open(os.path.join(ROOT, "properties.jsonl"))]

COMMON_NOTE = ("floats are read as mathematical reals (rounding, overflow and the accuracy of scipy's special functions are outside the claim); "
               "transcendental functions are uninterpreted with sound axioms; every solver witness is replayed against the unpatched library in "
               "IEEE doubles before it is reported; unknown/timeout is exit 2, never success. ")

CHECKS = {
 "C12": dict(engine="E1-symnp",
   text="Bounded symbolic verification: the real geometric.py / CovModel / Field.pre_pos code is executed on symbolic angles, anisotropy ratios and positions for dim 1-4; each matrix-entry identity (orthogonality, det=1, documented Givens / counter-clockwise / yaw-pitch-roll convention, derotate=transpose, isometrize∘anisometrize=id, per-axis length scale, padding rules, single isometrisation in pre_pos) is an SMT query over all real values. Bounded by dimension (<=4) and number of points, unbounded in values.",
   note="sin/cos are uninterpreted functions with Pythagoras, parity and angle-addition axioms; the trig ideal-reduction pass is an equivalence-preserving rewrite and its residual is decided by z3; oracle = documented rotation conventions.",
   technique="symbolic execution of the real numpy code (z3 reals in object arrays) + SMT query per matrix entry", ref="DESIGN.md §4 C12"),
 "C14": dict(engine="E1-symnp",
   text="Bounded model checking of the setter state machine: from an arbitrary valid constructed state (all parameters symbolic) every sequence of <=2 (quick) / <=3 (thorough, interacting setters) assignments with symbolic values is executed on the real CovModel for 9 configurations (plain d=1..3, temporal, lat-lon, lat-lon+temporal, optional-argument, truncated-power-law); per path the solver decides that acceptance <=> all values in bounds, that every public quantity equals the documented reference transition function, and that the state equals a freshly constructed model.",
   note="history length bounded; hurst fixed to 1/4 in the TPL configuration; bounds passed to set_arg_bounds are concrete; state after a rejected assignment is not claimed (no rollback documented).",
   technique="symbolic execution of setter histories with path forking + SMT equivalence against a reference transition function", ref="DESIGN.md §4 C14"),
 "C18": dict(engine="E1-symnp",
   text="For the 7 normalizer classes with symbolic parameters and data, on every branch of the real code (lmbda~0, ~2, sign of lmbda, sign of x): public denormalize(normalize(x))==x through the range checks, NaN/out-of-range semantics, strict monotonicity, reported derivative == symbolic derivative of the code's own normalize term, (kernel) log-likelihood == maximum-likelihood definition for 2 (thorough: 3) data, and apply_mean_norm_trend == trend+denormalize(mean+raw) with remove_trend_norm_mean as its inverse for constant and callable (uninterpreted) mean/trend.",
   note="exp/log/pow uninterpreted with sound axioms; inside the library's np.isclose band around lmbda=0/2 the parameter is taken to be exactly that value; optimiser in fit() not executed (maximisation outside the claim); number of data bounded.",
   technique="symbolic execution of the real normalizer code + symbolic differentiation pass + SMT", ref="DESIGN.md §4 C18"),
 "C19": dict(engine="E1-symnp",
   text="The real array_* transformation code is executed on a symbolic input value, mean, variance and bounds; the solver decides the push-forward identity F_target(T(x)) = Phi((x-mean)/sigma) (equivalently T = Q_target∘Phi) for log-normal, uniform, arcsine and U-quadratic, that the default bounds are exactly those fixed by the mean/variance-preserving moment conditions, the Zinn-Harvey identity Phi(±W)=erf(|z|/sqrt 2) with mirror-image connectivity reversal, exact sample moments of force-moments for n<=3 (thorough 4), array_boxcox∘BoxCox.normalize = id, and for discrete transforms that the output is the class value of the half-open threshold interval containing x (arithmetic midpoints, equal-probability thresholds, custom thresholds; 2-4 classes).",
   note="erf/erfinv/sin/exp/log/pow uninterpreted with sound axioms; Phi(z):=(1+erf(z/sqrt 2))/2; oracle = closed-form CDFs/quantiles and moments of the named distributions; for 'equal' thresholds with n>2 the numeric value of erfinv is checked concretely to 1e-12; Field.transform wrappers (transform/field.py) are not covered here.",
   technique="symbolic execution of the real transformation code + SMT push-forward identities", ref="DESIGN.md §4 C19"),
 "C13": dict(engine="E1-symnp",
   text="The real geometric conversions and lat-lon / temporal CovModel code are executed on two symbolic lat-lon points (any latitude in [-90,90], any longitude), symbolic geo_scale, time and time anisotropy: embedding on the sphere of radius geo_scale, chord^2 = 2R^2(1-cos central angle) = 4R^2·haversine argument, isometrize == latlon2pos(radius=geo_scale, time/anis[-1]), Yadrenko covariance/variogram == isotropic function of the chord 2R sin(zeta/2R), chordal<->great-circle inverse pair, pos2latlon∘latlon2pos = id on the open chart and latlon2pos∘pos2latlon∘latlon2pos = latlon2pos everywhere (poles, date line; staged through lemmas), fit_variogram lag conversion, and for metric space-time models (dim 2-4) time scaled by the last ratio only, never rotated into space.",
   note="sin/cos/arcsin/arctan2/sqrt uninterpreted with principal-range, injectivity and polar-decomposition axioms; pi symbolic between 3.1415926 and 3.1415927; kriging rotation-invariance on the sphere and the haversine kernel are covered under C05/C08 when those checks are present.",
   technique="symbolic execution of the real coordinate-conversion code + SMT with trig axioms and staged lemmas", ref="DESIGN.md §4 C13"),
 "C03": dict(engine="E1-symnp",
   text="For the 17 shipped model classes (dim 1-3, all parameters and the lag symbolic, every branch of the real cor/correlation code) the solver decides variogram = var+nugget-covariance, covariance = var·correlation, correlation(r) = cor(rescale·r/len_scale), the nugget-aware variants (differ only at r=0), the per-axis variants, and equality of the correlation with the documented closed form (14 classes; special functions as shared uninterpreted symbols, Matérn through an exp-log lemma); integral scale == closed-form integral of the correlation branch in use and integral_scale assignment (6 classes), percentile scale as root of the variogram fraction; user-defined models given by any one of cor/correlation/covariance/variogram yield the same derived functions.",
   note="exp_int (generalised exponential integral) is replaced by an uninterpreted E_s(x) -- its internal switches and the closed forms of the truncated-power-law correlations are outside; hurst fixed to 0.5 (thorough also 0.25) for TPL models; quad-based integral scales are opaque; inside np.isclose bands the limiting value is taken. Known findings: Matern nu>20 integral scale; TPL cor() vs correlation() for len_low>0.",
   technique="symbolic execution of the real model code + SMT equivalence with documented closed forms", ref="DESIGN.md §4 C03"),
 "C15": dict(engine="E2-kernel", level="model_checking",
   text="(a) The decythonised source of all kernel entry points is executed symbolically (guarded updates, NaN flags) and each output cell is proved equal to its defining sum: randomization / incompressible / Fourier mode sums (dim 1-3), c^T M k and k^T M k, variogram accumulators and counts vs pair enumeration with half-open bins (Euclidean and haversine, Matheron and Cressie, NaN skipping, direction test proved separately and then treated as an opaque predicate, separated directions = first match only, structured and masked grids) and the normalisation functions vs closed form. (b) For every prange loop an LIA query with unbounded extents shows that two different parallel iterations never write (or read-after-write) the same cell, and the clauses of the generated OpenMP pragmas are audited for thread-private scalars and absence of nowait. (c) set_num_threads for both OPENMP values. (d) Translation validation: the source semantics in concrete mode vs the installed .so on seeded random and boundary inputs (rtol 1e-12), and a scratch -fopenmp build of the generated C gives bit-identical results for num_threads in {None,1,2,3,4,8,16}.",
   note="symbolic sizes are small (2-4 points, 2-3 modes/bins); the loop nests have no size-dependent branch; the .so cannot be regenerated from an edited .pyx (no Cython): a source edit is caught by (a)/(b) and shows up as source-vs-artefact disagreement in (d).",
   technique="symbolic interpretation of the .pyx AST with state merging + SMT; LIA ownership queries; differential run against compiled artefacts", ref="DESIGN.md §4 C15"),
 "C08": dict(engine="E2-kernel + E1-symnp", level="model_checking",
   text="Kernel level: the decythonised estimator.pyx is executed symbolically for <=4 points (5 in thorough), <=3 bins, <=2 fields with symbolic values and symbolic NaN flags, dim 1-3, Euclidean and haversine distance, Matheron and Cressie, two directions with symbolic tolerance/bandwidth, overlapping and separated directions, structured and masked grids; accumulators and pair counts are proved equal to pair enumeration with half-open bins, the direction test equal to its documented predicate, the normalisation functions equal to their closed form (empty bins -> 0). Wrapper level: the real vario_estimate / vario_estimate_axis run symbolically with the kernels interpreted from source: estimates, counts and bin centres equal the definition on the caller's original inputs for plain, NaN, no_data, mask and masked-array inputs and several fields; directions are normalised, angles follow (cos a, sin a), separated-directions flag <=> angle between directions >= 2 tol, great-circle edges are divided by geo_scale, structured meshes expand in ij order, axis estimator along x/y with missing cells.",
   note="sizes bounded as stated (loop nests are uniform in size); Cressie end-to-end through the wrapper is split (data/estimator code reach the kernel + kernel-level proof) because the 4th-power identity is undecided as one query; standard_bins values and fit_normalizer are outside.",
   technique="symbolic interpretation of the .pyx kernels (state merging) inside symbolic execution of the Python wrappers + SMT equivalence with pair enumeration", ref="DESIGN.md §4 C08"),
 "C09": dict(engine="E1-symnp + E2-kernel", level="model_checking",
   text="Relational obligations between two symbolic runs of the real vario_estimate (kernels interpreted from the .pyx source) on 3 (thorough 4) symbolic 2-D points: permutation of the points, translation by a symbolic vector, rotation by a symbolic angle, field + constant, field x factor => factor^2 x estimate (factors 2 and -1.5), mask / NaN / no_data == the point removed (two fields, common mask), constant mean and callable (uninterpreted) trend == estimate of the detrended field, lat-lon with geo_scale R and edges B == geo_scale 1 and edges B/R (also on the edges that reach the kernel), structured mesh == generate_grid point list, seeded down-sampling == the estimate on the chosen index subset, drawn without replacement from range(n) with the given seed; the kernel's direction test is invariant under a common rotation of pair vector and unit direction (with and without bandwidth).",
   note="numpy.random.RandomState.choice is a stub returning harness-chosen index vectors (its replace flag, population, size and seed are obligations); directional rotation invariance is compositional (dir_test invariance + distance invariance + the C08 decomposition); sizes bounded; fit_normalizer outside.",
   technique="relational symbolic execution (two runs, one solver query per bin) with polynomial hint lemmas", ref="DESIGN.md §4 C09"),
 "C05": dict(engine="E1-symnp + E2-kernel", level="model_checking",
   text="The real Simple / Ordinary / Universal / ExtDrift / Detrended kriging classes run on symbolic positions, data, model parameters, anisotropy/rotation and measurement errors with the (pseudo-)inverse replaced by a symbolic matrix M logged with the matrix K it inverts. Decided per entry: K equals the textbook block matrix [[C+E,F^T],[F,0]] (nugget / scalar / per-point errors on the diagonal, unbiasedness row, drift monomials at the original coordinates, external drift), every right-hand side equals the textbook vector (covariance or nugget-aware covariance in exact mode, drift at the anisometrised target), the prepared data vector, estimate = trend + mean + z^T M k and variance = max(sill - k^T M k, 0) through the kernels interpreted from krigesum.pyx, chunked == unchunked evaluation, an unbounded LIA proof that the chunk slices partition the targets; with M K = K M = I: ordinary kriging reproduces constants (also get_mean and the only_mean field), universal kriging reproduces its linear drift, estimates are linear in the mean-free data.",
   note="the inverse is a stub: M is arbitrary in the assembly obligations and an exact inverse where stated (non-singular systems); correlation is an uninterpreted function (any model); anisotropic cases compose through the isometrisation lemma of C12; permutation invariance of conditioning points and fit_variogram/fit_normalizer are outside.",
   technique="symbolic execution of the kriging classes with a symbolic inverse + symbolic interpretation of the kernels + SMT per matrix/vector entry", ref="DESIGN.md §4 C05"),
 "C06": dict(engine="E1-symnp + E2-kernel", level="model_checking",
   text="With M K = K M = I and cor(0)=1: for all five variants, without nugget or in exact mode with nugget, and through a LogNormal normalizer, the estimate at a conditioning location equals the datum and the variance is 0 (staged: rhs = first column of K; M k = e_0; k^T M k = sill); the returned variance is >= 0 for any matrix the inversion returns; for simple kriging with 1 and 2 conditioning points variance <= sill (explicit 2x2 inverse, |cor|<=1); two coincident conditioning points solved with a matrix satisfying the four Penrose equations act as a single point carrying their mean value (estimate and variance).",
   note="variance <= sill for more than 2 points needs positive definiteness of K (undecided clause of C02) and is outside; numerical exactness of pinv outside; cor(0)=1 and |cor|<=1 are assumptions here, decided per shipped model under C03/C02.",
   technique="symbolic execution with symbolic (pseudo-)inverse constrained by inverse / Penrose axioms, staged lemmas, SMT", ref="DESIGN.md §4 C06"),
 "C20": dict(engine="E1-symnp", level="model_checking",
   text="Every listed public entry point is executed symbolically with caller-held numpy object arrays in the aliasing-friendliest layout (asarray(x, dtype=double) returns x itself, as numpy does for contiguous float64) and symbolic option values (mean, trend, geo_scale, normaliser parameter, measurement errors); after the call sequence every element of every caller array and of every earlier stored / returned field must be the identical object or provably the same value (a satisfying assignment is an option value for which some in-place arithmetic on a view changed it). Entry points: vario_estimate (7 option variants), vario_estimate_axis (plain, NaN, masked array with NaN: also the mask), standard_bins, remove_trend_norm_mean / apply_mean_norm_trend (check_shape x stacked), Field.__call__(field=), SRF / CondSRF calls with two store names, Field.transform (6 method/process/keep_mean combinations, two new names), Krige (4 variants incl. per-point errors, external drift, chunking, set_condition refresh), Normalizer methods (5 classes), fit_variogram (weights, lat-lon), all array_* transforms.",
   note="object arrays differ from float64 arrays only in that every float conversion is treated as 'no copy' (strictly more aliasing than numpy); non-contiguous / non-float64 inputs (copied by numpy) are outside; entry points not listed are outside. Five defects found and fixed (see known_findings.jsonl); their witnesses are replayed as regressions on every run.",
   technique="symbolic execution with identity/value tracking of caller array elements + SMT", ref="DESIGN.md §4 C20"),
 "C11": dict(engine="E1-symnp + E2-kernel", level="model_checking",
   text="The real SRF / RandMeth / IncomprRandMeth / Fourier code runs with a symbolic random-number layer (draws are fresh symbols named by the seed VALUE, the sub-stream and the draw index -- numpy's RandomState contract) and with the summation kernels interpreted from summator.pyx. Locality: for 3 symbolic points the value at a point is the same term under permutation, as a single point under another store name, in two batches and on a structured mesh vs the equivalent point list (dim 1-2, anisotropic/rotated in 2-D). Update logic: for every history of <=2 operations (call with seed A / B / no seed, in-place change of var, len_scale, anis, angles by symbolic amounts beyond the library's isclose tolerance, mode_no=, seed=, period=) the next field equals that of a freshly constructed generator with the final model, settings and the seed in effect (quick: all pairs in 1-D, geometric pairs in 2-D; thorough: length 3). Seed identity: the same history with the seed passed as one object vs equal distinct objects gives identical fields including nugget noise.",
   note="nothing is assumed about the law of the draws; emcee sampling is a stub returning symbolic radii; parameter changes inside the isclose tolerance of CovModel.__eq__ are by design not changes; two defects found and fixed (seed identity, stale Fourier grid).",
   technique="symbolic execution of generator call histories with a symbolic RNG + SMT equality against a fresh object", ref="DESIGN.md §4 C11"),
 "C17": dict(engine="E1-symnp (+E2 via C15)", level="model_checking",
   text="The real Fourier generator is constructed and updated on symbolic periods, anisotropy ratios, rotation angles and an arbitrary evaluation point (dim 1-3, 2-4 modes per axis); the solver decides delta_k = 2*pi/period*anis, every grid mode = (m - N/2)*delta_k in ij order, that a shift by period_a along the rotated main axis a is (period_a/anis_a) e_a in isotropic coordinates (trig ideal reduction) and hence that the phase of every mode changes by the integer multiple 2*pi*(m - N_a/2); the same after histories of <=2 operations over period=, mode_no=, in-place anisotropy / angle change and model re-assignment; odd mode numbers are rejected; np.arange lengths are proved per call.",
   note="periodicity of the field then follows from the 2*pi-periodicity of sin/cos and the kernel's phase formula (C15); floating-point length of np.arange is outside; one defect found and fixed (stale grid after anisotropy change).",
   technique="symbolic execution of generator construction/update histories + SMT on per-mode phase shifts with a trig-reduction lemma", ref="DESIGN.md §4 C17"),
}

PENDING_REASON = "check not built yet in this session (work in progress; see DESIGN.md §7 build order)"

def main():
    checks = []
    for pid in ALL:
        if pid not in CHECKS:
            continue
        c = CHECKS[pid]
        checks.append({
            "property_id": pid,
            "quick_cmd": f"./vcheck {pid} quick",
            "thorough_cmd": f"./vcheck {pid} thorough",
            "evidence_file": f"evidence/{pid}.json",
            "replay_cmd_template": f"./vcheck {pid} --replay {{path}}",
            "engine": c["engine"],
            "level_claimed": {"category": c.get("level", "model_checking"), "text": c["text"], "design_ref": c["ref"]},
            "level_note": COMMON_NOTE + c["note"],
            "technique": c["technique"],
        })
    na = [{"property_id": p, "reason": NA.get(p, PENDING_REASON)} for p in ALL if p not in CHECKS]
    m = {
        "version": 1,
        "setup_cmd": "sh tools/bootstrap.sh",
        "hooks": {
            "guard": "GSTOOLS_VERIF",
            "enable": "none needed: engine E1 shadows module globals of the imported gstools modules from outside, engine E2 reads the .pyx source text; no hooks exist in /repo",
            "baseline_off_cmd": "cd /repo && /venv/bin/python -m pytest -ra -q -p no:cacheprovider --timeout=900 --continue-on-collection-errors",
            "source_commits": [],
            "add_only": True,
        },
        "engines": [
            {"name": "E1-symnp", "path": "symgs/sym.py symgs/npx.py symgs/theory.py symgs/passes.py symgs/core.py", "serves_properties": [p for p in CHECKS if "E1" in CHECKS[p]["engine"]], "kind_free_text": "symbolic execution of the real gstools Python functions on z3 reals inside numpy object arrays (module globals np/float/int/sps shadowed), path forking on symbolic branches, obligations discharged by z3 5.1"},
            {"name": "E2-kernel", "path": "symgs/decython.py symgs/kernel.py", "serves_properties": [p for p in CHECKS if "E2" in CHECKS[p]["engine"]], "kind_free_text": "decythonised .pyx -> Python AST -> guarded-update symbolic interpreter with state merging (and a concrete mode for translation validation against the compiled artefact)"},
        ],
        "checks": checks,
        "not_applicable": na,
        "notes": "Technique family: solver-based checking of the real code. ./vcheck <id> --replay <file> replays a witness on the unpatched library. known_findings.jsonl lists open findings and fixed defects (regression replays).",
    }
    json.dump(m, open(os.path.join(ROOT, "MANIFEST.json"), "w"), indent=1, ensure_ascii=False)
    print("checks:", [c["property_id"] for c in checks], "n/a:", len(na))

NA = {}
if __name__ == "__main__":
    main()

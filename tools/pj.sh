#!/bin/sh
# tools/pj.sh <prop> <tier> [filter] [nbad]
cd /verif && exec .venv/bin/python tools/profile_jobs.py "$@" 2>&1 | grep -v conda

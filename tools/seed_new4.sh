#!/bin/sh
cd /verif
while pgrep -f "[s]eed_new3.sh" > /dev/null; do sleep 20; done
run() { p=$1; shift; ms=$1; shift; for n in $ms; do echo "=== $p $n"; python3 tools/seedtest.py $p /tmp/wt_$p $n "$@" 2>&1 | tail -30; done > /tmp/seednew_$p.log 2>&1; }
run C05 "m3 m4" C06 & run C18 "m3 m4" C07 C05 & wait
echo ALLDONE

"""dev helper: run all jobs of a property (optionally filtered) and print per-job wall times sorted."""
import sys, time, importlib, warnings
sys.path.insert(0, '/verif')
warnings.simplefilter("ignore")
import gstools
from symgs import core
mod = importlib.import_module('symgs.props.' + sys.argv[1])
tier = sys.argv[2]
flt = sys.argv[3] if len(sys.argv) > 3 else ''
jobs = [j for j in mod.jobs(tier, 0) if flt in j.name]
print(len(jobs), 'jobs')
t0 = time.time(); rows = []
bad = {}
for name, res, stats, meta in core.run_jobs(jobs, job_timeout=600):
    rows.append((stats['wall'], name, len(res), stats['paths'], stats['branch_queries'], round(stats['branch_time'],1), stats['solver_time']))
    for r in res:
        if r['status'] not in ('unsat',):
            bad.setdefault(r['status'], []).append((r['id'], str(r.get('detail',''))[-300:], r.get('witness')))
rows.sort(reverse=True)
for r in rows[:25]: print(r)
print('total cpu', round(sum(r[0] for r in rows)), 'wall', round(time.time()-t0))
for k, v in bad.items():
    print(k, len(v))
    for x in v[:int(sys.argv[4]) if len(sys.argv) > 4 else 8]: print('   ', x)

import ast,sys
src=open(sys.argv[1]).read()
t=ast.parse(src)
for n in ast.walk(t):
    if isinstance(n,(ast.FunctionDef,ast.ClassDef,ast.Module)) and n.body and isinstance(n.body[0],ast.Expr) and isinstance(n.body[0].value,ast.Constant) and isinstance(n.body[0].value.value,str):
        if len(n.body)>1: n.body.pop(0)
        else: n.body[0].value.value="doc"
print(ast.unparse(t))

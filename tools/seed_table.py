"""dev tool: markdown table of the stored seeded changes (for DESIGN.md §9.6)"""
import json, os
rows = []
for sid in sorted(os.listdir("/verif/seeded")):
    f = f"/verif/seeded/{sid}/meta.json"
    if not os.path.exists(f):
        continue
    m = json.load(open(f))
    needs = " ".join(m.get("needs", "").split())
    first = needs.split("Needs")[0][:230]
    det = ", ".join(m.get("detected_by", [])) or "—"
    ran = ", ".join(f"{k}:{'V' if v['exit']==1 else ('ok' if v['exit']==0 else 'incl')}" for k, v in m.get("checks", {}).items())
    rows.append(f"| {sid} | {first} | {det} | {ran} |")
print("| id | change (from the author's notes) | caught by | checks run (V = violation reported, ok = passed, incl = inconclusive) |\n|---|---|---|---|")
print("\n".join(rows))

"""dev tool: markdown table of the stored seeded changes (for DESIGN.md §9.6)"""
import json, os

DESCR = {
    "C01-m1": ("TPLExponential.spectral_density gets len_low instead of len_low_rescaled", "len_low>0 and rescale≠1", "C04 superposition obligation added after the miss"),
    "C01-m2": ("Fourier weights: volume element prod(2π/period) drops the anisotropy ratios", "Fourier generator + anisotropic model", "C01 anisotropic Fourier job added after the miss"),
    "C03-m1": ("inc_gamma recurrence for negative order with a wrongly hoisted x^s e^-x", "non-integer order < -1 (Integral ν>2, TPL 2H/α>1)", "C03 special-function jobs added after the miss"),
    "C03-m2": ("Matern.calc_integral_scale: new ν>20 branch with the Gaussian constant (factor 2 off)", "Matern ν in (20,30]", "was hidden by the open finding at the same site; the finding is now pinned (only_if_unsat)"),
    "C04-m1": ("Hankel transform object built lazily and not invalidated by dim=", "numerical-default model, spectrum evaluated, dim changed, evaluated again", "C04 dim / hankel_kw histories added after the miss"),
    "C04-m2": ("same change as C01-m1 (found independently)", "TPLExponential, len_low>0, rescale≠1", "C04 superposition obligation"),
    "C05-m1": ("external-drift rows of every chunk filled from the first chunk", "ExtDrift with ≥2 chunks", "per-chunk right-hand-side obligations + assembly-level replay added after the first (inconclusive) run"),
    "C05-m2": ("prepared data: normalize(val) − trend − mean instead of normalize(val − trend) − mean", "non-identity normaliser and trend together", "C05 'general' variant added after the miss"),
    "C06-m1": ("mean subtracted before normalising", "non-identity normaliser and mean≠0", ""),
    "C06-m2": ("Detrended drops exact=", "Detrended(exact=True) with nugget>0", ""),
    "C07-m1": ("isometrised conditioning positions recomputed only for new positions", "dim≥2, in-place anis/angles change, set_condition() refresh", "C07 2-D anisotropy histories + state obligations added after the miss"),
    "C07-m2": ("relative kriging variance clipped to [0,1]", "unbiased kriging far from the data", "C07 scaling job added (the whole-field obligation was undecided); np.clip made fork-free"),
    "C08-m1": ("direction-separation test hoisted before the directions are normalised", "≥2 directions shorter than 1 with overlapping cones", "obligation 'separation test sees the normalised directions' added after the miss"),
    "C08-m2": ("masked branch drops the mask (ascontiguousarray instead of filled)", "several masked fields with different masks", "mixed per-field masks added after the miss"),
    "C09-m1": ("no_data replacement moved after detrending", "finite no_data together with mean/trend/normaliser", "relation no_data+trend added after the miss"),
    "C09-m2": ("radians conversion skipped for automatically generated bins", "latlon, geo_scale≠1, bin_edges=None", "relation 'automatic bins with a length unit' added after the miss"),
    "C11-m1": ("per-seed cache of sampled modes, not cleared by the mode_no setter", "seed A → seed B → mode_no → seed A", "there-and-back histories added after the miss"),
    "C11-m2": ("pre_pos cache keyed on a geometry that ignores angles", "in-place rotation change with unchanged mesh", ""),
    "C12-m1": ("Givens planes enumerated lexicographically", "dim ≥ 4", ""),
    "C12-m2": ("universal-kriging drift functions evaluated in isometrised coordinates", "anisotropic / rotated model with a functional drift", "caught by C05 (drift at original coordinates)"),
    "C13-m1": ("space–time angles zeroed with the wrong slice", "temporal, spatial dim 1–2, user angles", ""),
    "C13-m2": ("great_circle_to_chordal clips dist/diameter to [0,1]", "great-circle lag > 2·radius", ""),
    "C14-m1": ("set_dim re-pads angles without the temporal flag", "temporal model, dim change with angles", ""),
    "C14-m2": ("check_arg_in_bounds compares val_min with a closed upper bound", "list-valued anis, closed finite upper bound, only some ratios above", "C14 bounds_anis operation added after the miss"),
    "C15-m1": ("summate_incompr point loop turned into prange with a shared scratch vector", "OpenMP build, ≥2 threads", ""),
    "C15-m2": ("NaN check in the variogram kernels becomes `break` instead of skip", "≥2 fields, NaN in an earlier field only", ""),
    "C16-m1": ("IncomprRandMeth scales the stored amplitudes in place", "same generator called more than once", ""),
    "C16-m2": ("unrolled projector uses k_z k_y for the third component (pyx)", "dim 3", ""),
    "C17-m1": ("Fourier generator shares the caller's model object (no copy)", "in-place anisotropy change", ""),
    "C17-m2": ("mode grid rebuilt only if ALL axes' spacing changed", "period change that leaves one axis unchanged, dim≥2", ""),
    "C18-m1": ("YeoJohnson derivative loses the sign-dependent exponent", "negative data, λ≠1", ""),
    "C18-m2": ("trend removed after normalising", "trend + non-identity normaliser", ""),
    "C19-m1": ("mean told to the array function ignores `process`", "process=False, keep_mean=False, mean≠0", "C19 wrapper job added after a look at the change's site (the array-level jobs cannot see it)"),
    "C19-m2": ("'equal' thresholds use the variance as scale of norm.ppf", "thresholds='equal', var≠1, ≥3 values", ""),
    "C02-m1": ("JBessel shape bounds computed from spatial_dim instead of dim", "temporal or lat-lon model, nu between the two thresholds", "C02 guard configurations space+time / lat-lon added after a look at the site (plain dims could not see it)"),
    "C02-m2": ("TPL correlation superposition evaluates the upper term at len_rescaled instead of len_up_rescaled", "len_low>0", "caught by C04 (spectral density vs correlation superposition)"),
    "C10-m1": ("a fixed value of 0 is treated as the flag False", "nugget=0.0 (or len_low=0.0) fixed while the model holds another value", "the truth value of a symbolic number now forks the path (it was silently True); caught after that"),
    "C10-m2": ("a non-fitted variance is restored in the closure only if len_scale is fitted", "model whose variance follows a fitted optional argument (TPL), var and len_scale not fitted", "C10 'variance follows a parameter' model added after the miss; this also exposed defect D10 on the clean tree"),
    "C05-m3": ("return_var=False path multiplies only the data block of the inverse", "return_var=False with an unbiased / drift variant", "return_var=False obligation added (the harness only used return_var=True)"),
    "C05-m4": ("generated drift monomials close over the loop variable (all equal the last)", "named / ordered drift with more than one monomial", ""),
    "C12-m3": ("matrix_derotate walks the planes reversed with the sign index of the reversed enumeration", "dim 4 or 5 with a non-zero angle", ""),
    "C12-m4": ("too-short len_scale list padded with ones in front instead of repeating the last value", "len_scale list with 2 <= len < dim", ""),
    "C18-m3": ("Normalizer.derivative validates against denormalize_range", "normalizer whose two ranges differ, data between them", ""),
    "C18-m4": ("prepared kriging conditions cached and only reset by set_condition", "call, then mean= / trend= / normalizer= on the Krige object, call again", "C07 Krige-level setter histories added after a look at the site"),
    "C11-m3": ("Fourier spectrum weights computed before the mode grid is rebuilt for a new anisotropy", "Fourier generator, in-place anis change between two calls", ""),
    "C11-m4": ("meshio centroid blocks sliced with the previous block's length instead of the cumulative offset", "meshio mesh with >= 3 cell blocks, points='centroids'", "C11 mesh jobs added after reading the author's summary; the real-field version was undecided under the change, an opaque-field version decides it at once"),
    "C13-m3": ("lat-lon + time: the whole stacked position (incl. time) multiplied by the radius", "latlon, temporal, geo_scale != 1", ""),
    "C13-m4": ("Krige(fit_variogram=True) no longer forwards geo_scale to vario_estimate", "lat-lon model with geo_scale != 1, fit_variogram=True", "C13 forwarding job added after reading the author's summary"),
    "C14-m3": ("integral_scale setter writes the final length scale without the bounds check", "non-default len_scale bounds and a model whose integral scale differs from its length scale", "C14 bounds_len operation added after reading the author's summary"),
    "C14-m4": ("sill computed from the raw variance", "truncated-power-law model with var_factor != 1", ""),
    "C20-m3": ("normaliser input check writes NaN into the caller's array", "bounded-range normaliser, float64 array with an out-of-range value", "out-of-range data case added after reading the author's summary; a value replaced by NaN was a harness error first, now a reported change"),
    "C20-m4": ("vario_estimate_axis drops copy=True on the masked input", "masked array with a mask and additional NaN / no_data cells", ""),
    "C06-m3": ("number of chunks by floor division: the trailing partial chunk is never evaluated", "chunk_size that does not divide the number of targets", "C05 chunk_size=2 on 3 targets added after the miss; np.empty now yields arbitrary values, so reading a never-written entry is a reported violation instead of a harness error"),
    "C06-m4": ("right-hand-side drift functions evaluated at isometrised coordinates for isotropic models", "universal kriging, rotated isotropic model with a custom drift, or lat-lon", "caught by C05 (drift at original coordinates)"),
    "C08-m3": ("no_data replaced after mean / normalizer / trend (same fault as C09-m1, found independently)", "finite no_data with a value-changing pre-processing option", "caught by C09"),
    "C08-m4": ("ang2dir multiplies the sines over all directions (axis dropped)", "angles=, 3-D, >= 2 directions, one not horizontal", "C08 ang2dir job added after the miss"),
    "C09-m3": ("common mask of stacked fields uses any instead of all", ">= 2 masked fields with different masks", "caught by C08 (mixed per-field masks)"),
    "C09-m4": ("field pre-processing (incl. normaliser fit) moved before the sub-sampling", "fit_normalizer=True with sampling_size below the point count", "C09 obligation 'pre-processing is handed the sub-sample' added after the miss"),
    "C03-m3": ("_get_iso_rad projects onto the transposed main axes (rotation the wrong way)", "angles != 0 and anis != 1 together, dim 2-3; shows in vario_spatial / cov_spatial / cor_spatial", "NOT CAUGHT in the time available: C03 has no obligation on the *_spatial functions; C12's model job, which owns _get_iso_rad, expected a single path, was generalised to several paths, and then did not finish on the patched tree (inconclusive) before the session ended"),
    "C03-m4": ("percentile scale divides the variogram by the sill without removing the nugget", "nugget > 0", ""),
    "C17-m3": ("anisotropy scales the period instead of the wave-number spacing", "anisotropic model with 1/anis^2 not an integer", ""),
    "C17-m4": ("period setter rescales the mode mesh with the inverted factor", "period changed after construction, alone", ""),
    "C20-m1": ("asarray instead of array before in-place detrending", "check_shape=False path with float input", ""),
    "C20-m2": ("bin edges converted to radians in place", "latlon, caller's float array", ""),
}
rows = []
for sid in sorted(os.listdir("/verif/seeded")):
    f = f"/verif/seeded/{sid}/meta.json"
    if not os.path.exists(f):
        continue
    m = json.load(open(f))
    d = DESCR.get(sid, ("", "", ""))
    det = ", ".join(m.get("detected_by", [])) or "—"
    ran = ", ".join(f"{k}:{'V' if v['exit']==1 else ('ok' if v['exit']==0 else 'incl')}" for k, v in m.get("checks", {}).items())
    rows.append(f"| {sid} | {d[0]} | {d[1]} | {det} | {ran} | {d[2]} |")
print("| id | change | needs | caught by | checks run (V violation, ok passed, incl inconclusive) | remark |\n|---|---|---|---|---|---|")
print("\n".join(rows))

#!/bin/sh
# idempotent: build the overlay venv /verif/.venv (python of /venv + z3-solver + crosshair-tool from the wheelhouse)
set -e
HERE="$(cd "$(dirname "$0")/.." && pwd)"
V="$HERE/.venv"
if [ -x "$V/bin/python" ] && "$V/bin/python" -c "import z3, gstools, crosshair" >/dev/null 2>&1; then
  exit 0
fi
rm -rf "$V"
/venv/bin/python -m venv "$V" >/dev/null
SP="$V/lib/python3.12/site-packages"
echo "import site; site.addsitedir('/venv/lib/python3.12/site-packages')" > "$SP/base.pth"
PIP_NO_INDEX=1 "$V/bin/pip" install -q --no-index --find-links /opt/veriftools/wheels z3-solver crosshair-tool jsonschema >/dev/null 2>&1 || \
PIP_NO_INDEX=1 "$V/bin/pip" install -q --no-index --find-links /opt/veriftools/wheels z3-solver crosshair-tool
"$V/bin/python" -c "import z3, gstools; print('bootstrap ok', z3.get_version_string(), gstools.__file__)"

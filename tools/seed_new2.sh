#!/bin/sh
cd /verif
run() { p=$1; shift; ms=$1; shift; for n in $ms; do echo "=== $p $n"; python3 tools/seedtest.py $p /tmp/wt_$p $n "$@" 2>&1 | tail -30; done > /tmp/seednew_$p.log 2>&1; }
run C07 "m2" C05 & run C15 "m1 m2" C08 C16 & run C19 "m1 m2" C18 & wait
run C16 "m1 m2" C15 C11 & run C17 "m1 m2" C11 & wait
echo ALLDONE

#!/bin/sh
cd /verif
run() { p=$1; shift; ms=$1; shift; for n in $ms; do echo "=== $p $n"; python3 tools/seedtest.py $p /tmp/wt_$p $n "$@" 2>&1 | tail -30; done > /tmp/seednew_$p.log 2>&1; }
run C03 "m3 m4" C12 & run C17 "m3 m4" C11 C01 & wait
echo ALLDONE

"""dev helper: run one job function in-process:  onejob.py c14 job_history plain2 "('var','len_scale')" quick"""
import sys, time, ast, importlib
sys.path.insert(0, '/verif')
mod = importlib.import_module('symgs.props.' + sys.argv[1])
fn = getattr(mod, sys.argv[2])
args = [ast.literal_eval(a) if (a[:1] in "([{'\"0123456789-" or a in ('True', 'False', 'None')) else a for a in sys.argv[3:]]
t0 = time.time()
res = fn(*args)
meta = None
if isinstance(res, tuple): res, meta = res
for r in res:
    print(r['status'], r['id'], r.get('time'), r.get('note', ''), (str(r.get('detail', ''))[-700:]), r.get('witness', '') if r['status'] == 'sat' else '')
from symgs import sym, core
print(meta, sym.STATS, 'queries', core.Query.count, round(core.Query.time, 2), 'wall', round(time.time() - t0, 2))

#!/bin/sh
# confirm and check the second batch of delivered seeded changes (3 properties at a time)
cd /verif
run() { p=$1; shift; for n in m1 m2; do echo "=== $p $n"; python3 tools/seedtest.py $p /tmp/wt_$p $n "$@" 2>&1 | tail -30; done > /tmp/seednew_$p.log 2>&1; }
run C01 C04 C17 & run C03 C04 & run C04 C01 & wait
run C06 C05 C18 & run C07 C05 & run C13 C12 C14 & wait
run C15 C08 C16 & run C16 C15 C11 & run C17 C11 & wait
run C19 C18 & wait
echo ALLDONE

"""numpy / scipy / builtins shadows for engine E1.

The *real* gstools functions run with the module global ``np`` replaced by
``NPX``.  Float arrays become real numpy ``dtype=object`` arrays whose elements
are Python floats or ``Sym`` terms, so slicing, views, broadcasting, padding,
in-place arithmetic and aliasing are numpy's own semantics.
"""
import builtins
import math
import sys
import types

import numpy as rnp
import z3

from . import theory
from .sym import (
    HarnessError,
    NonFinite,
    Sym,
    SymBool,
    decide,
    fn1,
    fn2,
    frac,
    ite,
    lift,
    sbool,
    smax,
    smin,
    sym_pow,
)

FLOATS = (rnp.double, float, rnp.float64, "float", "double", "float64", "d", rnp.dtype("float64"))
PI = Sym(theory.PI)


def is_float_dtype(dt):
    try:
        return dt in FLOATS
    except TypeError:
        return False


def isobj(a):
    return isinstance(a, rnp.ndarray) and a.dtype == object


def has_sym(a):
    if isinstance(a, (Sym, SymBool)):
        return True
    if isinstance(a, rnp.ndarray):
        if a.dtype != object:
            return False
        return any(isinstance(x, (Sym, SymBool)) for x in a.ravel())
    if isinstance(a, (list, tuple)):
        return any(has_sym(x) for x in a)
    return False


def objarr(a, copy=False):
    """object-dtype array view/copy of anything array-like."""
    if isinstance(a, rnp.ndarray) and a.dtype == object and not copy:
        return a
    if isinstance(a, rnp.ma.MaskedArray):
        return rnp.ma.array(a, dtype=object, copy=copy)
    return rnp.array(a, dtype=object)


def _ew(f, nin=1):
    uf = rnp.frompyfunc(f, nin, 1)

    def g(*args):
        r = uf(*args)
        return r

    return g


def _force_bool(v):
    if isinstance(v, SymBool):
        return bool(v)
    return bool(v)


def _elem1(name, native):
    """unary math function: native on numeric arrays, element-wise on object."""

    def one(x):
        if isinstance(x, Sym):
            return getattr(x, name)() if hasattr(Sym, name) else fn1(name, x)
        if name in ("arccos", "arcsin") and NPX.symbolic_consts and NPX.symbolic_pi and float(x) in (0.0, 1.0, -1.0):
            return {("arccos", 0): PI / 2.0, ("arccos", 1): 0.0, ("arccos", -1): PI, ("arcsin", 0): 0.0, ("arcsin", 1): PI / 2.0, ("arcsin", -1): PI / -2.0}[(name, int(float(x)))]
        try:
            return theory.CONCRETE[name](float(x)) if name in theory.CONCRETE else float(native(float(x)))
        except (ValueError, OverflowError):
            return float(native(float(x)))

    ew = rnp.frompyfunc(one, 1, 1)

    def f(x, *a, out=None, **kw):
        if isinstance(x, Sym):
            return one(x)
        if name in ("arccos", "arcsin") and NPX.symbolic_consts and NPX.symbolic_pi:
            # reals reading of the special values (multiples of pi stay symbolic)
            tab = {("arccos", 0): PI / 2.0, ("arccos", 1): 0.0, ("arccos", -1): PI, ("arcsin", 0): 0.0, ("arcsin", 1): PI / 2.0, ("arcsin", -1): PI / -2.0}
            if isinstance(x, (int, float)) and not isinstance(x, bool) and x in (0, 1, -1):
                return tab[(name, int(x))]
            if isinstance(x, rnp.ndarray) and x.dtype != object and x.size and x.size <= 64 and rnp.any(rnp.isin(x, (0, 1, -1))):
                o = rnp.empty(x.shape, dtype=object)
                for idx in rnp.ndindex(x.shape):
                    v_ = float(x[idx])
                    o[idx] = tab[(name, int(v_))] if v_ in (0.0, 1.0, -1.0) else float(native(v_))
                return o
        if name in ("sqrt", "log") and NPX.symbolic_consts and isinstance(x, (int, float)) and not isinstance(x, bool):
            # reals reading of constants such as np.sqrt(2), np.log(2): irrational values stay symbolic
            c = _exact_const(name, x)
            if c is not None:
                return c
        arr = x if isinstance(x, rnp.ndarray) else rnp.asarray(x)
        if arr.dtype != object:
            return native(x, *a, **kw)
        r = ew(arr)
        if out is not None:
            out[...] = r
            return out
        return r

    f.__name__ = name
    return f


def _exact_const(name, x):
    import fractions

    try:
        fr = fractions.Fraction(str(frac(x)))
    except Exception:
        return None
    if name == "sqrt":
        if fr < 0:
            return None
        n, d = fr.numerator, fr.denominator
        if math.isqrt(n) ** 2 == n and math.isqrt(d) ** 2 == d:
            return math.isqrt(n) / math.isqrt(d)
        return Sym(theory.UF["sqrt"](frac(x)))
    if name == "log":
        if fr <= 0:
            return None
        if fr == 1:
            return 0.0
        return Sym(theory.UF["log"](frac(x)))
    return None


def _sym_isclose(x, y, rtol, atol):
    if isinstance(x, Sym) or isinstance(y, Sym):
        try:
            return abs(x - y) <= atol + rtol * abs(y)
        except NonFinite:
            return False
    return bool(rnp.isclose(x, y, rtol=rtol, atol=atol))


class _Linalg:
    def __getattr__(self, n):
        return getattr(rnp.linalg, n)

    @staticmethod
    def norm(x, ord=None, axis=None, keepdims=False):
        arr = rnp.asarray(x)
        if arr.dtype != object:
            return rnp.linalg.norm(x, ord=ord, axis=axis, keepdims=keepdims)
        if ord not in (None, 2):
            raise HarnessError("linalg.norm ord")
        s = rnp.sum(arr * arr, axis=axis, keepdims=keepdims)
        return NPX.sqrt(s)


class _MA:
    """numpy.ma with float dtypes mapped to object when the data are symbolic"""

    def __getattr__(self, n):
        return getattr(rnp.ma, n)

    @staticmethod
    def array(data, dtype=None, copy=False, ndmin=0, mask=rnp.ma.nomask, **kw):
        if is_float_dtype(dtype) and (has_sym(data) or isobj(data) or (isinstance(data, rnp.ma.MaskedArray) and data.dtype == object)):
            dtype = object
        r = rnp.ma.array(data, dtype=dtype, copy=copy, ndmin=ndmin, mask=mask, **kw)
        return r

    masked_array = array


class _Random:
    def __getattr__(self, n):
        return getattr(rnp.random, n)


class NP:
    """Proxy standing in for the ``numpy`` module inside gstools modules."""

    def __init__(self):
        self.linalg = _Linalg()
        self.random = _Random()
        self.ma = _MA()
        self.symbolic_pi = True
        self.symbolic_consts = True
        for name in "sqrt exp log sin cos tan arcsin arccos arctan".split():
            setattr(self, name, _elem1(name, getattr(rnp, name)))

    def __getattr__(self, n):
        return getattr(rnp, n)

    @property
    def pi(self):
        return PI if self.symbolic_pi else rnp.pi

    # ---- creation
    @staticmethod
    def _dt(dtype):
        return object if is_float_dtype(dtype) else dtype

    def asarray(self, a, dtype=None, **kw):
        want_float = is_float_dtype(dtype)
        if isinstance(a, rnp.ndarray):
            if a.dtype == object:
                if dtype is None or want_float or dtype is object:
                    return a  # aliasing-friendliest layout: no copy
            elif a.dtype == rnp.float64 and (dtype is None or want_float):
                return a
            elif not want_float:
                return rnp.asarray(a, dtype=dtype, **kw)
            return self._to_obj(a)
        if isinstance(a, Sym):
            r = rnp.empty((), dtype=object)
            r[()] = a
            return r
        if dtype is None and not has_sym(a):
            return rnp.asarray(a, **kw)
        if want_float or dtype is None:
            return self._to_obj(a)
        return rnp.asarray(a, dtype=dtype, **kw)

    asanyarray = asarray

    def ascontiguousarray(self, a, dtype=None, **kw):
        # numpy semantics: base-class ndarray (a masked array loses its mask and exposes the stored data)
        if isinstance(a, rnp.ma.MaskedArray):
            a = a.data
        r = self.asarray(a, dtype=dtype, **kw)
        return r if r.ndim else r.reshape(1)

    @staticmethod
    def _to_obj(a):
        if isinstance(a, rnp.ma.MaskedArray):
            return rnp.ma.array(a, dtype=object)
        if isinstance(a, rnp.ndarray) and a.dtype != object:
            return a.astype(rnp.float64).astype(object)
        if not has_sym(a):
            return rnp.asarray(a, dtype=rnp.float64).astype(object)
        r = rnp.array(a, dtype=object)
        if r.ndim >= 1 and r.size and any(isinstance(x, (list, tuple, rnp.ndarray)) for x in r.ravel()):
            # numpy refuses ragged input for a float dtype
            raise ValueError("setting an array element with a sequence. The requested array has an inhomogeneous shape")
        return r

    def array(self, a, dtype=None, copy=True, ndmin=0, **kw):
        if is_float_dtype(dtype) or (dtype is None and has_sym(a)) or (dtype is None and isobj(a)):
            r = self._to_obj(a)
            if copy and r is a:
                r = r.copy()
            elif copy and isinstance(a, rnp.ndarray) and rnp.shares_memory(r, a):
                r = r.copy()
            while r.ndim < ndmin:
                r = r[None]
            return r
        return rnp.array(a, dtype=dtype, copy=copy, ndmin=ndmin, **kw)

    def empty(self, shape, dtype=float, **kw):
        a = rnp.empty(shape, dtype=self._dt(dtype))
        if a.dtype == object:
            self._poison(a)
        return a

    _uninit = [0]

    def _poison(self, a):
        """uninitialised memory: every element is an arbitrary real of its own (reading one before it is written yields a value
        no obligation can depend on); large buffers are left as None (reading then fails closed)"""
        if a.size > 2048:
            return
        flat_ = a.reshape(-1)
        for i in range(flat_.size):
            self._uninit[0] += 1
            flat_[i] = Sym(z3.Real(f"uninitialised!{self._uninit[0]}"))

    def _filled(self, shape, val, dtype):
        if is_float_dtype(dtype):
            a = rnp.empty(shape, dtype=object)
            a[...] = float(val)
            return a
        return rnp.full(shape, val, dtype=dtype)

    def zeros(self, shape, dtype=float, **kw):
        return self._filled(shape, 0, dtype)

    def ones(self, shape, dtype=float, **kw):
        return self._filled(shape, 1, dtype)

    def full(self, shape, val, dtype=None, **kw):
        if isinstance(val, Sym) or is_float_dtype(dtype) or (dtype is None and isinstance(val, float)):
            a = rnp.empty(shape, dtype=object)
            a[...] = val
            return a
        return rnp.full(shape, val, dtype=dtype)

    def eye(self, n, M=None, k=0, dtype=float, **kw):
        e = rnp.eye(n, M, k)
        if is_float_dtype(dtype):
            return e.astype(object)
        return e.astype(dtype)

    def _like(self, a, dtype, val):
        shape = rnp.shape(a)
        base = a.dtype if isinstance(a, rnp.ndarray) else None
        if is_float_dtype(dtype) or (dtype is None and (base == object or base == rnp.float64 or has_sym(a))) or isinstance(val, Sym):
            out = rnp.empty(shape, dtype=object)
            if val is not None:
                out[...] = val
            else:
                self._poison(out)
            return out
        if val is None:
            return rnp.empty(shape, dtype=dtype if dtype is not None else base)
        return rnp.full(shape, val, dtype=dtype if dtype is not None else base)

    def empty_like(self, a, dtype=None, **kw):
        return self._like(a, dtype, None)

    def zeros_like(self, a, dtype=None, **kw):
        return self._like(a, dtype, 0.0 if (dtype is None or is_float_dtype(dtype)) else 0)

    def ones_like(self, a, dtype=None, **kw):
        return self._like(a, dtype, 1.0 if (dtype is None or is_float_dtype(dtype)) else 1)

    def full_like(self, a, val, dtype=None, **kw):
        return self._like(a, dtype, val)

    def linspace(self, start, stop, num=50, endpoint=True, **kw):
        if has_sym(start) or has_sym(stop):
            num = int(num)
            div = (num - 1) if endpoint else num
            out = rnp.empty(num, dtype=object)
            for i in range(num):
                out[i] = start + (stop - start) * (i / div) if div else start
            return out
        return rnp.linspace(start, stop, num, endpoint=endpoint, **kw)

    def arange(self, *args, **kw):
        if not has_sym(args):
            return rnp.arange(*args, **kw)
        if len(args) == 1:
            start, stop, step = 0.0, args[0], 1.0
        elif len(args) == 2:
            start, stop, step = args[0], args[1], 1.0
        else:
            start, stop, step = args
        # exact-arithmetic length ceil((stop-start)/step); must be concrete
        q = z3.simplify((lift(stop) - lift(start)) / lift(step), som=True)
        if z3.is_rational_value(q):
            n = math.ceil(q.numerator_as_long() / q.denominator_as_long())
        else:
            n = self._arange_len(lift(start), lift(stop), lift(step), q)
        out = rnp.empty(max(n, 0), dtype=object)
        for i in range(n):
            out[i] = start + i * step
        return out

    @staticmethod
    def _arange_len(start, stop, step, q):
        """length of arange when (stop-start)/step is a constant although its parts are symbolic
        (e.g. n*dk/dk): candidate from a numeric sample, then PROVED under the path condition"""
        from . import sym as _sym

        p = _sym.cur()
        s = z3.Solver()
        s.set("timeout", 5000)
        s.add(p.solver.assertions())
        s.add(theory.PI_FACTS)
        cand = None
        if str(s.check()) == "sat":
            m = s.model()
            v = m.eval(q, model_completion=True)
            try:
                f = float(v.as_fraction()) if z3.is_rational_value(v) else float(v.approx(20).as_fraction())
                cand = round(f)
            except Exception:
                cand = None
        if cand is None or cand < 0:
            raise HarnessError(f"arange with symbolic length {q}")
        s.add(z3.Not(z3.And(step != 0, stop - start == cand * step)))
        if str(s.check()) != "unsat":
            raise HarnessError(f"arange: could not prove constant length {cand} for {q}")
        return int(cand)

    # ---- predicates (eager: symbolic element decisions fork the path)
    def isclose(self, a, b, rtol=1e-5, atol=1e-8, equal_nan=False):
        if isinstance(a, Sym) or isinstance(b, Sym):
            if not isinstance(a, rnp.ndarray) and not isinstance(b, rnp.ndarray):
                return _sym_isclose(a, b, rtol, atol)
        aa, bb = rnp.asarray(a), rnp.asarray(b)
        if aa.dtype != object and bb.dtype != object:
            return rnp.isclose(a, b, rtol=rtol, atol=atol, equal_nan=equal_nan)
        f = rnp.frompyfunc(lambda x, y: _force_bool(_sym_isclose(x, y, rtol, atol)), 2, 1)
        r = f(aa, bb)
        if isinstance(r, rnp.ndarray):
            return r.astype(bool)
        return bool(r)

    def allclose(self, a, b, rtol=1e-5, atol=1e-8, equal_nan=False):
        return bool(rnp.all(self.isclose(a, b, rtol=rtol, atol=atol)))

    def isnan(self, a):
        if isinstance(a, Sym):
            return False
        arr = rnp.asarray(a)
        if arr.dtype != object:
            return rnp.isnan(a)
        f = rnp.frompyfunc(lambda x: False if isinstance(x, Sym) else bool(x != x), 1, 1)
        r = f(arr)
        return r.astype(bool) if isinstance(r, rnp.ndarray) else bool(r)

    def isfinite(self, a):
        if isinstance(a, Sym):
            return True
        arr = rnp.asarray(a)
        if arr.dtype != object:
            return rnp.isfinite(a)
        f = rnp.frompyfunc(lambda x: True if isinstance(x, Sym) else bool(rnp.isfinite(x)), 1, 1)
        r = f(arr)
        return r.astype(bool) if isinstance(r, rnp.ndarray) else bool(r)

    def all(self, a, *ar, **kw):
        if isinstance(a, SymBool):
            return a
        arr = rnp.asarray(a)
        if arr.dtype == object and any(isinstance(x, SymBool) for x in arr.ravel()):
            if ar or kw:
                raise HarnessError("np.all(axis) on symbolic booleans")
            return SymBool(z3.And([SymBool._o(x) for x in arr.ravel()]))
        return rnp.all(arr, *ar, **kw)

    def any(self, a, *ar, **kw):
        if isinstance(a, SymBool):
            return a
        arr = rnp.asarray(a)
        if arr.dtype == object and any(isinstance(x, SymBool) for x in arr.ravel()):
            if ar or kw:
                raise HarnessError("np.any(axis) on symbolic booleans")
            return SymBool(z3.Or([SymBool._o(x) for x in arr.ravel()]))
        return rnp.any(arr, *ar, **kw)

    def logical_not(self, a, **kw):
        if isinstance(a, SymBool):
            return ~a
        return rnp.logical_not(a, **kw)

    def logical_and(self, a, b, **kw):
        if isinstance(a, SymBool) or isinstance(b, SymBool):
            return a & b
        return rnp.logical_and(a, b, **kw)

    def logical_or(self, a, b, **kw):
        if isinstance(a, SymBool) or isinstance(b, SymBool):
            return a | b
        return rnp.logical_or(a, b, **kw)

    # ---- element-wise arithmetic with symbolic semantics
    def _bin(self, f, native, a, b, out=None, **kw):
        if not (has_sym_fast(a) or has_sym_fast(b)):
            aa, bb = rnp.asarray(a), rnp.asarray(b)
            if aa.dtype != object and bb.dtype != object:
                return native(a, b, out=out, **kw) if out is not None else native(a, b, **kw)
        if "where" in kw:
            # ufunc(a, b, out=o, where=w): computed where w holds, o left untouched elsewhere
            w = kw["where"]
            if out is None or has_sym_fast(w):
                raise HarnessError("where= in binary ufunc without out= / with symbolic mask")
            aa, bb, ww = rnp.broadcast_arrays(rnp.asarray(a, dtype=object), rnp.asarray(b, dtype=object), rnp.asarray(w, dtype=bool))
            if out.dtype != object:
                raise HarnessError("where= with a non-object out array")
            for idx in rnp.ndindex(out.shape):
                if ww[idx]:
                    out[idx] = f(aa[idx], bb[idx])
            return out
        r = rnp.frompyfunc(f, 2, 1)(a, b)
        if out is not None:
            out[...] = r
            return out
        return r

    def clip(self, a, a_min=None, a_max=None, out=None, **kw):
        # merged (if-then-else) semantics: no path fork per element
        if not (has_sym_fast(a) or has_sym_fast(a_min) or has_sym_fast(a_max)):
            return rnp.clip(a, a_min, a_max, out=out, **kw) if out is not None else rnp.clip(a, a_min, a_max, **kw)
        r = a
        if a_max is not None:
            r = self.minimum(r, a_max)
        if a_min is not None:
            r = self.maximum(r, a_min)
        if out is not None:
            out[...] = r
            return out
        return r

    def maximum(self, a, b, out=None, **kw):
        return self._bin(smax, rnp.maximum, a, b, out=out, **kw)

    def minimum(self, a, b, out=None, **kw):
        return self._bin(smin, rnp.minimum, a, b, out=out, **kw)

    def power(self, a, b, out=None, **kw):
        return self._bin(sym_pow, rnp.power, a, b, out=out, **kw)

    def arctan2(self, a, b, out=None, **kw):
        return self._bin(lambda y, x: fn2("arctan2", y, x), rnp.arctan2, a, b, out=out, **kw)

    def divide(self, a, b, out=None, **kw):
        return self._bin(lambda x, y: x / y, rnp.divide, a, b, out=out, **kw)

    def multiply(self, a, b, out=None, **kw):
        return self._bin(lambda x, y: x * y, rnp.multiply, a, b, out=out, **kw)

    def add(self, a, b, out=None, **kw):
        return self._bin(lambda x, y: x + y, rnp.add, a, b, out=out, **kw)

    def subtract(self, a, b, out=None, **kw):
        return self._bin(lambda x, y: x - y, rnp.subtract, a, b, out=out, **kw)

    def abs(self, a, **kw):
        if isinstance(a, Sym):
            return abs(a)
        if has_sym_fast(a):
            kw.pop("dtype", None)
            return rnp.abs(rnp.asarray(a, dtype=object), **kw)
        return rnp.abs(a, **kw)

    absolute = abs

    def sign(self, a):
        def one(x):
            if isinstance(x, Sym):
                return Sym(z3.If(x.e > 0, z3.RealVal(1), z3.If(x.e < 0, z3.RealVal(-1), z3.RealVal(0))))
            return float(rnp.sign(x))

        if isinstance(a, Sym):
            return one(a)
        arr = rnp.asarray(a)
        if arr.dtype != object:
            return rnp.sign(a)
        return rnp.frompyfunc(one, 1, 1)(arr)

    def square(self, a):
        return a * a

    def deg2rad(self, a, **kw):
        if has_sym_fast(a) or self.symbolic_pi:
            return self.asarray(a, dtype=float) * (self.pi / 180.0) if not isinstance(a, Sym) else a * (self.pi / 180.0)
        return rnp.deg2rad(a)

    def rad2deg(self, a, dtype=None, **kw):
        if has_sym_fast(a) or self.symbolic_pi:
            return self.asarray(a, dtype=float) * (180.0 / self.pi) if not isinstance(a, Sym) else a * (180.0 / self.pi)
        return rnp.rad2deg(a)

    def expm1(self, a):
        return self.exp(a) - 1.0

    def log1p(self, a):
        return self.log(1.0 + a)

    def log2(self, a):
        if has_sym_fast(a):
            return self.log(a) / math.log(2.0)
        return rnp.log2(a)

    def where(self, c, *args):
        if not args:
            return rnp.where(c)
        a, b = args
        if isinstance(c, SymBool):
            return ite(c, a, b)
        return rnp.where(c, a, b)

    def mean(self, a, *ar, **kw):
        return rnp.mean(a, *ar, **kw)

    def var(self, a, axis=None, ddof=0, **kw):
        arr = rnp.asarray(a)
        if arr.dtype != object:
            return rnp.var(a, axis=axis, ddof=ddof, **kw)
        m = rnp.mean(arr, axis=axis, keepdims=True)
        d = arr - m
        n = arr.size if axis is None else arr.shape[axis]
        return rnp.sum(d * d, axis=axis) / (n - ddof)

    def std(self, a, axis=None, ddof=0, **kw):
        return self.sqrt(self.var(a, axis=axis, ddof=ddof))

    def around(self, a, decimals=0, **kw):
        if has_sym_fast(a):
            if isinstance(a, Sym) and decimals == 0:
                # nearest integer as floor(x + 1/2) (ties: numpy rounds half to even; the tie set is not distinguished here)
                return Sym(z3.ToReal(z3.ToInt(a.e + z3.RealVal("1/2"))))
            raise HarnessError("np.around of symbolic value")
        return rnp.around(a, decimals, **kw)

    def ceil(self, a, **kw):
        if has_sym_fast(a):
            raise HarnessError("np.ceil of symbolic value")
        return rnp.ceil(a, **kw)

    def einsum(self, sub, *ops, **kw):
        if any(isobj(rnp.asarray(o)) for o in ops):
            if sub == "ij,ij->j" and len(ops) == 2:
                return rnp.sum(ops[0] * ops[1], axis=0)
            if sub.replace(" ", "") == "i,ij,j" and len(ops) == 3:
                a, M, b = (rnp.asarray(o, dtype=object) for o in ops)
                return rnp.dot(a, rnp.dot(M, b))
            raise HarnessError(f"einsum {sub} on symbolic arrays")
        return rnp.einsum(sub, *ops, **kw)


def has_sym_fast(a):
    if isinstance(a, (Sym, SymBool)):
        return True
    if isinstance(a, rnp.ndarray):
        return a.dtype == object
    if isinstance(a, (list, tuple)):
        return any(has_sym_fast(x) for x in a)
    return False


NPX = NP()


# --------------------------------------------------------------------------
# builtins shadows


class _FloatMeta(type):
    def __instancecheck__(cls, inst):
        return isinstance(inst, builtins.float)

    def __subclasscheck__(cls, sub):
        return issubclass(sub, builtins.float)


class sym_float(metaclass=_FloatMeta):
    """stands in for the builtin ``float`` inside gstools modules: identity on
    symbolic reals, the builtin otherwise (isinstance checks still work)."""

    def __new__(cls, x=0.0):
        if isinstance(x, Sym):
            return x
        if isinstance(x, rnp.ndarray) and x.dtype == object and x.size == 1:
            v = x.reshape(-1)[0]
            return v if isinstance(v, Sym) else builtins.float(v)
        return builtins.float(x)


class _IntMeta(type):
    def __instancecheck__(cls, inst):
        return isinstance(inst, builtins.int)

    def __subclasscheck__(cls, sub):
        return issubclass(sub, builtins.int)


class sym_int(metaclass=_IntMeta):
    def __new__(cls, x=0, *a):
        if isinstance(x, Sym):
            raise HarnessError("int() of a symbolic real")
        return builtins.int(x, *a)


def sym_abs(x):
    return builtins.abs(x)


# --------------------------------------------------------------------------
# scipy.special stub


class _SPS:
    """scipy.special on Sym / object arrays (UFs), native otherwise."""

    _UN = ["erf", "erfc", "erfinv", "gamma", "loggamma", "exp1"]
    _BIN = ["kv", "jv", "gammainc", "gammaincc", "expn", "beta"]
    exact_gamma_half = False

    def __init__(self):
        import scipy.special as sps

        self._sps = sps
        for n in self._UN:
            setattr(self, n, self._mk(n, 1))
        for n in self._BIN:
            setattr(self, n, self._mk(n, 2))
        self.hyp2f1 = self._mk("hyp2f1", 4)

    def __getattr__(self, n):
        return getattr(self._sps, n)

    def _mk(self, name, nin):
        native = getattr(__import__("scipy.special", fromlist=[name]), name)
        uf = theory.UF[name]

        def one(*xs):
            if any(isinstance(x, Sym) for x in xs):
                return Sym(uf(*[lift(x) for x in xs]))
            return float(rnp.real(native(*[float(x) for x in xs])))

        ew = rnp.frompyfunc(one, nin, 1)

        def f(*xs, **kw):
            if name == "gamma" and _SPS.exact_gamma_half and len(xs) == 1 and isinstance(xs[0], (int, float)) and not isinstance(xs[0], bool):
                # reals reading of Gamma(n + 1/2) = (2n)! / (4^n n!) sqrt(pi)
                x2 = 2 * float(xs[0])
                if x2 == int(x2) and int(x2) % 2 == 1 and 0 < x2 < 40:
                    n = (int(x2) - 1) // 2
                    import fractions

                    c = fractions.Fraction(math.factorial(2 * n), 4**n * math.factorial(n))
                    return Sym(z3.RealVal(str(c)) * theory.UF["sqrt"](theory.PI))
            if not any(has_sym_fast(x) for x in xs):
                return native(*xs, **kw)
            if all(not isinstance(x, rnp.ndarray) for x in xs):
                return one(*xs)
            return ew(*xs)

        f.__name__ = name
        return f


SPS = _SPS()


class _SymNorm:
    """scipy.stats.norm by its definition (ppf, cdf, pdf through erf / erfinv / exp), native on plain numbers"""

    def __getattr__(self, n):
        import scipy.stats as st

        return getattr(st.norm, n)

    @staticmethod
    def _sym(*xs):
        return any(has_sym_fast(x) for x in xs)

    def ppf(self, q, loc=0.0, scale=1.0):
        if not self._sym(q, loc, scale):
            import scipy.stats as st

            return st.norm.ppf(q, loc=loc, scale=scale)
        q = NPX.asarray(q, dtype=float)
        return loc + scale * NPX.sqrt(2) * SPS.erfinv(2.0 * q - 1.0)

    def cdf(self, x, loc=0.0, scale=1.0):
        if not self._sym(x, loc, scale):
            import scipy.stats as st

            return st.norm.cdf(x, loc=loc, scale=scale)
        x = NPX.asarray(x, dtype=float)
        return 0.5 * (1.0 + SPS.erf((x - loc) / (scale * NPX.sqrt(2))))

    def pdf(self, x, loc=0.0, scale=1.0):
        if not self._sym(x, loc, scale):
            import scipy.stats as st

            return st.norm.pdf(x, loc=loc, scale=scale)
        x = NPX.asarray(x, dtype=float)
        z = (x - loc) / scale
        return NPX.exp(-0.5 * z * z) / (scale * NPX.sqrt(2 * NPX.pi))


SNORM = _SymNorm()


# --------------------------------------------------------------------------
# installation into the gstools modules

_INSTALLED = {}


def install(extra=None):
    """Shadow ``np``, ``float``, ``int``, ``sps`` in every loaded gstools module."""
    import gstools  # noqa: F401  (loads submodules)

    for name, mod in list(sys.modules.items()):
        if not name.startswith("gstools") or mod is None:
            continue
        if name in _INSTALLED:
            continue
        saved = {}
        d = mod.__dict__
        if d.get("np") is rnp:
            saved["np"] = rnp
            d["np"] = NPX
        if "sps" in d and isinstance(d["sps"], types.ModuleType):
            saved["sps"] = d["sps"]
            d["sps"] = SPS
        # names imported directly from scipy.special (e.g. transform/array.py: erf, erfinv)
        import scipy.special as _sp

        for nm in _SPS._UN + _SPS._BIN + ["hyp2f1"]:
            if nm in d and d[nm] is getattr(_sp, nm, None):
                saved[nm] = d[nm]
                d[nm] = getattr(SPS, nm)
        try:
            import scipy.stats as _st

            for nm, val in list(d.items()):
                if val is _st.norm:
                    saved[nm] = val
                    d[nm] = SNORM
        except Exception:
            pass
        for b, repl in (("float", sym_float), ("int", sym_int)):
            saved[b] = d.get(b, None)
            d[b] = repl
        _INSTALLED[name] = saved
    if extra:
        for (modname, attr), val in extra.items():
            mod = sys.modules[modname]
            _INSTALLED.setdefault(modname, {}).setdefault(attr, mod.__dict__.get(attr))
            mod.__dict__[attr] = val


def uninstall():
    for name, saved in list(_INSTALLED.items()):
        mod = sys.modules.get(name)
        if mod is None:
            continue
        for k, v in saved.items():
            if v is None:
                mod.__dict__.pop(k, None)
            else:
                mod.__dict__[k] = v
    _INSTALLED.clear()

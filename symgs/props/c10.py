"""C10  Variogram fitting honours constraints (partial: everything except convergence of the optimiser)."""
import itertools

import numpy as rnp
import z3

from .. import core, sym, theory
from ..core import Job, prove, rec
from ..sym import Sym, explore, lift, real

FILES = ["src/gstools/covmodel/fit.py", "src/gstools/covmodel/base.py", "src/gstools/covmodel/tools.py"]

SPEC = {
    "level": "model_checking",
    "engine": "E1",
    "files": FILES,
    "functions": [
        "gstools.covmodel.fit.fit_variogram, _pre_para, _pre_init_guess, _check_vario, _set_weights, _init_curve_fit_para, _init_guess, _get_curve (closure), _post_fitting, _r2_score",
        "CovModel.fit_variogram, CovModel setters reached from the closure",
    ],
    "bounds": {
        "quick": {"model": "user-defined model with one optional shape parameter, correlation an uninterpreted function of (lag, shape)", "dim": "1 (isotropic data), 2 (directional data, anisotropy fitted / fixed / given)", "lags": 2, "optimiser": "2 intermediate evaluations of the residual closure at arbitrary admissible arguments, then an arbitrary optimum inside the bounds handed over", "selections": "13 selections of fitted / deselected / fixed-value parameters x sill None / value / False(current) x init_guess default / current / dict"},
        "thorough": {"adds": "lat-lon model, weights ('inv', array, callable), 3 intermediate evaluations"},
    },
    "stubs": ["scipy.optimize.curve_fit -> contract stub: evaluates f at arbitrary points strictly inside the bounds it was given (symbolic), returns an arbitrary point strictly inside those bounds and an opaque covariance"],
    "oracle": "documented behaviour of fit_variogram: deselected / fixed parameters keep their (given) value; result dict == model state; fitted values = optimum (inside bounds); given sill == var + nugget; the closure evaluates the variogram of the model with parameters (var, len_scale, nugget, optional..., anis...) in that order; bounds / start vector follow the same order and p0 is inside the bounds",
    "outside": ["convergence of scipy's least squares to the generating parameters (r2 -> 1): numerical optimisation is not encoded", "an optimum exactly on an open parameter bound", "method / loss are passed through unchanged (checked) but their effect is scipy's"],
    "assumptions": ["floats read as reals", "curve_fit contract as stated under stubs"],
}

JOB_TIMEOUT = {"quick": 400, "thorough": 2000}
COR2 = z3.Function("cor_h_shape", z3.RealSort(), z3.RealSort(), z3.RealSort())
PCOV = object()


class NothingToFit(Exception):
    """the selection leaves no parameter to fit (outside the claim)"""


def _setup():
    from .. import npx

    npx.install()
    import gstools as gs
    import gstools.covmodel.fit as fit

    class UFOpt(gs.CovModel):
        """correlation = uninterpreted function of (non-dimensional lag, shape)"""

        def default_opt_arg(self):
            return {"shape": 1.5}

        def default_opt_arg_bounds(self):
            return {"shape": [0.0, 2.0, "oc"]}

        def cor(self, h):
            h = rnp.asarray(h, dtype=object)
            return rnp.frompyfunc(lambda x: Sym(COR2(lift(x), lift(self.shape))), 1, 1)(h)

    class UFVarFactor(UFOpt):
        """as UFOpt, with a variance that follows the shape parameter (like the truncated-power-law models: var = var_raw * var_factor)"""

        def var_factor(self):
            return 0.5 + self.shape

    UFOpt.with_var_factor = UFVarFactor
    return gs, fit, UFOpt


SELECTIONS = {
    "all": {},
    "no_nugget": {"nugget": False},
    "no_var": {"var": False},
    "no_len_shape": {"len_scale": False, "shape": False},
    "fix_var": {"var": "FV"},
    "fix_nugget_shape": {"nugget": "FN", "shape": "FS"},
    "fix_len": {"len_scale": "FL"},
    "only_var": {"len_scale": False, "nugget": False, "shape": False},
    "only_len": {"var": False, "nugget": False, "shape": False},
    "explicit_true": {"var": True, "nugget": True},
    "no_var_nugget": {"var": False, "nugget": False},
    "fix_var_no_nugget": {"var": "FV", "nugget": False},
    "fix_all_but_len": {"var": "FV", "nugget": "FN", "shape": "FS"},
    "no_var_len": {"var": False, "len_scale": False},
    "fix_var_no_len": {"var": "FV", "len_scale": False},
}
ORDER = ["var", "len_scale", "nugget", "shape"]


def job_fit(selname, sillmode, dim, anismode, guess, tier, latlon=False, weights=None, nevals=2, var_factor=False):
    gs, fit, UFOpt = _setup()
    if var_factor:
        UFOpt = UFOpt.with_var_factor
    T = core.tier_timeout(tier)
    v0, l0, n0, s0, a0 = sym.reals("var0 len0 nug0 shape0 anis0")
    FV, FL, FN, FS, SILL, AN = sym.reals("fix_var fix_len fix_nug fix_shape sill anis_given")
    X = [real("x0"), real("x1")]
    ndir = dim if (dim > 1 and anismode != "iso") else 1
    Y = [real(f"y{i}") for i in range(2 * ndir)]
    G = {k: real(f"guess_{k}") for k in ("var", "len_scale", "nugget", "shape", "anis")}
    fixed = {"FV": FV, "FL": FL, "FN": FN, "FS": FS}
    wv = {str(s.e): s for s in [v0, l0, n0, s0, a0, FV, FL, FN, FS, SILL, AN] + X + Y + list(G.values())}
    tag = f"C10/{selname}/sill={sillmode}/d{dim}/anis={anismode}/guess={guess}" + ("/latlon" if latlon else "") + (f"/weights={weights}" if weights else "") + ("/var_factor" if var_factor else "")
    rb = ("fit", lambda v: {"sel": selname, "sill": sillmode, "dim": dim, "anis": anismode, "guess": guess, "latlon": latlon, "weights": weights, "var_factor": var_factor, "values": v})
    out = []
    sel_raw = SELECTIONS[selname]

    def run():
        for s in (v0, l0, a0, AN):
            sym.assume(s > 0)
        sym.assume(n0 >= 0)
        sym.assume(s0 > 0)
        sym.assume(s0 <= 2)
        sym.assume(FV > 0)
        sym.assume(FL > 0)
        sym.assume(FN >= 0)
        sym.assume(FS > 0)
        sym.assume(FS <= 2)
        sym.assume(X[0] > 0)
        sym.assume(X[1] > X[0])
        kw = dict(dim=dim, var=v0, len_scale=l0, nugget=n0, shape=s0)
        if dim > 1 and not latlon:
            kw["anis"] = a0
        if latlon:
            kw.update(latlon=True, geo_scale=2.0)
            sym.assume(X[1] < 3)  # great-circle lags below pi * geo_scale
        m = UFOpt(**kw)
        before = {p: getattr(m, p) for p in ORDER}
        before["anis"] = list(m.anis)
        sel = {k: (fixed[v] if isinstance(v, str) else v) for k, v in sel_raw.items()}
        calls = {}
        stage = [0]

        def curve_fit_stub(f=None, xdata=None, ydata=None, p0=None, bounds=None, **kwargs):
            stage[0] = 1
            low, top = [list(b) for b in bounds]
            npar = len(p0)
            calls.update(p0=list(p0), low=low, top=top, kw=kwargs, xdata=xdata, ydata=ydata, evals=[], states=[])
            if not (len(low) == len(top) == npar):
                raise AssertionError("bounds / p0 length mismatch")
            if npar == 0:
                raise NothingToFit()

            def inside(name):
                vec = [real(f"{name}_{i}") for i in range(npar)]
                for i, x in enumerate(vec):
                    wv[str(x.e)] = x
                    if low[i] != -rnp.inf:
                        sym.assume(x > low[i])
                    if top[i] != rnp.inf:
                        sym.assume(x < top[i])
                return vec

            for e in range(nevals):
                args = inside(f"ev{e}")
                val = f(xdata, *args)
                calls["evals"].append((args, val, {p: getattr(m, p) for p in ORDER}, list(m.anis)))
            popt = inside("popt")
            calls["popt"] = popt
            return rnp.array(popt, dtype=object), PCOV

        fit.curve_fit = curve_fit_stub
        kwargs = dict(sel)
        if sillmode == "value":
            kwargs["sill"] = SILL
            sym.assume(SILL > 0)
        elif sillmode == "current":
            kwargs["sill"] = False
        elif sillmode == "true":
            kwargs["sill"] = True
        if dim > 1 and anismode == "fit":
            kwargs["anis"] = True
        elif dim > 1 and anismode == "fixed":
            kwargs["anis"] = False
        elif dim > 1 and anismode == "given":
            kwargs["anis"] = AN
        if guess == "current":
            kwargs["init_guess"] = "current"
        elif guess == "dict":
            for g in G.values():
                sym.assume(g > 0)
            kwargs["init_guess"] = {"default": "current", "len_scale": G["len_scale"], "shape": G["shape"], "var": G["var"]}
        if weights == "inv":
            kwargs["weights"] = "inv"
        elif weights == "array":
            kwargs["weights"] = rnp.array([real("w0"), real("w1")], dtype=object)
            for w in kwargs["weights"]:
                sym.assume(w > 0)
        # sill=False means the sill of the model once the fixed values of the call are written
        sill_at_call = (FV if sel_raw.get("var") == "FV" else m.var) + (FN if sel_raw.get("nugget") == "FN" else m.nugget)
        try:
            res = m.fit_variogram(list(X), list(Y), return_r2=False, **kwargs)
        except ValueError as e:
            if stage[0]:
                # not an input rejection: the optimiser was already running on admissible arguments
                return ("late", f"{e}")
            raise
        after = {p: getattr(m, p) for p in ORDER}
        after["anis"] = list(m.anis)
        return before, after, res, dict(calls), sill_at_call, m.arg_bounds

    paths = explore(run, max_paths=400)
    n_ok = n_rej = 0
    for pi, p in enumerate(paths):
        base = f"{tag}/path{pi}"
        if p.exc is not None:
            if isinstance(p.exc, ValueError):
                # rejections (sill out of bounds, deselected variance above the sill, a derived value outside its bounds, ...):
                # the call raises and returns nothing; the state after a rejected call is not part of the claim
                n_rej += 1
                continue
            if isinstance(p.exc, NothingToFit):
                n_rej += 1
                continue
            out.append(rec(base, "error", detail=f"{p.exc!r} {p.tb}"))
            continue
        n_ok += 1
        if p.out[0] == "late":
            out.append(prove(f"{base}/no exception once the optimiser runs on admissible arguments ({p.out[1][:50]})", p.conds, z3.BoolVal(False), T, witness_vars=wv, replay=rb, pairwise=False, vacuity=False))
            continue
        before, after, res, calls, sill_at_call, bnds = p.out
        C = p.conds
        fit_para, pcov = res[0], res[1]
        Pv = lambda goal, name, **kw: out.append(prove(f"{base}/{name}", C, goal, T, witness_vars=wv, replay=rb, pairwise=False, **kw))
        # which parameters are fitted (documented): default all; deselected by False or by a value; sill given removes nugget
        # (or var when nugget is deselected by the caller)
        fitted = {k: True for k in ORDER}
        for k, v in sel_raw.items():
            if v is not True:
                fitted[k] = False
        constrain = sillmode in ("value", "current")
        if constrain:
            if not fitted["var"] and not fitted["nugget"]:
                pass
            elif not fitted["var"]:
                fitted["nugget"] = False
            elif not fitted["nugget"]:
                fitted["var"] = False
            else:
                fitted["nugget"] = False
        plist = [k for k in ORDER if fitted[k]]
        fit_anis = dim > 1 and anismode == "fit"
        npar = len(plist) + ((dim - 1) if fit_anis else 0)
        sill_t = SILL.e if sillmode == "value" else lift(sill_at_call)
        # ---- what curve_fit was handed
        if len(calls["p0"]) != npar:
            out.append(rec(base + "/number of fitted parameters", "sat", witness={}, replay={"kind": "fit", "inputs": rb[1]({})}, detail=f"p0 has {len(calls['p0'])}, documented selection {plist} anis={fit_anis}"))
            continue
        dflt_bounds = {"var": (0.0, None), "len_scale": (0.0, None), "nugget": (0.0, None), "shape": (0.0, 2.0)}
        for i, k in enumerate(plist):
            lo, hi = dflt_bounds[k]
            if k == "var" and constrain:
                if isinstance(calls["top"][i], float) and calls["top"][i] == rnp.inf:
                    out.append(prove(f"{base}/upper bound of var == sill", C, z3.BoolVal(False), T, witness_vars=wv, replay=rb, pairwise=False, vacuity=False, note="upper bound handed over is +inf"))
                else:
                    Pv(lift(calls["top"][i]) == sill_t, f"upper bound of var == sill")
            elif hi is None:
                out.append(rec(f"{base}/bounds[{k}] upper", "unsat" if calls["top"][i] == rnp.inf else "sat", vacuity="sat", witness={}, replay={"kind": "fit", "inputs": rb[1]({})}))
            else:
                Pv(lift(calls["top"][i]) == hi, f"bounds[{k}] upper == model bound")
            Pv(lift(calls["low"][i]) == lo, f"bounds[{k}] lower == model bound")
        for i in range(npar):
            g = [lift(calls["p0"][i]) >= lift(calls["low"][i])]
            if calls["top"][i] != rnp.inf:
                g.append(lift(calls["p0"][i]) <= lift(calls["top"][i]))
            Pv(z3.And(g), f"start value p0[{i}] inside its bounds")
        if guess in ("current", "dict"):
            # a start value that is admissible is used as given
            src = {"var": before["var"], "len_scale": before["len_scale"], "nugget": before["nugget"], "shape": before["shape"]}
            if guess == "dict":
                src.update(var=G["var"], len_scale=G["len_scale"], shape=G["shape"])
            # (fixed values and the sill bookkeeping change the "current" values before the start vector is built)
            for k, v in sel_raw.items():
                if isinstance(v, str) and guess == "current":
                    src[k] = fixed[v]
            for i, k in enumerate(plist):
                if constrain and k in ("var", "nugget") and guess == "current":
                    continue
                lo_ok = lift(src[k]) > lift(calls["low"][i])
                hi_ok = z3.BoolVal(True) if calls["top"][i] == rnp.inf else lift(src[k]) < lift(calls["top"][i])
                Pv(z3.Implies(z3.And(lo_ok, hi_ok), lift(calls["p0"][i]) == lift(src[k])), f"start value of {k} == the given guess when admissible")
        kwp = calls["kw"]
        ok_pass = kwp.get("loss") == "soft_l1" and kwp.get("method") == "trf" and kwp.get("max_nfev") is None
        if weights is None:
            ok_pass = ok_pass and "sigma" not in kwp
        out.append(rec(base + "/loss, method, max_nfev (and no sigma without weights) passed through", "unsat" if ok_pass else "sat", vacuity="sat", witness={}, replay={"kind": "fit", "inputs": rb[1]({})}, detail=str({k: v for k, v in kwp.items() if k in ("loss", "method", "max_nfev")})))
        if weights == "inv":
            for j in range(len(calls["xdata"])):
                Pv(lift(kwp["sigma"][j]) == 1 + lift(calls["xdata"][j]), f"weights='inv': sigma[{j}] == 1 + x")
        if weights == "array":
            for j in range(2):
                Pv(lift(kwp["sigma"][j]) * z3.Real(f"w{j}") == 1, f"weights array: sigma[{j}] == 1/w")
        # data handed over: lags (tiled per axis for directional data; chordal for lat-lon), values unchanged
        nx = 2 * ndir
        if len(calls["xdata"]) != nx or len(calls["ydata"]) != nx:
            out.append(rec(base + "/data size", "sat", witness={}, replay={"kind": "fit", "inputs": rb[1]({})}))
            continue
        for j in range(nx):
            xj = X[j % 2].e
            if latlon:
                xj = 4 * theory.UF["sin"](xj / 4)  # chord 2 R sin(x / (2 R)) for a great-circle lag x on the sphere of radius geo_scale = 2
            Pv(lift(calls["xdata"][j]) == xj, f"xdata[{j}]")
            Pv(lift(calls["ydata"][j]) == Y[j].e, f"ydata[{j}]")
        # ---- the closure: value == variogram of the model with the arguments written in the documented order
        for e, (args, val, st, st_anis) in enumerate(calls["evals"]):
            ref = {k: before[k] for k in ORDER}
            for k, v in sel_raw.items():
                if isinstance(v, str):
                    ref[k] = fixed[v]
            if constrain:
                # sill bookkeeping of deselected parameters (documented)
                if not fitted["var"] and not fitted["nugget"] and ("var" in sel_raw and "nugget" in sel_raw and sel_raw["var"] is not True and sel_raw["nugget"] is not True):
                    pass  # both deselected by the caller: var/nugget re-balanced below
            for i, k in enumerate(plist):
                ref[k] = args[i]
            ref_anis = [args[len(plist) + i] for i in range(dim - 1)] if fit_anis else None
            if constrain and fitted["var"]:
                ref["nugget"] = Sym(sill_t) - ref["var"]
            elif constrain and fitted["nugget"] and not fitted["var"]:
                pass
            both_desel = constrain and all(k in sel_raw and sel_raw[k] is not True for k in ("var", "nugget"))
            for k in ORDER:
                if k in ("var", "nugget") and constrain and not fitted["var"]:
                    continue  # covered by the sill obligations on the final state
                Pv(lift(st[k]) == lift(ref[k]), f"eval{e}: model.{k} during the evaluation == argument / untouched value")
            if ref_anis is not None:
                for i in range(dim - 1):
                    Pv(lift(st_anis[i]) == lift(ref_anis[i]), f"eval{e}: model.anis[{i}] == trailing argument")
            if constrain and fitted["var"]:
                # (an inadmissible nugget makes the closure return inf: excluded by the stub's precondition? no - check explicitly)
                pass
            val = rnp.asarray(val, dtype=object).ravel()
            if any(isinstance(x, float) and x == rnp.inf for x in val):
                # documented: inadmissible nugget under a sill constraint -> infinite residual
                Pv(z3.Not(z3.And(lift(ref["nugget"]) >= 0)), f"eval{e}: infinite residual only for an inadmissible nugget")
                continue
            for j in range(nx):
                ax = j // 2
                an = st_anis[ax - 1] if ax > 0 else 1.0
                h = lift(calls["xdata"][j]) / (lift(st["len_scale"]) * lift(an))
                gam = lift(st["var"]) * (1 - COR2(h, lift(st["shape"]))) + lift(st["nugget"])
                hint = [lift(calls["xdata"][j]) / lift(st["len_scale"]) / lift(an) == h]
                if latlon:  # sin > 0 on (0, pi): the chord of a positive great-circle lag is positive
                    t_ = X[j % 2].e / 4
                    hint += [z3.Implies(z3.And(t_ > 0, t_ < theory.PI), theory.UF["sin"](t_) > 0)] + list(theory.PI_FACTS)
                Pv(lift(val[j]) == gam, f"eval{e}: closure value[{j}] == variogram of the model state (axis {ax})", extra=hint)
        # ---- final state
        popt = calls["popt"]
        for i, k in enumerate(plist):
            Pv(lift(after[k]) == popt[i].e, f"fitted {k} == optimum[{i}]")
        if fit_anis:
            for i in range(dim - 1):
                Pv(lift(after["anis"][i]) == popt[len(plist) + i].e, f"fitted anis[{i}] == trailing optimum")
        for k in ORDER:
            if fitted[k]:
                continue
            v = sel_raw.get(k)
            if isinstance(v, str):
                if constrain and k in ("var", "nugget"):
                    continue
                Pv(lift(after[k]) == fixed[v].e, f"fixed value of {k} kept")
            elif k in sel_raw and not (constrain and k in ("var", "nugget")):
                Pv(lift(after[k]) == lift(before[k]), f"deselected {k} unchanged")
        if dim > 1 and not fit_anis and not latlon:
            want = AN.e if anismode == "given" else lift(before["anis"][0])
            Pv(lift(after["anis"][0]) == want, "anisotropy not fitted: kept / set to the given value")
        if constrain:
            Pv(lift(after["var"]) + lift(after["nugget"]) == sill_t, "given sill == var + nugget after the fit")
            Pv(lift(after["nugget"]) >= 0, "nugget admissible under the sill constraint")
        for k in ORDER:
            Pv(lift(fit_para[k]) == lift(after[k]), f"returned dict[{k}] == model state")
        if ndir > 1:
            if "anis" not in fit_para:
                out.append(rec(base + "/returned dict has anis for directional data", "sat", witness={}, replay={"kind": "fit", "inputs": rb[1]({})}))
            else:
                Pv(lift(fit_para["anis"][0]) == lift(after["anis"][0]), "returned dict[anis] == model state")
        out.append(rec(base + "/covariance of the optimiser returned unchanged", "unsat" if pcov is PCOV else "sat", vacuity="sat", witness={}, replay={"kind": "fit", "inputs": rb[1]({})}))
    if not n_ok and not n_rej:
        out.append(rec(tag + "/reach", "vacuous"))
    return out, {"paths": len(paths), "rejected_or_empty": n_rej}


def jobs(tier, seed):
    js = []
    big = tier == "thorough"
    for sel in SELECTIONS:
        for sm in ("none", "value", "current"):
            js.append(Job(f"fit-{sel}-{sm}-d1", job_fit, sel, sm, 1, "iso", "default", tier))
    for sel in ("all", "no_nugget", "fix_var", "no_len_shape"):
        for am in ("fit", "fixed", "given", "iso"):
            js.append(Job(f"fit-{sel}-d2-{am}", job_fit, sel, "none", 2, am, "default", tier))
    js.append(Job("fit-all-sill-d2-fit", job_fit, "all", "value", 2, "fit", "default", tier))
    for g in ("current", "dict"):
        for sel in ("all", "fix_var", "no_nugget"):
            js.append(Job(f"fit-{sel}-guess-{g}", job_fit, sel, "none", 1, "iso", g, tier))
        js.append(Job(f"fit-all-sill-guess-{g}", job_fit, "all", "value", 1, "iso", g, tier))
    js.append(Job("fit-all-true-sill", job_fit, "all", "true", 1, "iso", "default", tier))
    js.append(Job("fit-weights-inv", job_fit, "all", "none", 1, "iso", "default", tier, False, "inv"))
    js.append(Job("fit-weights-array", job_fit, "no_nugget", "none", 1, "iso", "default", tier, False, "array"))
    js.append(Job("fit-latlon", job_fit, "all", "none", 2, "iso", "default", tier, True))
    # a model whose variance follows another parameter (truncated-power-law like): the closure has to restore / set the variance last
    for sel in ("all", "no_var", "fix_var", "no_var_len", "fix_var_no_len", "no_len_shape", "only_len"):
        for sm in ("none", "value"):
            js.append(Job(f"fit-varfactor-{sel}-{sm}", job_fit, sel, sm, 1, "iso", "default", tier, False, None, 2, True))
    if big:
        for sel in SELECTIONS:
            js.append(Job(f"fit-{sel}-value-d2-fit", job_fit, sel, "value", 2, "fit", "default", tier))
            js.append(Job(f"fit-{sel}-3evals", job_fit, sel, "value", 1, "iso", "default", tier, False, None, 3))
    return js


# --------------------------------------------------------------------------


def _val(v, k, d):
    x = v.get(k)
    return float(x) if x is not None else d


def _n_fitted(sel_raw, sm, fit_anis, dim):
    fitted = {k: True for k in ORDER}
    for k, v in sel_raw.items():
        if v is not True:
            fitted[k] = False
    if sm in ("value", "current"):
        if fitted["var"] and fitted["nugget"]:
            fitted["nugget"] = False
        elif fitted["var"] != fitted["nugget"]:
            fitted["var"] = fitted["nugget"] = False
    return sum(fitted.values()) + ((dim - 1) if fit_anis else 0)


def _check_state(tag, m, names, before, before_anis, fp, sel_raw, fixedv, sm, sill_t, dim, am, latlon, given_anis, bad):
    import numpy as np

    after = {k: getattr(m, n) for k, n in names.items()}
    constrain = sm in ("value", "current")
    for k, s_ in sel_raw.items():
        if constrain and k in ("var", "nugget"):
            continue
        if isinstance(s_, str) and not np.isclose(after[k], fixedv[s_], rtol=1e-12):
            bad.append(f"{tag}: fixed {k}={fixedv[s_]} became {after[k]}")
        if s_ is False and not np.isclose(after[k], before[k], rtol=1e-12):
            bad.append(f"{tag}: deselected {k}={before[k]} became {after[k]}")
    for k, n in names.items():
        if not np.isclose(fp[n], after[k], rtol=1e-14, atol=0.0):  # (one rounding of var_raw * var_factor is not a difference)
            bad.append(f"{tag}: returned {n}={fp[n]} but model.{n}={after[k]}")
    if constrain and abs(after["var"] + after["nugget"] - sill_t) > 4e-16 * abs(sill_t):
        bad.append(f"{tag}: sill {sill_t!r} != var + nugget = {after['var'] + after['nugget']!r} (var={after['var']!r}, nugget={after['nugget']!r})")
    if dim > 1 and am in ("fixed", "iso") and not latlon and not np.allclose(m.anis, before_anis):
        bad.append(f"{tag}: anis changed {before_anis} -> {list(m.anis)}")
    if dim > 1 and am == "given" and not np.isclose(m.anis[0], given_anis):
        bad.append(f"{tag}: given anis not kept")
    bnd = m.arg_bounds
    for k, n in names.items():
        if not (bnd[n][0] <= after[k] <= bnd[n][1]):
            bad.append(f"{tag}: {n} outside bounds")
    return after


def replay_fit(inputs):
    """(A) the witness replayed on the real fit code with a scripted optimiser (evaluation points and optimum of the witness);
    (B) the same obligations with the real scipy optimiser on noisy data of the same family (also with len_scale held fixed)"""
    import warnings

    import numpy as np

    warnings.simplefilter("ignore")
    import gstools as gs
    import gstools.covmodel.fit as fitmod

    v = inputs.get("values") or {}
    sel_raw, sm, dim, am, guess = SELECTIONS[inputs["sel"]], inputs["sill"], int(inputs["dim"]), inputs["anis"], inputs["guess"]
    latlon, weights = bool(inputs.get("latlon")), inputs.get("weights")
    fixedv = {"FV": abs(_val(v, "fix_var", 0.8)) or 0.8, "FL": abs(_val(v, "fix_len", 2.5)) or 2.5, "FN": abs(_val(v, "fix_nug", 0.2)), "FS": min(max(abs(_val(v, "fix_shape", 1.2)), 0.3), 2.0)}
    vfac = bool(inputs.get("var_factor"))
    # (a model whose variance follows a shape parameter: the truncated-power-law Gaussian model, shape := hurst in (0.1, 1))
    Model = gs.TPLGaussian if vfac else gs.Stable
    sname = "hurst" if vfac else "alpha"
    clip = (lambda x: min(max(abs(x), 0.15), 0.9)) if vfac else (lambda x: min(max(abs(x), 0.3), 2.0))
    fixedv["FS"] = clip(_val(v, "fix_shape", 0.6 if vfac else 1.2))
    names = {"var": "var", "len_scale": "len_scale", "nugget": "nugget", "shape": sname}
    bad = []
    real_cf = fitmod.curve_fit

    def make(extra_sel=None):
        kw = dict(dim=dim, var=abs(_val(v, "var0", 1.0)) or 1.0, len_scale=abs(_val(v, "len0", 1.5)) or 1.5, nugget=abs(_val(v, "nug0", 0.1)), **{sname: clip(_val(v, "shape0", 0.5 if vfac else 1.5))})
        if dim > 1 and not latlon:
            kw["anis"] = abs(_val(v, "anis0", 0.6)) or 0.6
        if latlon:
            kw.update(latlon=True, geo_scale=2.0)
        m = Model(**kw)
        sel = {names[k]: (fixedv[s] if isinstance(s, str) else s) for k, s in sel_raw.items()}
        sel.update(extra_sel or {})
        kwargs = dict(sel)
        sill_t = None
        if sm == "value":
            sill_t = abs(_val(v, "sill", 1.6)) or 1.6
            kwargs["sill"] = sill_t
        elif sm == "current":
            kwargs["sill"] = False
            mm = Model(**kw)  # fixed values are written before the current sill is read
            vt = None
            for k_, s_ in sel.items():
                if not isinstance(s_, bool):
                    if k_ == "var":
                        vt = float(s_)
                    else:
                        setattr(mm, k_, float(s_))
            if vt is not None:
                mm.var = vt
            sill_t = mm.var + mm.nugget
        elif sm == "true":
            kwargs["sill"] = True
        given_anis = None
        if dim > 1 and am == "fit":
            kwargs["anis"] = True
        elif dim > 1 and am == "fixed":
            kwargs["anis"] = False
        elif dim > 1 and am == "given":
            given_anis = abs(_val(v, "anis_given", 0.8)) or 0.8
            kwargs["anis"] = given_anis
        if guess == "current":
            kwargs["init_guess"] = "current"
        elif guess == "dict":
            kwargs["init_guess"] = {"default": "current", "len_scale": 1.9, sname: (0.45 if vfac else 1.1), "var": 0.9}
        return m, kwargs, sill_t, given_anis, dict(sel_raw, **{k: v_ for k, v_ in (extra_sel or {}).items()})

    def data(tv, tl, tn, ts):
        truth = Model(dim=dim, var=tv, len_scale=tl, nugget=tn, **{sname: (ts / 2.5 if vfac else ts)}, **({"anis": 0.5} if dim > 1 and not latlon else {}), **({"latlon": True, "geo_scale": 2.0} if latlon else {}))
        x = np.linspace(0.2, 6.0 if not latlon else 2.5, 12)
        ndir = dim if (dim > 1 and am != "iso") else 1
        if ndir > 1:
            y = np.concatenate([truth.vario_axis(x, axis=i) for i in range(dim)])
        else:
            y = truth.variogram(x) if not latlon else truth.vario_yadrenko(x)
        return x, y * (1 + 0.02 * np.sin(7 * np.arange(y.size)))

    # ---- (A) scripted optimiser
    def scripted(f=None, xdata=None, ydata=None, p0=None, bounds=None, **kwargs):
        low, top = np.array(bounds[0], dtype=float), np.array(bounds[1], dtype=float)
        n = len(p0)
        if not (len(low) == len(top) == n) or np.any(np.asarray(p0, dtype=float) < low) or np.any(np.asarray(p0, dtype=float) > top):
            bad.append(f"start vector {list(p0)} outside the bounds {low.tolist()} {top.tolist()}")
        entered.append(1)

        def pt(name, shift):
            out = []
            for i in range(n):
                x_ = v.get(f"{name}_{i}")
                x_ = float(x_) if x_ is not None else float(p0[i]) * (1 + shift) + shift
                lo, hi = low[i], top[i]
                if not (lo < x_ < hi):
                    x_ = (lo + hi) / 2 if np.isfinite(hi) else lo + 1.0 + shift
                out.append(x_)
            return out

        e = 0
        while e < 4 and (e < 2 or f"ev{e}_0" in v):
            f(xdata, *pt(f"ev{e}", 0.1 * (e + 1)))
            e += 1
        return np.array(pt("popt", 0.37)), np.eye(n)

    if _n_fitted(sel_raw, sm, dim > 1 and am == "fit", dim) == 0:
        return True, "selection leaves no parameter to fit (outside the claim)"
    m, kwargs, sill_t, given_anis, sel_eff = make()
    before = {k: getattr(m, n) for k, n in names.items()}
    before_anis = list(m.anis)
    x, y = data(1.3, 2.0, 0.25, 1.4)
    if weights == "inv":
        kwargs["weights"] = "inv"
    elif weights == "array":
        kwargs["weights"] = np.linspace(1.0, 2.0, x.size)
    fitmod.curve_fit = scripted
    entered = []
    try:
        fp, pcov = m.fit_variogram(x, y, **kwargs)
        _check_state("scripted optimiser", m, names, before, before_anis, fp, sel_raw, fixedv, sm, sill_t, dim, am, latlon, given_anis, bad)
    except ValueError as e:
        if entered:
            bad.append(f"scripted optimiser: exception once the optimiser runs on admissible arguments: {e}")
    finally:
        fitmod.curve_fit = real_cf
    # ---- (B) real optimiser
    variants = [None]
    if sm in ("value", "current") and "len_scale" not in sel_raw:
        variants.append({"len_scale": False, sname: False})
    for extra in variants:
        sr_ = dict(sel_raw)
        if extra:
            sr_.update({"len_scale": False, "shape": False})
        if _n_fitted(sr_, sm, dim > 1 and am == "fit", dim) == 0:
            continue
        for tv, tl, tn, ts in [(1.3, 2.0, 0.25, 1.4), (0.7, 1.1, 0.0, 0.9)]:
            m, kwargs, sill_t, given_anis, _ = make(extra)
            before = {k: getattr(m, n) for k, n in names.items()}
            before_anis = list(m.anis)
            x, y = data(tv, tl, tn, ts)
            if weights == "inv":
                kwargs["weights"] = "inv"
            elif weights == "array":
                kwargs["weights"] = np.linspace(1.0, 2.0, x.size)
            try:
                fp, pcov = m.fit_variogram(x, y, **kwargs)
            except ValueError as e:
                if "infeasible" in str(e):
                    bad.append(f"scipy optimiser: {e}")
                continue  # documented rejections / an optimum on an open bound (outside the claim)
            except RuntimeError:
                continue  # the optimiser did not converge on this data set (outside the claim)
            sr = dict(sel_raw)
            if extra:
                sr.update({"len_scale": False, "shape": False})
            _check_state(f"scipy optimiser{' (len_scale, shape held)' if extra else ''}", m, names, before, before_anis, fp, sr, fixedv, sm, sill_t, dim, am, latlon, given_anis, bad)
    return (not bad), f"sel={inputs['sel']} sill={sm} dim={dim} anis={am} guess={guess}: {bad[:6]}"


REPLAY = {"fit": replay_fit}

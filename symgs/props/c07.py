"""C07  Conditioned random fields honour the data and never reuse stale kriging results."""
import itertools

import numpy as rnp
import z3

from .. import core, kstub, rngstub, sym, theory
from ..core import Job, prove, rec
from ..sym import Sym, explore, lift, real
from . import c05, c11

FILES = ["src/gstools/field/cond_srf.py", "src/gstools/krige/base.py", "src/gstools/field/base.py", "src/gstools/field/generator.py"]

SPEC = {
    "level": "model_checking",
    "engine": "E1 (CondSRF, Krige, RandMeth) + E2 (kernels) with symbolic inverse and symbolic random numbers",
    "files": FILES,
    "functions": ["CondSRF.__call__/get_scaling/set_pos and its model / mean / trend / normalizer setters", "Krige.__call__/set_condition", "Field.set_pos/pre_pos/post_field/_pos_equal/delete_fields", "RandMeth.update/__call__"],
    "bounds": {"quick": {"dim": "1", "conditioning points": "2", "targets": "2", "modes": "2", "histories": "<=2 operations before the final call"}, "thorough": {"histories": "<=3 operations, and 4 operations over the core operations (ordinary kriging)"}},
    "stubs": ["(pseudo-)inverse: symbolic matrix per inversion, identified across objects that invert the same matrix", "random numbers: symbols named by seed value and draw position", "correlation: uninterpreted"],
    "oracle": "field = kriging estimate + sqrt(kriging variance / var) * unconditional field of the same seed (+ nugget part); after a history: the field of a freshly built Krige + CondSRF with the final data, model, mean/trend and seed",
    "outside": ["histories longer than the bound"],
    "assumptions": ["floats read as reals", "changed values differ beyond the library's allclose tolerances"],
}

JOB_TIMEOUT = {"quick": 400, "thorough": 3000}


def setup():
    gs = c11.setup()
    kb = kstub.install()
    return gs, kb


def build(gs, sy, dim=1, variant="ordinary", seed=5, mean=None, trend=None):
    UFModel = kstub.uf_model_class()
    kw = {"anis": sy["anis"]} if dim > 1 else {}
    model = UFModel(dim=dim, var=sy["var"], len_scale=sy["len"], nugget=sy.get("nug", 0.0), **kw)
    cp = [list(r) for r in sy["cpos"]]
    cv = list(sy["cval"])
    if variant == "simple":
        k = gs.krige.Simple(model, cp, cv, mean=mean if mean is not None else sy["mean"], trend=trend)
    else:
        k = gs.krige.Ordinary(model, cp, cv, trend=trend)
    # the unconditional generator needs a model with a sampling law: symbolic radii via the stubbed RNG
    csrf = gs.CondSRF(k, mode_no=2, seed=seed)
    return csrf, k, model


def symbols(dim=1, ncond=2, ntar=2):
    return {
        "var": real("var"),
        "len": real("len"),
        "mean": real("mean"),
        "cpos": [[real(f"c{a}_{i}") for i in range(ncond)] for a in range(dim)],
        "cval": [real(f"z{i}") for i in range(ncond)],
        "cval2": [real(f"y{i}") for i in range(ncond)],
        "cpos2": [[real(f"d{a}_{i}") for i in range(ncond)] for a in range(dim)],
        "tpos": [[real(f"t{a}_{i}") for i in range(ntar)] for a in range(dim)],
        "tpos2": [[real(f"u{a}_{i}") for i in range(ntar)] for a in range(dim)],
        "mean2": real("mean2"),
        "trend2": real("trend2"),
        "var2": real("var2"),
        "anis": real("anis"),
        "anis2": real("anis2"),
    }


def unify_inverses(log):
    """objects that invert the same matrix get the same inverse: M_a == M_b whenever K_a == K_b entrywise"""
    cs = []
    for (Ka, Ma), (Kb, Mb) in itertools.combinations(log, 2):
        if Ka.shape != Kb.shape:
            continue
        n = Ka.shape[0]
        same = z3.And([lift(Ka[i, j]) == lift(Kb[i, j]) for i in range(n) for j in range(n)])
        eqm = z3.And([lift(Ma[i, j]) == lift(Mb[i, j]) for i in range(n) for j in range(n)])
        cs.append(z3.Implies(same, eqm))
    return cs


def job_formula(variant, tier):
    gs, kb = setup()
    T = core.tier_timeout(tier)
    sy = symbols()
    wv = c05.wvars(sy)
    rb = ("formula", lambda v: {"variant": variant, "values": v})
    out = []

    def run():
        kstub.reset()
        rngstub.reset()
        for s in (sy["var"], sy["len"]):
            sym.assume(s > 0)
        csrf, k, model = build(gs, sy, variant=variant)
        pos = [list(r) for r in sy["tpos"]]
        fld = csrf(pos, seed=9)
        raw = csrf.raw_field
        rk = csrf.raw_krige
        kv = k.krige_var
        kf = k.field
        # unconditional field of the same seed from an independent SRF with the same generator settings
        srf = gs.SRF(model, mode_no=2, seed=5)
        unc = srf(pos, seed=9)
        # plain kriging with a fresh Krige object
        k2 = gs.krige.Simple(model, [list(r) for r in sy["cpos"]], list(sy["cval"]), mean=sy["mean"]) if variant == "simple" else gs.krige.Ordinary(model, [list(r) for r in sy["cpos"]], list(sy["cval"]))
        kf2, kv2 = k2(pos)
        return fld, raw, rk, kv, kf, unc, kf2, kv2, list(kstub.INV_LOG)

    for pi, p in enumerate(explore(run, max_paths=32)):
        base = f"C07/formula/{variant}/path{pi}"
        if p.exc is not None:
            out.append(rec(base, "error", detail=f"{p.exc!r} {p.tb}"))
            continue
        fld, raw, rk, kv, kf, unc, kf2, kv2, log = p.out
        C = p.conds + list(rngstub.FACTS) + unify_inverses(log)
        mean = sy["mean"].e if variant == "simple" else z3.RealVal(0)
        sq = theory.UF["sqrt"]
        for i in range(2):
            out.append(prove(f"{base}/raw_field[{i}] == unconditional field of the same seed (no nugget noise)", C, core.eq(raw[i], unc[i]), T, witness_vars=wv, replay=rb, pairwise=False))
            out.append(prove(f"{base}/stored kriging field[{i}] == plain kriging", C, core.eq(kf[i], kf2[i]), T, witness_vars=wv, replay=rb, pairwise=False))
            out.append(prove(f"{base}/stored kriging variance[{i}] == plain kriging variance", C, core.eq(kv[i], kv2[i]), T, witness_vars=wv, replay=rb, pairwise=False))
            want = mean + lift(rk[i]) + sq(lift(kv[i]) / sy["var"].e) * lift(raw[i])
            out.append(prove(f"{base}/field[{i}] == mean + raw kriging + sqrt(kriging variance/var) * raw field", C, lift(fld[i]) == want, T, witness_vars=wv, replay=rb, pairwise=False))
            out.append(prove(f"{base}/field[{i}] == kriging estimate where the kriging variance vanishes", C + [lift(kv[i]) == 0], lift(fld[i]) == lift(kf[i]), T, witness_vars=wv, replay=rb, pairwise=False))
    return out


def job_scaling(with_nugget, tier):
    """CondSRF.get_scaling on an arbitrary kriging variance: the fluctuation added to the kriging estimate has exactly the
    kriging variance: var_scale^2 var + nug_scale^2 nugget == krige_var (no upper clipping: unbiased kriging variances exceed var)"""
    gs, kb = setup()
    T = core.tier_timeout(tier)
    v, n, kv0, kv1, l = sym.reals("var nug kvar0 kvar1 len")
    wv = dict(var=v, nug=n, kvar0=kv0, kvar1=kv1)
    rb = ("scaling", lambda vals: {"with_nugget": with_nugget, "values": vals})
    out = []
    tag = f"C07/scaling/{'nugget' if with_nugget else 'no_nugget'}"

    def run():
        sym.assume(v > 0)
        sym.assume(l > 0)
        sym.assume(kv0 >= 0)
        sym.assume(kv1 >= 0)
        if with_nugget:
            sym.assume(n > 0)
        UFModel = kstub.uf_model_class()
        model = UFModel(dim=1, var=v, len_scale=l, nugget=(n if with_nugget else 0.0))
        k = gs.krige.Ordinary(model, [[0.0, 1.0]], [0.5, -0.5])
        csrf = gs.CondSRF(k, mode_no=2, seed=5)
        csrf.generator.get_nugget = lambda shape: rnp.ones(shape)
        vs, ng = csrf.get_scaling(rnp.array([kv0, kv1], dtype=object), (2,))
        return rnp.asarray(vs, dtype=object).reshape(-1), (rnp.asarray(ng, dtype=object).reshape(-1) if with_nugget else None)

    for pi, p in enumerate(explore(run, max_paths=32)):
        base = f"{tag}/path{pi}"
        if p.exc is not None:
            out.append(rec(base, "error", detail=f"{p.exc!r} {p.tb}"))
            continue
        vs, ng = p.out
        for i, kvi in enumerate((kv0, kv1)):
            tot = lift(vs[i]) * lift(vs[i]) * v.e
            conds = [lift(vs[i]) >= 0]
            if with_nugget:
                tot = tot + lift(ng[i]) * lift(ng[i]) * n.e
                conds.append(lift(ng[i]) >= 0)
                # the smooth part carries at most krige_var - nugget (the nugget part is white noise)
                conds.append(lift(vs[i]) * lift(vs[i]) * v.e == z3.If(kvi.e - n.e >= 0, kvi.e - n.e, 0))
            out.append(prove(f"{base}/point{i}: var_scale^2 var (+ nug_scale^2 nugget) == kriging variance, scales >= 0", p.conds, z3.And(conds + [tot == kvi.e]), T, witness_vars=wv, replay=rb, pairwise=False))
    return out


def job_krige_history(seq, tier):
    """the wrapped Krige object on its own: after call / mean= / trend= / normalizer= in any order the next estimate equals that
    of a freshly built object with the final settings (no stale prepared conditioning values)"""
    gs, kb = setup()
    T = core.tier_timeout(tier)
    sy = symbols()
    wv = c05.wvars(sy)
    rb = ("krige_history", lambda v: {"seq": list(seq), "values": v})
    hid = "C07/krige_history/" + ">".join(seq)
    out = []

    def run():
        kstub.reset()
        for s_ in (sy["var"], sy["len"]):
            sym.assume(s_ > 0)
        for z in sy["cval"]:
            sym.assume(z > 0)  # (domain of the log-normaliser used by the 'normalizer' operation)
        UFModel = kstub.uf_model_class()
        model = UFModel(dim=1, var=sy["var"], len_scale=sy["len"])
        cp, cv = [list(r) for r in sy["cpos"]], list(sy["cval"])
        k = gs.krige.Krige(model, cp, cv, mean=sy["mean"], unbiased=False)
        st = dict(mean=sy["mean"], trend=None, norm=None)
        pos = [list(r) for r in sy["tpos"]]
        for op in seq:
            if op == "call":
                k(pos)
            elif op == "mean":
                k.mean = sy["mean2"]
                st["mean"] = sy["mean2"]
            elif op == "trend":
                k.trend = sy["trend2"]
                st["trend"] = sy["trend2"]
                for z in sy["cval"]:
                    sym.assume(z - sy["trend2"] > 0)
            elif op == "normalizer":
                k.normalizer = gs.normalizer.LogNormal()
                st["norm"] = "log"
        fld, var = k(pos)
        k2 = gs.krige.Krige(model, cp, cv, mean=st["mean"], trend=st["trend"], normalizer=(gs.normalizer.LogNormal() if st["norm"] else None), unbiased=False)
        f2, v2 = k2(pos)
        return c11.flat(fld), c11.flat(f2), c11.flat(var), c11.flat(v2), rnp.array(k._krige_cond, dtype=object).copy(), rnp.array(k2._krige_cond, dtype=object).copy(), list(kstub.INV_LOG)

    n_ok = 0
    for pi, p in enumerate(explore(run, max_paths=64)):
        base = f"{hid}/path{pi}"
        if p.exc is not None:
            out.append(rec(base, "error", detail=f"{p.exc!r} {p.tb}"))
            continue
        n_ok += 1
        fld, f2, var, v2, c1, c2, log = p.out
        C = p.conds + unify_inverses(log)
        for i in range(len(c1)):
            out.append(prove(f"{base}/prepared conditioning value[{i}] == freshly built object", p.conds, core.eq(c1[i], c2[i]), T, witness_vars=wv, replay=rb, pairwise=False))
        for i, (a, b) in enumerate(zip(fld, f2)):
            out.append(prove(f"{base}/estimate[{i}] == freshly built object", C, core.eq(a, b), T, witness_vars=wv, replay=rb, pairwise=False))
        for i, (a, b) in enumerate(zip(var, v2)):
            out.append(prove(f"{base}/variance[{i}] == freshly built object", C, core.eq(a, b), T, witness_vars=wv, replay=rb, pairwise=False))
    if not n_ok:
        out.append(rec(hid + "/reach", "vacuous"))
    return out


OPS = ["call_same", "call_newseed", "call_newpos", "cond_values", "cond_positions", "model_refresh", "mean", "trend"]


def job_history(variant, seq, tier, dim=1):
    gs, kb = setup()
    T = core.tier_timeout(tier)
    sy = symbols(dim=dim)
    wv = c05.wvars(sy)
    rb = ("history", lambda v: {"variant": variant, "seq": list(seq), "dim": dim, "values": v})
    hid = f"C07/history/{variant}/" + (f"d{dim}/" if dim > 1 else "") + ">".join(seq)
    out = []

    def changed(new, old):
        sym.assume(abs(new - old) > 1e-8 + 1e-5 * abs(old) + 1e-5 * abs(new))

    def run():
        kstub.reset()
        rngstub.reset()
        for s in (sy["var"], sy["len"], sy["var2"], sy["anis"], sy["anis2"]):
            sym.assume(s > 0)
        st = dict(cpos=sy["cpos"], cval=sy["cval"], var=sy["var"], anis=sy["anis"], mean=(sy["mean"] if variant == "simple" else None), trend=None, pos=sy["tpos"], seed=5)
        csrf, k, model = build(gs, sy, dim=dim, variant=variant)
        pos = [list(r) for r in st["pos"]]
        csrf(pos, seed=9)
        st["seed"] = 9
        for op in seq:
            if op == "call_same":
                csrf()
            elif op == "call_newseed":
                csrf(seed=11)
                st["seed"] = 11
            elif op == "call_newpos":
                for a, b in zip(sy["tpos2"][0], sy["tpos"][0]):
                    changed(a, b)
                csrf([list(r) for r in sy["tpos2"]])
                st["pos"] = sy["tpos2"]
            elif op == "cond_values":
                for a, b in zip(sy["cval2"], st["cval"]):
                    changed(a, b)
                k.set_condition(cond_val=list(sy["cval2"]))
                st["cval"] = sy["cval2"]
            elif op == "cond_positions":
                for a, b in zip(sy["cpos2"][0], st["cpos"][0]):
                    changed(a, b)
                k.set_condition(cond_pos=[list(r) for r in sy["cpos2"]], cond_val=list(st["cval"]))
                st["cpos"] = sy["cpos2"]
            elif op == "model_refresh":
                changed(sy["var2"], csrf.model.var)
                csrf.model.var = sy["var2"]
                k.set_condition()  # documented refresh after an in-place model change
                st["var"] = sy["var2"]
            elif op == "anis_refresh":
                changed(sy["anis2"], csrf.model.anis[0])
                csrf.model.anis = sy["anis2"]
                k.set_condition()  # documented refresh after an in-place model change (same positions, new geometry)
                st["anis"] = sy["anis2"]
            elif op == "mean" and variant == "simple":
                changed(sy["mean2"], st["mean"])
                csrf.mean = sy["mean2"]
                st["mean"] = sy["mean2"]
            elif op == "trend":
                csrf.trend = sy["trend2"]
                st["trend"] = sy["trend2"]
        final = csrf()
        # fresh objects with the final settings
        sy2 = dict(sy, cpos=st["cpos"], cval=st["cval"], var=st["var"], anis=st["anis"])
        fresh_csrf, k2, m2 = build(gs, sy2, dim=dim, variant=variant, seed=5, mean=st["mean"], trend=st["trend"])
        n_inv_before = len(kstub.INV_LOG)
        fresh = fresh_csrf([list(r) for r in st["pos"]], seed=st["seed"])
        # intermediate state (cheap, localising obligations): isometrised conditioning positions and the kriging matrix in use
        state = (rnp.array(k._krige_pos, dtype=object).copy(), rnp.array(k2._krige_pos, dtype=object).copy(), kstub.INV_LOG[n_inv_before - 1][0] if n_inv_before else None, kstub.INV_LOG[-1][0] if len(kstub.INV_LOG) > n_inv_before else None)
        return c11.flat(final), c11.flat(fresh), list(kstub.INV_LOG), state

    paths = explore(run, max_paths=64)
    n_ok = 0
    for pi, p in enumerate(paths):
        base = f"{hid}/path{pi}"
        if p.exc is not None:
            out.append(rec(base, "error", detail=f"{p.exc!r} {p.tb}"))
            continue
        n_ok += 1
        final, fresh, log, state = p.out
        C = p.conds + list(rngstub.FACTS) + unify_inverses(log)
        kp1, kp2, K1, K2 = state
        if kp1.shape != kp2.shape:
            out.append(rec(base + "/shape of the isometrised conditioning positions", "sat", witness={}, replay={"kind": "history", "inputs": rb[1]({})}))
        else:
            for idx in rnp.ndindex(kp1.shape):
                out.append(prove(f"{base}/isometrised conditioning position{list(idx)} == freshly built object", p.conds, core.eq(kp1[idx], kp2[idx]), T, witness_vars=wv, replay=rb, pairwise=False))
        if K1 is not None and K2 is not None and K1.shape == K2.shape:
            for idx in rnp.ndindex(K1.shape):
                out.append(prove(f"{base}/kriging matrix{list(idx)} in use == freshly built object", p.conds, core.eq(K1[idx], K2[idx]), T, witness_vars=wv, replay=rb, pairwise=False))
        for i, (a, b) in enumerate(zip(final, fresh)):
            out.append(prove(f"{base}/field[{i}] == freshly built Krige+CondSRF with the final settings", C, core.eq(a, b), T, witness_vars=wv, replay=rb, pairwise=False))
    if not n_ok:
        out.append(rec(hid + "/reach", "vacuous"))
    return out


def jobs(tier, seed):
    js = [Job("formula-ordinary", job_formula, "ordinary", tier), Job("formula-simple", job_formula, "simple", tier)]
    js += [Job("scaling-no_nugget", job_scaling, False, tier), Job("scaling-nugget", job_scaling, True, tier)]
    for variant in ("ordinary", "simple"):
        ops = [o for o in OPS if not (o == "mean" and variant != "simple")]
        once = ("cond_values", "cond_positions", "model_refresh", "mean")  # one symbolic replacement value each
        seqs = [(o,) for o in ops] + [s_ for s_ in itertools.product(ops, repeat=2) if not (s_[0] == s_[1] and s_[0] in once)]
        if tier == "thorough" and variant == "ordinary":
            core_ops = ["call_newseed", "cond_values", "model_refresh", "trend", "call_newpos"]
            seqs += [s_ for s_ in itertools.product(core_ops, repeat=3) if all(s_.count(o) <= 1 for o in once)]
            seqs += [s_ for s_ in itertools.product(core_ops, repeat=4) if all(s_.count(o) <= 1 for o in once) and s_.count("call_newseed") <= 2 and s_.count("call_newpos") <= 1]
        for s in seqs:
            js.append(Job(f"hist-{variant}-{'>'.join(s)}", job_history, variant, s, tier))
    for s in (("mean",), ("call", "mean"), ("call", "trend"), ("call", "normalizer"), ("call", "mean", "call", "trend"), ("call", "normalizer", "mean")):
        js.append(Job(f"krige-hist-{'>'.join(s)}", job_krige_history, s, tier))
    # 2-D anisotropic model: the refresh after an in-place change of the geometry
    for s in (("anis_refresh",), ("anis_refresh", "call_same"), ("call_newseed", "anis_refresh"), ("cond_values", "anis_refresh"), ("anis_refresh", "cond_values")):
        js.append(Job(f"hist-ordinary-d2-{'>'.join(s)}", job_history, "ordinary", s, tier, 2))
    return js


# --------------------------------------------------------------------------


def _val(v, k, d):
    x = v.get(k)
    return float(x) if x is not None else d


def _conc(v):
    import numpy as np

    cpos = np.array([[_val(v, "c0_0", 0.3), _val(v, "c0_1", 1.9)]])
    if np.isclose(cpos[0, 0], cpos[0, 1]):
        cpos[0, 1] = cpos[0, 0] + 1.3
    return dict(
        var=abs(_val(v, "var", 1.4)) or 1.4,
        len=abs(_val(v, "len", 1.6)) or 1.6,
        mean=_val(v, "mean", 0.3),
        cpos=cpos,
        cval=np.array([_val(v, "z0", 0.8), _val(v, "z1", -0.5)]),
        cval2=np.array([_val(v, "y0", 2.8), _val(v, "y1", 3.5)]),
        cpos2=np.array([[_val(v, "d0_0", 0.9), _val(v, "d0_1", 2.6)]]),
        tpos=np.array([[_val(v, "t0_0", 0.7), _val(v, "t0_1", 2.4)]]),
        tpos2=np.array([[_val(v, "u0_0", 1.1), _val(v, "u0_1", 3.3)]]),
        mean2=_val(v, "mean2", 1.7),
        trend2=_val(v, "trend2", 0.6),
        var2=abs(_val(v, "var2", 2.9)) or 2.9,
    )


def _build(gs, c, variant, cpos, cval, var, mean, trend, seed=5):
    model = gs.Exponential(dim=1, var=var, len_scale=c["len"])
    if variant == "simple":
        k = gs.krige.Simple(model, cpos, cval, mean=mean, trend=trend)
    else:
        k = gs.krige.Ordinary(model, cpos, cval, trend=trend)
    return gs.CondSRF(k, mode_no=30, seed=seed), k


def replay_formula(inputs):
    import numpy as np
    import gstools as gs

    c = _conc(inputs.get("values") or {})
    variant = inputs["variant"]
    csrf, k = _build(gs, c, variant, c["cpos"], c["cval"], c["var"], c["mean"], None)
    f = csrf(c["tpos"], seed=9)
    model = csrf.model
    unc = gs.SRF(model, mode_no=30, seed=5)(c["tpos"], seed=9)
    k2 = gs.krige.Simple(model, c["cpos"], c["cval"], mean=c["mean"]) if variant == "simple" else gs.krige.Ordinary(model, c["cpos"], c["cval"])
    kf, kv = k2(c["tpos"])
    kraw = kf - (c["mean"] if variant == "simple" else 0.0)
    want = (c["mean"] if variant == "simple" else 0.0) + kraw + np.sqrt(kv / model.var) * unc
    bad = []
    if not np.allclose(csrf.raw_field, unc, rtol=1e-9, atol=1e-11):
        bad.append("raw field")
    if not np.allclose(f, want, rtol=1e-7, atol=1e-9):
        bad.append(f"field {f} != {want}")
    at = csrf(c["cpos"], seed=9)
    if not np.allclose(at, c["cval"], rtol=1e-6, atol=1e-7):
        bad.append(f"data not honoured: {at} vs {c['cval']}")
    return (not bad), f"{variant} failing={bad}"


def _replay_history_2d(inputs):
    import numpy as np
    import gstools as gs

    v = inputs.get("values") or {}
    seq = list(inputs["seq"])
    cpos = np.array([[_val(v, "c0_0", 0.3), _val(v, "c0_1", 1.9)], [_val(v, "c1_0", 0.2), _val(v, "c1_1", 1.1)]])
    if np.allclose(cpos[:, 0], cpos[:, 1]):
        cpos = np.array([[0.3, 1.9], [0.2, 1.1]])
    cval, cval2 = np.array([_val(v, "z0", 0.7), _val(v, "z1", -0.4)]), np.array([_val(v, "y0", 1.9), _val(v, "y1", 0.8)])
    tpos = np.array([[_val(v, "t0_0", 0.9), _val(v, "t0_1", 2.6)], [_val(v, "t1_0", 0.5), _val(v, "t1_1", -0.7)]])
    a1, a2 = abs(_val(v, "anis", 0.5)) or 0.5, abs(_val(v, "anis2", 2.0)) or 2.0
    if np.isclose(a1, a2):
        a2 = a1 * 2.5
    var, ln = abs(_val(v, "var", 1.4)) or 1.4, abs(_val(v, "len", 1.6)) or 1.6

    def mk(anis, cv):
        model = gs.Exponential(dim=2, var=var, len_scale=ln, anis=anis)
        k = gs.krige.Ordinary(model, cpos, cv)
        return gs.CondSRF(k, mode_no=30, seed=5), k

    st = dict(anis=a1, cval=cval, seed=9)
    csrf, k = mk(a1, cval)
    csrf(tpos, seed=9)
    for op in seq:
        if op == "call_same":
            csrf()
        elif op == "call_newseed":
            csrf(seed=11)
            st["seed"] = 11
        elif op == "cond_values":
            k.set_condition(cond_val=cval2)
            st["cval"] = cval2
        elif op == "anis_refresh":
            csrf.model.anis = a2
            k.set_condition()
            st["anis"] = a2
    final = csrf()
    fresh = mk(st["anis"], st["cval"])[0](tpos, seed=st["seed"])
    ok = np.allclose(final, fresh, rtol=1e-7, atol=1e-9)
    return bool(ok), f"2-D ordinary seq={seq} anis {a1}->{a2}: after history={np.asarray(final).tolist()} fresh={np.asarray(fresh).tolist()}"


def replay_history(inputs):
    import numpy as np
    import gstools as gs

    if int(inputs.get("dim", 1)) == 2:
        return _replay_history_2d(inputs)
    c = _conc(inputs.get("values") or {})
    variant, seq = inputs["variant"], list(inputs["seq"])
    st = dict(cpos=c["cpos"], cval=c["cval"], var=c["var"], mean=(c["mean"] if variant == "simple" else None), trend=None, pos=c["tpos"], seed=9)
    csrf, k = _build(gs, c, variant, st["cpos"], st["cval"], st["var"], st["mean"], None)
    csrf(st["pos"], seed=9)
    for op in seq:
        if op == "call_same":
            csrf()
        elif op == "call_newseed":
            csrf(seed=11)
            st["seed"] = 11
        elif op == "call_newpos":
            csrf(c["tpos2"])
            st["pos"] = c["tpos2"]
        elif op == "cond_values":
            k.set_condition(cond_val=c["cval2"])
            st["cval"] = c["cval2"]
        elif op == "cond_positions":
            k.set_condition(cond_pos=c["cpos2"], cond_val=st["cval"])
            st["cpos"] = c["cpos2"]
        elif op == "model_refresh":
            csrf.model.var = c["var2"]
            k.set_condition()
            st["var"] = c["var2"]
        elif op == "mean" and variant == "simple":
            csrf.mean = c["mean2"]
            st["mean"] = c["mean2"]
        elif op == "trend":
            csrf.trend = c["trend2"]
            st["trend"] = c["trend2"]
    final = csrf()
    fresh_csrf, _ = _build(gs, c, variant, st["cpos"], st["cval"], st["var"], st["mean"], st["trend"])
    fresh = fresh_csrf(st["pos"], seed=st["seed"])
    ok = np.allclose(final, fresh, rtol=1e-7, atol=1e-9)
    return bool(ok), f"{variant} seq={seq} after history={np.asarray(final).tolist()} fresh={np.asarray(fresh).tolist()}"


def replay_scaling(inputs):
    import numpy as np
    import gstools as gs

    v = inputs.get("values") or {}
    wn = bool(inputs["with_nugget"])
    var, nug = abs(_val(v, "var", 1.3)) or 1.3, (abs(_val(v, "nug", 0.4)) or 0.4) if wn else 0.0
    kv = np.array([abs(_val(v, "kvar0", 0.6)), abs(_val(v, "kvar1", 2.9)), 0.0, 0.5 * var, 1.7 * var + nug, 3.0 * (var + nug)])
    model = gs.Exponential(dim=1, var=var, len_scale=1.5, nugget=nug)
    k = gs.krige.Ordinary(model, [[0.0, 1.0]], [0.5, -0.5])
    csrf = gs.CondSRF(k, mode_no=10, seed=5)
    csrf.generator.get_nugget = lambda shape: np.ones(shape)
    vs, ng = csrf.get_scaling(kv.copy(), kv.shape)
    tot = np.asarray(vs) ** 2 * var + (np.asarray(ng) ** 2 * nug if wn else 0.0)
    ok = np.allclose(tot, kv, rtol=1e-10, atol=1e-12) and np.all(np.asarray(vs) >= 0)
    return bool(ok), f"var={var} nugget={nug} kriging variances={kv.tolist()} reproduced variance={np.asarray(tot).tolist()}"


def replay_krige_history(inputs):
    import numpy as np
    import gstools as gs

    c = _conc(inputs.get("values") or {})
    seq = list(inputs["seq"])
    cval = np.abs(np.asarray(c["cval"], dtype=float)) + 1.5
    model = gs.Exponential(dim=1, var=c["var"], len_scale=c["len"])
    k = gs.krige.Krige(model, c["cpos"], cval, mean=c["mean"], unbiased=False)
    st = dict(mean=c["mean"], trend=None, norm=None)
    tr2 = min(abs(float(c["trend2"])), 1.0)
    for op in seq:
        if op == "call":
            k(c["tpos"])
        elif op == "mean":
            k.mean = c["mean2"]
            st["mean"] = c["mean2"]
        elif op == "trend":
            k.trend = tr2
            st["trend"] = tr2
        elif op == "normalizer":
            k.normalizer = gs.normalizer.LogNormal()
            st["norm"] = "log"
    fld, var = k(c["tpos"])
    k2 = gs.krige.Krige(model, c["cpos"], cval, mean=st["mean"], trend=st["trend"], normalizer=(gs.normalizer.LogNormal() if st["norm"] else None), unbiased=False)
    f2, v2 = k2(c["tpos"])
    ok = np.allclose(fld, f2, rtol=1e-8, atol=1e-10) and np.allclose(var, v2, rtol=1e-8, atol=1e-10)
    return bool(ok), f"Krige seq={seq}: after history field={np.asarray(fld).tolist()} fresh={np.asarray(f2).tolist()}"


REPLAY = {"formula": replay_formula, "history": replay_history, "scaling": replay_scaling, "krige_history": replay_krige_history}

"""C15  Compiled summation kernels equal their source semantics under every thread count."""
import ast
import itertools
import math
import os
import re
import shutil
import subprocess
import sys
import tempfile
import time

import z3

from .. import core, kernel, theory
from ..core import Job, Query, prove, rec
from ..kernel import FV, Arr

PYX = {"summator": "gstools/field/summator.pyx", "krigesum": "gstools/krige/krigesum.pyx", "estimator": "gstools/variogram/estimator.pyx"}
GENC = {"summator": "gstools/field/summator.c", "krigesum": "gstools/krige/krigesum.c", "estimator": "gstools/variogram/estimator.cpp"}
FILES = ["src/" + v for v in PYX.values()] + ["src/gstools/config.py"]

SPEC = {
    "level": "model_checking",
    "engine": "E2 (guarded-update symbolic interpreter of the decythonised .pyx) + E3 (LIA ownership of prange loops) + translation validation against the compiled artefacts",
    "files": FILES,
    "functions": ["summator.pyx: summate, summate_incompr, summate_fourier, abs_square, set_num_threads", "krigesum.pyx: calc_field_krige, calc_field_krige_and_variance, set_num_threads", "estimator.pyx: unstructured, directional, structured, ma_structured, dist_euclid, dist_haversine, dir_test, estimator_*/normalization_*, set_num_threads"],
    "bounds": {
        "quick": {"symbolic": "summation kernels: dim 1-3, 2 points, 2 modes; kriging kernels: 3x3 matrix, 2 targets; variogram kernels: 3 points, 2 bins, 1-2 fields with symbolic NaN flags, grids 3x2", "ownership": "unbounded array extents (LIA)", "differential": "120 seeded random + boundary inputs per kernel vs the installed .so; OpenMP scratch build with num_threads in {1,2,3,4,8,16}, sizes up to 2000"},
        "thorough": {"symbolic": "as quick with 3 points / 3 modes / 4 variogram points", "differential": "600 inputs per kernel, sizes up to 5000"},
    },
    "stubs": ["sqrt/sin/cos/acos/atan2 uninterpreted (same symbol in kernel and reference)", "omp_get_num_procs() -> symbolic positive integer"],
    "oracle": "the defining sums written independently (Hesse et al. 2014 randomization sums; c^T M k and k^T M k; pair enumeration with half-open bins, Matheron / Cressie-Hawkins normalisation)",
    "outside": ["regenerating the .so from an edited .pyx (no Cython in the sandbox: the generated C present in /repo/src is compiled instead)", "sizes beyond the unrolled bounds for the symbolic part", "libm vs interpreter rounding beyond rtol 1e-12 for source-vs-artefact"],
    "assumptions": ["floats read as reals in the symbolic part", "the generated .c/.cpp files present next to the .pyx are those the installed .so was built from (their prange pragmas are audited against the source)"],
}

JOB_TIMEOUT = {"quick": 400, "thorough": 3000}
RS = z3.RealSort()


def R(name):
    return z3.Real(name)


def seqsum(terms):
    """left-to-right accumulation starting from 0 (the shape the kernels' loops produce), so that
    equal quantities are syntactically equal terms and the comparison stays propositional"""
    r = z3.RealVal(0)
    for t in terms:
        r = r + t
    return r


def sym_arr(prefix, shape):
    n = 1
    for s in shape:
        n *= s
    idxs = list(itertools.product(*[range(s) for s in shape]))
    return Arr(shape, [R(f"{prefix}_" + "_".join(map(str, i))) for i in idxs])


def wv_of(*arrs):
    w = {}
    for a in arrs:
        for t in a.data:
            if isinstance(t, FV):
                t = t.val
            if z3.is_const(t):
                w[str(t)] = t
    return w


# --------------------------------------------------------------------------
# (a) symbolic: kernels == defining sums


def job_summator(dim, npts, nmod, tier):
    T = core.tier_timeout(tier)
    I = kernel.load(PYX["summator"])
    cs, z1, z2, pos, sf = sym_arr("k", (dim, nmod)), sym_arr("z1", (nmod,)), sym_arr("z2", (nmod,)), sym_arr("x", (dim, npts)), sym_arr("sf", (nmod,))
    wv = wv_of(cs, z1, z2, pos, sf)
    rb = ("summator", lambda v: {"dim": dim, "npts": npts, "nmod": nmod, "values": v})
    cos, sin = theory.UF["cos"], theory.UF["sin"]
    out = []

    def phase(i, j):
        return z3.Sum([cs.get((d, j)) * pos.get((d, i)) for d in range(dim)])

    res = I.call("summate", [cs, z1, z2, pos, None])
    for i in range(npts):
        ref = z3.Sum([z1.get(j) * cos(phase(i, j)) + z2.get(j) * sin(phase(i, j)) for j in range(nmod)])
        out.append(prove(f"C15/summate/d{dim}/point{i}==sum_j z1 cos(k.x)+z2 sin(k.x)", [], kernel.treal(res.get(i)) == ref, T, witness_vars=wv, replay=rb, vacuity=False))
    res = I.call("summate_fourier", [sf, cs, z1, z2, pos, None])
    for i in range(npts):
        ref = z3.Sum([sf.get(j) * (z1.get(j) * cos(phase(i, j)) + z2.get(j) * sin(phase(i, j))) for j in range(nmod)])
        out.append(prove(f"C15/summate_fourier/d{dim}/point{i}", [], kernel.treal(res.get(i)) == ref, T, witness_vars=wv, replay=rb, vacuity=False))
    if dim >= 2:
        res = I.call("summate_incompr", [cs, z1, z2, pos, None])
        nz = [z3.Sum([cs.get((d, j)) * cs.get((d, j)) for d in range(dim)]) != 0 for j in range(nmod)]
        for i in range(npts):
            for d in range(dim):
                terms = []
                for j in range(nmod):
                    k2 = z3.Sum([cs.get((e, j)) * cs.get((e, j)) for e in range(dim)])
                    proj = (1 if d == 0 else 0) - cs.get((d, j)) * cs.get((0, j)) / k2
                    terms.append(proj * (z1.get(j) * cos(phase(i, j)) + z2.get(j) * sin(phase(i, j))))
                out.append(prove(f"C15/summate_incompr/d{dim}/comp{d}/point{i}==sum_j (e1-k k1/|k|^2)_d(...)", nz, kernel.treal(res.get((d, i))) == z3.Sum(terms), T, witness_vars=wv, replay=rb))
    return out, {"kernel": "summator", "stmts": I.stmts_executed}


def job_krigesum(m, k, tier):
    T = core.tier_timeout(tier)
    I = kernel.load(PYX["krigesum"])
    M, V, c = sym_arr("M", (m, m)), sym_arr("V", (m, k)), sym_arr("c", (m,))
    wv = wv_of(M, V, c)
    rb = ("krigesum", lambda v: {"m": m, "k": k, "values": v})
    out = []
    f, e = I.call("calc_field_krige_and_variance", [M, V, c, None])
    f2 = I.call("calc_field_krige", [M, V, c, None])
    for t in range(k):
        reff = z3.Sum([c.get(i) * M.get((i, j)) * V.get((j, t)) for i in range(m) for j in range(m)])
        refe = z3.Sum([V.get((i, t)) * M.get((i, j)) * V.get((j, t)) for i in range(m) for j in range(m)])
        out.append(prove(f"C15/calc_field_krige_and_variance/field[{t}]==c^T M k", [], kernel.treal(f.get(t)) == reff, T, witness_vars=wv, replay=rb, vacuity=False))
        out.append(prove(f"C15/calc_field_krige_and_variance/error[{t}]==k^T M k", [], kernel.treal(e.get(t)) == refe, T, witness_vars=wv, replay=rb, vacuity=False))
        out.append(prove(f"C15/calc_field_krige/field[{t}]==c^T M k", [], kernel.treal(f2.get(t)) == reff, T, witness_vars=wv, replay=rb, vacuity=False))
    return out, {"kernel": "krigesum", "stmts": I.stmts_executed}


def field_arr(prefix, shape, nan=True):
    idxs = list(itertools.product(*[range(s) for s in shape]))
    return Arr(shape, [FV(R(f"{prefix}_" + "_".join(map(str, i))), z3.Bool(f"{prefix}nan_" + "_".join(map(str, i))) if nan else False) for i in idxs])


def ref_variogram(kind, f, pairs, nb, et, nf):
    """reference by pair enumeration: pairs = list of (j, k, membership(i) -> z3 Bool)"""
    sq = theory.UF["sqrt"]
    vals, cnts = [], []
    for i in range(nb):
        terms, cts = [], []
        for (j, k, member) in pairs:
            inb = member(i)
            for m in range(nf):
                a, b = f.get((m, j)), f.get((m, k))
                ok = z3.And(inb, z3.Not(z3.Or(a.nan, b.nan))) if not (a.nan is False and b.nan is False) else inb
                df = b.val - a.val
                e = df * df if et == "m" else sq(z3.If(df >= 0, df, -df))
                terms.append(z3.If(ok, e, z3.RealVal(0)))
                cts.append(z3.If(ok, z3.IntVal(1), z3.IntVal(0)))
        S, C = z3.Sum(terms) if terms else z3.RealVal(0), z3.Sum(cts) if cts else z3.IntVal(0)
        vals.append(S)
        cnts.append(C)
    return vals, cnts


def ref_normalise(S, C, et):
    Cn = z3.ToReal(z3.If(C >= 1, C, z3.IntVal(1)))
    if et == "m":
        return S / (2 * Cn)
    a = (1 / Cn) * S
    return z3.RealVal("1/2") * (a * a * a * a) / (z3.RealVal("457/1000") + z3.RealVal("494/1000") / Cn + z3.RealVal("45/1000") / (Cn * Cn))


def job_estimator_unstructured(dim, n, nb, nf, et, dist, tier):
    """accumulators and counts captured before normalisation == pair sums; normalisation == closed form"""
    T = core.tier_timeout(tier)
    I = kernel.load(PYX["estimator"])
    out = []
    pos = sym_arr("p", (dim, n))
    f = field_arr("f", (nf, n))
    be = sym_arr("b", (nb + 1,))
    wv = wv_of(pos, be, f)
    for t in f.data:
        wv[str(t.nan)] = t.nan
    rb = ("unstructured", lambda v: {"dim": dim, "n": n, "nb": nb, "nf": nf, "et": et, "dist": dist, "values": v})
    # capture accumulators at the call of the normalisation function
    cap = {}
    fn_name = "normalization_matheron" if et == "m" else "normalization_cressie"
    orig = I.funcs[fn_name]
    I.funcs[fn_name] = ast.parse("def %s(variogram, counts):\n    pass\n" % fn_name).body[0]
    v, c = I.call("unstructured", [f, be, pos, et, dist, None])
    I.funcs[fn_name] = orig
    sq = theory.UF["sqrt"]
    if dist == "e":
        dterm = lambda j, k: sq(seqsum([(pos.get((d, j)) - pos.get((d, k))) * (pos.get((d, j)) - pos.get((d, k))) for d in range(dim)]))
    else:
        PI = theory.PI
        sin, cos, at2 = theory.UF["sin"], theory.UF["cos"], theory.UF["arctan2"]

        def dterm(j, k):
            d2r = PI / 180
            dlat = (pos.get((0, k)) - pos.get((0, j))) * d2r
            dlon = (pos.get((1, k)) - pos.get((1, j))) * d2r
            a = sin(dlat / 2) * sin(dlat / 2) + cos(pos.get((0, j)) * d2r) * cos(pos.get((0, k)) * d2r) * sin(dlon / 2) * sin(dlon / 2)
            return 2 * at2(sq(a), sq(1 - a))

    pairs = [(j, k, (lambda i, j=j, k=k: z3.And(be.get(i) <= dterm(j, k), dterm(j, k) < be.get(i + 1)))) for j in range(n) for k in range(j + 1, n)]
    S, C = ref_variogram("u", f, pairs, nb, et, nf)
    tag = f"C15/unstructured[{dist},{et}]/d{dim}n{n}b{nb}f{nf}"
    for i in range(nb):
        acc = v.get(i)
        av, an = kernel.fv_parts(acc)
        out.append(prove(f"{tag}/bin{i}/accumulator==pair sum (half-open bin, NaN pairs skipped)", [], kernel.treal(av) == S[i], T, witness_vars=wv, replay=rb, vacuity=False))
        out.append(prove(f"{tag}/bin{i}/accumulator never NaN", [], z3.Not(kernel.tz(an)) if an is not False else z3.BoolVal(True), T, witness_vars=wv, replay=rb, vacuity=False))
        out.append(prove(f"{tag}/bin{i}/count==number of pairs", [], kernel.tz(c.get(i)) == C[i], T, witness_vars=wv, replay=rb, vacuity=False))
    # normalisation function on fresh symbols
    s0, c0 = R("S0"), z3.Int("C0")
    va, ca = Arr((1,), [s0]), Arr((1,), [c0], kind="int")
    I.call(fn_name, [va, ca])
    out.append(prove(f"C15/{fn_name}==closed form", [c0 >= 0], kernel.treal(va.get(0)) == ref_normalise(s0, c0, et), T, witness_vars={"S0": s0, "C0": z3.ToReal(c0)}, replay=("normalise", lambda vv: {"et": et, "values": vv})))
    return out, {"kernel": "unstructured", "stmts": I.stmts_executed}


def job_estimator_directional(dim, n, nb, nd, sep, bw, et, tier):
    """compositional: (i) dir_test == documented predicate on symbolic inputs; (ii) the loop nest with
    dir_test as an uninterpreted predicate of (pair, direction) == pair enumeration (first matching
    direction only when directions are separated)"""
    T = core.tier_timeout(tier)
    I = kernel.load(PYX["estimator"])
    out = []
    pos = sym_arr("p", (dim, n))
    f = field_arr("f", (1, n))
    be = sym_arr("b", (nb + 1,))
    dirs = sym_arr("u", (nd, dim))
    tol, band = R("tol"), (R("band") if bw else -1.0)
    wv = wv_of(pos, be, f, dirs)
    wv["tol"] = tol
    if bw:
        wv["band"] = band
    for t in f.data:
        wv[str(t.nan)] = t.nan
    rb = ("directional", lambda v: {"dim": dim, "n": n, "nb": nb, "nd": nd, "sep": sep, "bw": bw, "et": et, "values": v})
    sq, acos = theory.UF["sqrt"], theory.UF["arccos"]
    pre = [tol > 0] + ([band > 0] if bw else [])
    tag = f"C15/directional[{et},{'sep' if sep else 'overlap'},{'band' if bw else 'noband'}]/d{dim}n{n}b{nb}dirs{nd}"

    def dist(j, k):
        return sq(seqsum([(pos.get((d, j)) - pos.get((d, k))) * (pos.get((d, j)) - pos.get((d, k))) for d in range(dim)]))

    # (i) dir_test on one symbolic pair / direction
    dd = R("dist")
    got = I.call("dir_test", [dim, pos, dd, dirs, tol, band, 1, 0, 0])
    dv = [pos.get((e, 1)) - pos.get((e, 0)) for e in range(dim)]
    sp = seqsum([dv[e] * dirs.get((0, e)) for e in range(dim)])
    conds = []
    if bw:
        bd = seqsum([(dv[e] - sp * dirs.get((0, e))) * (dv[e] - sp * dirs.get((0, e))) for e in range(dim)])
        conds.append(sq(bd) < band)
    tt = z3.If(sp >= 0, sp, -sp) / dd
    conds.append(z3.Implies(z3.And(dd > 0, tt < 1), acos(tt) < tol))
    wv2 = dict(wv, dist=dd)
    out.append(prove(f"{tag}/dir_test==(band distance<bandwidth) and (angle to direction<tolerance unless dist=0 or |cos|>=1)", pre, kernel.tz(got) == z3.And(conds), T, witness_vars=wv2, replay=rb))
    # (ii) loop nest with dir_test opaque
    D = z3.Function("dir_ok", z3.IntSort(), z3.IntSort(), z3.IntSort(), z3.BoolSort())
    real_dir_test = I.funcs["dir_test"]
    I.funcs["dir_test"] = lambda dim_, pos_, dist_, direction_, tol_, bw_, i_, j_, d_: D(z3.IntVal(i_), z3.IntVal(j_), z3.IntVal(d_))
    vec = "normalization_matheron_vec" if et == "m" else "normalization_cressie_vec"
    orig = I.funcs[vec]
    I.funcs[vec] = lambda variogram, counts: None
    v, c = I.call("directional", [f, be, pos, dirs, tol, band, sep, et, None], guard=True)
    I.funcs[vec] = orig
    I.funcs["dir_test"] = real_dir_test
    for d in range(nd):

        def member_d(j, k, d=d):
            base = D(z3.IntVal(k), z3.IntVal(j), z3.IntVal(d))
            if sep:
                return z3.And([z3.Not(D(z3.IntVal(k), z3.IntVal(j), z3.IntVal(e))) for e in range(d)] + [base])
            return base

        pairs = [(j, k, (lambda i, j=j, k=k: z3.And(be.get(i) <= dist(j, k), dist(j, k) < be.get(i + 1), member_d(j, k)))) for j in range(n) for k in range(j + 1, n)]
        S, C = ref_variogram("d", f, pairs, nb, et, 1)
        for i in range(nb):
            av, an = kernel.fv_parts(v.get((d, i)))
            out.append(prove(f"{tag}/dir{d}/bin{i}/accumulator==pair sum", pre, kernel.treal(av) == S[i], T, witness_vars=wv, replay=rb))
            out.append(prove(f"{tag}/dir{d}/bin{i}/count", pre, kernel.tz(c.get((d, i))) == C[i], T, witness_vars=wv, replay=rb))
    # the vector normalisation applies the scalar normalisation row by row
    va = Arr((2, 1), [R("Sa"), R("Sb")])
    ca = Arr((2, 1), [z3.Int("Ca"), z3.Int("Cb")], kind="int")
    I.call(vec, [va, ca])
    for r_, (s_, c_) in enumerate(((R("Sa"), z3.Int("Ca")), (R("Sb"), z3.Int("Cb")))):
        out.append(prove(f"C15/{vec}/row{r_}==closed form", [c_ >= 0], kernel.treal(va.get((r_, 0))) == ref_normalise(s_, c_, et), T, witness_vars={"S0": s_, "C0": z3.ToReal(c_)}, replay=("normalise", lambda vv: {"et": et, "values": vv})))
    return out, {"kernel": "directional", "stmts": I.stmts_executed}


def job_estimator_structured(nx, ny, masked, et, tier):
    T = core.tier_timeout(tier)
    I = kernel.load(PYX["estimator"])
    out = []
    f = sym_arr("g", (nx, ny))
    wv = wv_of(f)
    fn_name = "normalization_matheron" if et == "m" else "normalization_cressie"
    orig = I.funcs[fn_name]
    I.funcs[fn_name] = ast.parse("def %s(variogram, counts):\n    pass\n" % fn_name).body[0]
    sq = theory.UF["sqrt"]
    if masked:
        mk = Arr((nx, ny), [z3.Int(f"mask_{i}_{j}") for i in range(nx) for j in range(ny)], kind="int")
        pre = [z3.Or(t == 0, t == 1) for t in mk.data]
        for t in mk.data:
            wv[str(t)] = z3.ToReal(t)
        v = I.call("ma_structured", [f, mk, et, None])
    else:
        pre = []
        v = I.call("structured", [f, et, None])
    I.funcs[fn_name] = orig
    rb = ("structured", lambda vv: {"nx": nx, "ny": ny, "masked": masked, "et": et, "values": vv})
    tag = f"C15/{'ma_' if masked else ''}structured[{et}]/{nx}x{ny}"
    for k in range(nx):
        terms = []
        for i in range(nx - k):
            for j in range(ny):
                if k == 0:
                    continue
                df = f.get((i, j)) - f.get((i + k, j))
                e = df * df if et == "m" else sq(z3.If(df >= 0, df, -df))
                if masked:
                    e = z3.If(z3.And(mk.get((i, j)) == 0, mk.get((i + k, j)) == 0), e, z3.RealVal(0))
                terms.append(e)
        ref = z3.Sum(terms) if terms else z3.RealVal(0)
        out.append(prove(f"{tag}/lag{k}/accumulator==sum over grid pairs at lag k along axis 0", pre, kernel.treal(v.get(k)) == ref, T, witness_vars=wv, replay=rb, vacuity=bool(pre)))
    return out, {"kernel": "structured", "stmts": I.stmts_executed}


# --------------------------------------------------------------------------
# (b) E3 ownership, (c) set_num_threads, (d) pragma audit


def job_ownership(tier):
    T = core.tier_timeout(tier)
    out = []
    src_root = os.environ.get("VERIF_SRC", "/repo/src")
    found = 0
    for key, rel in PYX.items():
        tree, py, src = kernel.parse(os.path.join(src_root, rel))
        for ob in kernel.ownership_obligations(tree):
            found += 1
            fn, var = ob["function"], ob["var"]
            tag = f"C15/ownership/{key}.{fn}/prange({var})"
            if not ob["writes"]:
                out.append(rec(tag + "/has_writes", "error", detail="no shared writes found in the prange body"))
                continue
            # two different parallel iterations p1 != p2, arbitrary inner indices, same outer indices
            names = set([var]) | set(ob["inner"]) | set(ob["outer"])
            for node_names in [kernel._names(w[1]) for w in ob["writes"]] + [kernel._names(r[1]) for r in ob["reads"]] + [kernel._names(ast.parse(ob["range"]).body[0].value) - {"prange"}]:
                names |= node_names
            def env(sfx):
                e = {}
                for nm in names:
                    if nm in ob["outer"] or (nm != var and nm not in ob["inner"]):
                        e[nm] = z3.Int(nm)  # shared between the two iterations (outer loop index / extent)
                    else:
                        e[nm] = z3.Int(nm + sfx)
                return e
            e1, e2 = env("_1"), env("_2")
            # range of the parallel index
            rng = ast.parse(ob["range"]).body[0].value
            rargs = [kernel.index_term(a, e1) for a in rng.args]
            lo1, hi1 = (z3.IntVal(0), rargs[0]) if len(rargs) == 1 else (rargs[0], rargs[1])
            rargs2 = [kernel.index_term(a, e2) for a in rng.args]
            lo2, hi2 = (z3.IntVal(0), rargs2[0]) if len(rargs2) == 1 else (rargs2[0], rargs2[1])
            pre = [e1[var] >= lo1, e1[var] < hi1, e2[var] >= lo2, e2[var] < hi2, e1[var] != e2[var]]
            wv = {k: z3.ToReal(v) for k, v in list(e1.items()) + list(e2.items())}
            rb = ("ownership", lambda v, fn=fn: {"function": fn, "values": v})
            for wi, (arr, idx, aug) in enumerate(ob["writes"]):
                dims = idx.elts if isinstance(idx, ast.Tuple) else [idx]
                same = z3.And([kernel.index_term(d_, e1) == kernel.index_term(d_, e2) for d_ in dims])
                out.append(prove(f"{tag}/write {arr}[{ast.unparse(idx)}] owned by the parallel index", pre, z3.Not(same), T, witness_vars=wv, replay=rb, instantiate=False))
                for ri, (rarr, ridx) in enumerate(ob["reads"]):
                    if rarr != arr:
                        continue
                    rd = ridx.elts if isinstance(ridx, ast.Tuple) else [ridx]
                    if len(rd) != len(dims):
                        continue
                    clash = z3.And([kernel.index_term(a_, e1) == kernel.index_term(b_, e2) for a_, b_ in zip(dims, rd)])
                    out.append(prove(f"{tag}/write {arr}[{ast.unparse(idx)}] vs read [{ast.unparse(ridx)}] of another iteration", pre, z3.Not(clash), T, witness_vars=wv, replay=rb, instantiate=False))
            # scalars assigned in the body must be private: audit against the generated C when present
            out += _pragma_audit(key, fn, ob, src_root)
    if found < 6:
        out.append(rec("C15/ownership/prange_count", "error", detail=f"only {found} prange loops found (expected >= 8 in the three kernels)"))
    return out, {"prange_loops": found}


def _pragma_audit(key, fn, ob, src_root):
    path = os.path.join(src_root, GENC[key])
    tag = f"C15/pragma/{key}.{fn}"
    if not os.path.exists(path):
        return [rec(tag, "unsat", vacuity="unknown", note="generated C not present: clause audit skipped (source-level ownership still decided)")]
    txt = open(path, errors="replace").read()
    # locate the function body in the generated C: '__pyx_pf_..._<fn>(' definition
    m = [x for x in re.finditer(r"static PyObject \*__pyx_pf_[A-Za-z0-9_]*?\d+%s\([^;{]*\{" % re.escape(fn), txt)]
    if not m:
        return [rec(tag, "error", detail="function not found in generated C")]
    start = m[-1].start()
    nxt = re.search(r"\nstatic PyObject \*__pyx_p[fw]_", txt[start + 10 :])
    body = txt[start : start + 10 + (nxt.start() if nxt else len(txt))]
    par = re.findall(r"#pragma omp parallel[^\n]*", body)
    fors = re.findall(r"#pragma omp for[^\n]*", body)
    if not par or not fors:
        return [rec(tag, "error", detail="no omp parallel/for pragma in the generated function")]
    clauses = " ".join(par + fors)
    out = []
    bad = []
    if "nowait" in clauses:
        bad.append("nowait present")
    if re.search(r"schedule\((dynamic|guided)", clauses):
        pass  # scheduling does not affect results when cells are owned; recorded only
    for s in ob["scalars"] + ob["inner"] + [ob["var"]] + ob["outer"]:
        pat = r"__pyx_v_%s\b" % re.escape(s)
        if not re.search(r"(private|lastprivate|firstprivate|reduction)\([^)]*" + pat, clauses):
            bad.append(f"scalar {s} is not thread-private in the generated pragmas")
    if bad:
        out.append(rec(tag + "/scalars thread-private, no nowait", "sat", witness={}, replay={"kind": "pragma", "inputs": {"key": key, "function": fn, "problems": bad}}, detail="; ".join(bad)))
    else:
        out.append(rec(tag + "/scalars thread-private, no nowait", "unsat", vacuity="sat", note=f"{len(par)} parallel + {len(fors)} for pragmas; scalars {ob['scalars']}"))
    return out


def job_num_threads(tier):
    T = core.tier_timeout(tier)
    out = []
    for key, rel in PYX.items():
        for openmp in (False, True):
            procs = z3.Int("omp_procs")
            I = kernel.load(rel, consts={"OPENMP": openmp, "OMP_PROCS": procs})
            r_none = I.call("set_num_threads", [None])
            nt = z3.Int("nt")
            r_val = I.call("set_num_threads", [nt])
            tag = f"C15/set_num_threads/{key}/OPENMP={openmp}"
            want_none = procs if openmp else z3.IntVal(1)
            ok1 = (kernel.tz(r_none) == want_none)
            out.append(prove(tag + "/None", [procs >= 1], ok1, T, witness_vars={"omp_procs": z3.ToReal(procs)}, replay=("num_threads", lambda v, key=key: {"key": key, "values": v}), instantiate=False))
            out.append(prove(tag + "/given", [nt >= 1], kernel.tz(r_val) == nt, T, witness_vars={"nt": z3.ToReal(nt)}, replay=("num_threads", lambda v, key=key: {"key": key, "values": v}), instantiate=False))
    return out


# --------------------------------------------------------------------------
# (e) translation validation: source semantics (E2 concrete mode) vs compiled artefacts


def _np():
    import numpy as np

    return np


def A(a, kind="double"):
    np = _np()
    a = np.asarray(a)
    return Arr(a.shape, [(int(x) if kind == "int" else float(x)) for x in a.ravel()], kind=kind)


def _cases(kernel_name, rng, count, big):
    np = _np()
    for t in range(count):
        if kernel_name in ("summate", "summate_incompr", "summate_fourier"):
            dim = int(rng.integers(1, 5)) if kernel_name != "summate_incompr" else int(rng.integers(2, 4))
            n = int(rng.integers(0, 5)) if t % 7 else 0
            N = int(rng.integers(1, 6))
            cs = rng.normal(size=(dim, N))
            yield dict(cov_samples=cs, z_1=rng.normal(size=N), z_2=rng.normal(size=N), pos=rng.normal(size=(dim, n)) * 10.0 ** int(rng.integers(-2, 3)), spectrum_factor=rng.random(N))
        elif kernel_name in ("calc_field_krige", "calc_field_krige_and_variance"):
            m, k = int(rng.integers(1, 6)), int(rng.integers(0, 5))
            yield dict(krig_mat=rng.normal(size=(m, m)), krig_vecs=rng.normal(size=(m, k)), cond=rng.normal(size=m))
        elif kernel_name in ("unstructured", "directional"):
            dim = int(rng.integers(1, 4)) if kernel_name == "unstructured" else int(rng.integers(2, 4))
            n, nf, nb = int(rng.integers(2, 7)), int(rng.integers(1, 3)), int(rng.integers(1, 4))
            mode = t % 4
            pos = rng.integers(0, 4, size=(dim, n)).astype(float) if mode != 3 else rng.normal(size=(dim, n))
            if mode == 1:
                pos[:, -1] = pos[:, 0]  # duplicate point
            if mode == 2:
                pos[1:, :] = 0.0  # collinear
            f = rng.normal(size=(nf, n))
            f[rng.random(f.shape) < 0.2] = np.nan
            be = np.sort(rng.choice(np.arange(0.0, 7.0, 0.5), size=nb + 1, replace=False))
            dirs = rng.normal(size=(2, dim))
            dirs /= np.linalg.norm(dirs, axis=1)[:, None]
            if mode == 0:
                dirs[0] = np.eye(dim)[0]
            yield dict(f=f, bin_edges=be, pos=pos, et=str(rng.choice(["m", "c"])), dirs=dirs, tol=float(rng.choice([0.3, math.pi / 8, 1.2])), bw=float(rng.choice([-1.0, 0.8, 2.0])), sep=bool(rng.integers(0, 2)), latlon=rng.uniform(-89, 89, size=(2, n)), hbe=np.linspace(0, 3.2, nb + 1))
        else:
            g = rng.normal(size=(int(rng.integers(1, 6)), int(rng.integers(1, 4))))
            yield dict(f=g, mask=(rng.random(g.shape) < 0.3).astype("uint8"), et=str(rng.choice(["m", "c"])))


def _run_both(name, case, I, mods):
    np = _np()
    so_s, so_k, so_e = mods
    c = case
    if name == "summate":
        return I.call(name, [A(c["cov_samples"]), A(c["z_1"]), A(c["z_2"]), A(c["pos"]), None]).tolist(), so_s.summate(c["cov_samples"], c["z_1"], c["z_2"], c["pos"]).ravel().tolist()
    if name == "summate_incompr":
        return I.call(name, [A(c["cov_samples"]), A(c["z_1"]), A(c["z_2"]), A(c["pos"]), None]).tolist(), so_s.summate_incompr(c["cov_samples"], c["z_1"], c["z_2"], c["pos"]).ravel().tolist()
    if name == "summate_fourier":
        return I.call(name, [A(c["spectrum_factor"]), A(c["cov_samples"]), A(c["z_1"]), A(c["z_2"]), A(c["pos"]), None]).tolist(), so_s.summate_fourier(c["spectrum_factor"], c["cov_samples"], c["z_1"], c["z_2"], c["pos"]).ravel().tolist()
    if name == "calc_field_krige":
        return I.call(name, [A(c["krig_mat"]), A(c["krig_vecs"]), A(c["cond"]), None]).tolist(), so_k.calc_field_krige(c["krig_mat"], c["krig_vecs"], c["cond"]).ravel().tolist()
    if name == "calc_field_krige_and_variance":
        f, e = I.call(name, [A(c["krig_mat"]), A(c["krig_vecs"]), A(c["cond"]), None])
        f2, e2 = so_k.calc_field_krige_and_variance(c["krig_mat"], c["krig_vecs"], c["cond"])
        return f.tolist() + e.tolist(), f2.ravel().tolist() + e2.ravel().tolist()
    if name == "unstructured":
        v, n_ = I.call(name, [A(c["f"]), A(c["bin_edges"]), A(c["pos"]), c["et"], "e", None])
        v2, n2 = so_e.unstructured(c["f"], c["bin_edges"], c["pos"], c["et"], "e")
        out1, out2 = v.tolist() + n_.tolist(), v2.ravel().tolist() + n2.ravel().tolist()
        if c["pos"].shape[0] == 2:
            v, n_ = I.call(name, [A(c["f"]), A(c["hbe"]), A(c["latlon"]), c["et"], "h", None])
            v2, n2 = so_e.unstructured(c["f"], c["hbe"], c["latlon"], c["et"], "h")
            out1 += v.tolist() + n_.tolist()
            out2 += v2.ravel().tolist() + n2.ravel().tolist()
        return out1, out2
    if name == "directional":
        v, n_ = I.call(name, [A(c["f"]), A(c["bin_edges"]), A(c["pos"]), A(c["dirs"]), c["tol"], c["bw"], c["sep"], c["et"], None])
        v2, n2 = so_e.directional(c["f"], c["bin_edges"], c["pos"], c["dirs"], c["tol"], c["bw"], c["sep"], c["et"])
        return v.tolist() + n_.tolist(), v2.ravel().tolist() + n2.ravel().tolist()
    if name == "structured":
        return I.call(name, [A(c["f"]), c["et"], None]).tolist(), so_e.structured(c["f"], c["et"]).ravel().tolist()
    if name == "ma_structured":
        return I.call(name, [A(c["f"]), A(c["mask"], "int"), c["et"], None]).tolist(), so_e.ma_structured(c["f"], c["mask"], c["et"]).ravel().tolist()
    raise KeyError(name)


KERNELS = {
    "summator": ["summate", "summate_incompr", "summate_fourier"],
    "krigesum": ["calc_field_krige", "calc_field_krige_and_variance"],
    "estimator": ["unstructured", "directional", "structured", "ma_structured"],
}


def job_artefact(key, tier, seed):
    """E2 concrete mode on the current .pyx source vs the installed compiled module"""
    np = _np()
    from gstools.field import summator as so_s
    from gstools.krige import krigesum as so_k
    from gstools.variogram import estimator as so_e

    count = 120 if tier == "quick" else 600
    out = []
    I = kernel.load(PYX[key], concrete=True)
    rng = np.random.default_rng(1000 + seed)
    total = 0
    for name in KERNELS[key]:
        bad = None
        nn = 0
        for case in _cases(name, rng, count, False):
            a, b = _run_both(name, case, I, (so_s, so_k, so_e))
            nn += 1
            if len(a) != len(b) or not np.allclose(np.asarray(a, dtype=float), np.asarray(b, dtype=float), rtol=1e-12, atol=1e-300, equal_nan=True):
                bad = (case, a, b)
                break
        total += nn
        if bad is None:
            out.append(rec(f"C15/artefact/{key}.{name}/source semantics == installed .so", "unsat", vacuity="sat", note=f"{nn} inputs, rtol 1e-12"))
        else:
            case, a, b = bad
            out.append(rec(f"C15/artefact/{key}.{name}/source semantics == installed .so", "sat", witness={}, replay={"kind": "artefact", "inputs": {"key": key, "kernel": name, "case": {k: (v.tolist() if hasattr(v, "tolist") else v) for k, v in case.items()}}}, detail=f"source={a} artefact={b}"))
    return out, {"programs": len(KERNELS[key]), "inputs": total}


def _build_openmp(key, workdir):
    np = _np()
    src_root = os.environ.get("VERIF_SRC", "/repo/src")
    csrc = os.path.join(src_root, GENC[key])
    if not os.path.exists(csrc):
        return None, "generated C not present"
    import sysconfig

    inc = sysconfig.get_paths()["include"]
    if not os.path.exists(os.path.join(inc, "Python.h")):
        inc = "/root/.pyenv/versions/3.12.1/include/python3.12"
    so = os.path.join(workdir, f"{key}.cpython-312-x86_64-linux-gnu.so")
    cc = "g++" if csrc.endswith(".cpp") else "gcc"
    cmd = [cc, "-O2", "-fopenmp", "-shared", "-fPIC", "-DNPY_NO_DEPRECATED_API=NPY_1_7_API_VERSION", "-I" + inc, "-I" + np.get_include(), csrc, "-o", so]
    p = subprocess.run(cmd, capture_output=True, text=True)
    if p.returncode != 0:
        return None, p.stderr[-400:]
    import importlib.machinery
    import importlib.util

    loader = importlib.machinery.ExtensionFileLoader(key, so)
    spec = importlib.util.spec_from_file_location(key, so, loader=loader)
    mod = importlib.util.module_from_spec(spec)
    loader.exec_module(mod)
    return mod, ""


def job_threads(key, tier, seed):
    """scratch -fopenmp build of the generated C: bit-identical results for every thread count"""
    np = _np()
    out = []
    work = tempfile.mkdtemp(prefix="c15omp_")
    try:
        mod, err = _build_openmp(key, work)
        if mod is None:
            return [rec(f"C15/threads/{key}", "unsat", vacuity="unknown", note=f"OpenMP scratch build not available ({err}); thread-independence rests on the ownership proof")]
        rng = np.random.default_rng(2000 + seed)
        big = 2000 if tier == "quick" else 5000
        reps = 3 if tier == "quick" else 8
        TH = [None, 1, 2, 3, 4, 8, 16]
        for name in KERNELS[key]:
            bad = None
            runs = 0
            for rep in range(reps):
                if key == "summator":
                    if name == "summate_incompr":
                        continue
                    dim, N, n = int(rng.integers(1, 4)), int(rng.integers(1, 40)), int(rng.integers(1, big))
                    cs, z1, z2, pos, sf = rng.normal(size=(dim, N)), rng.normal(size=N), rng.normal(size=N), rng.normal(size=(dim, n)), rng.random(N)
                    call = (lambda t: mod.summate(cs, z1, z2, pos, t)) if name == "summate" else (lambda t: mod.summate_fourier(sf, cs, z1, z2, pos, t))
                elif key == "krigesum":
                    m, k = int(rng.integers(1, 12)), int(rng.integers(1, big))
                    M, V, c = rng.normal(size=(m, m)), rng.normal(size=(m, k)), rng.normal(size=m)
                    call = (lambda t: mod.calc_field_krige(M, V, c, t)) if name == "calc_field_krige" else (lambda t: np.concatenate(mod.calc_field_krige_and_variance(M, V, c, t)))
                else:
                    if name in ("unstructured", "directional"):
                        dim, n, nb = 2, int(rng.integers(5, 60)), int(rng.integers(1, 12))
                        pos, f = rng.normal(size=(dim, n)), rng.normal(size=(2, n))
                        f[rng.random(f.shape) < 0.1] = np.nan
                        be = np.linspace(0, 3, nb + 1)
                        dirs = np.array([[1.0, 0.0], [0.0, 1.0]])
                        et = str(rng.choice(["m", "c"]))
                        call = (lambda t: np.concatenate([x.ravel().astype(float) for x in mod.unstructured(f, be, pos, et, "e", t)])) if name == "unstructured" else (lambda t: np.concatenate([x.ravel().astype(float) for x in mod.directional(f, be, pos, dirs, 0.5, -1.0, False, et, t)]))
                    else:
                        g = rng.normal(size=(int(rng.integers(2, 60)), int(rng.integers(1, 20))))
                        mk = (rng.random(g.shape) < 0.3).astype("uint8")
                        et = str(rng.choice(["m", "c"]))
                        call = (lambda t: mod.structured(g, et, t)) if name == "structured" else (lambda t: mod.ma_structured(g, mk, et, t))
                base = np.asarray(call(1))
                for t in TH:
                    r = np.asarray(call(t))
                    runs += 1
                    if r.shape != base.shape or not np.array_equal(r, base, equal_nan=True):
                        bad = (name, t)
                        break
                if bad:
                    break
            if name == "summate_incompr":
                out.append(rec(f"C15/threads/{key}.{name}", "unsat", vacuity="sat", note="serial loop in the source (no prange): nothing to compare"))
            elif bad:
                out.append(rec(f"C15/threads/{key}.{name}/bit-identical for num_threads in None,1,2,3,4,8,16", "sat", witness={}, replay={"kind": "threads", "inputs": {"key": key, "kernel": name, "num_threads": bad[1], "seed": seed}}, detail=str(bad)))
            else:
                out.append(rec(f"C15/threads/{key}.{name}/bit-identical for num_threads in None,1,2,3,4,8,16", "unsat", vacuity="sat", note=f"{runs} runs of the OpenMP scratch build, bitwise equal"))
    finally:
        shutil.rmtree(work, ignore_errors=True)
    return out, {"programs": len(KERNELS[key])}


def jobs(tier, seed):
    big = tier == "thorough"
    js = []
    for dim in (1, 2, 3):
        js.append(Job(f"summator-d{dim}", job_summator, dim, 3 if big else 2, 3 if big else 2, tier))
    js.append(Job("krigesum", job_krigesum, 3, 2, tier))
    n = 4 if big else 3
    for et in ("m", "c"):
        js.append(Job(f"unstructured-e-{et}", job_estimator_unstructured, 2, n, 2, 2, et, "e", tier))
        js.append(Job(f"structured-{et}", job_estimator_structured, 3, 2, False, et, tier))
        js.append(Job(f"ma_structured-{et}", job_estimator_structured, 3, 2, True, et, tier))
    js.append(Job("unstructured-1d", job_estimator_unstructured, 1, n, 2, 1, "m", "e", tier))
    js.append(Job("unstructured-h", job_estimator_unstructured, 2, 3, 2, 1, "m", "h", tier))
    for sep in (False, True):
        for bw in (False, True):
            js.append(Job(f"directional-sep{int(sep)}-bw{int(bw)}", job_estimator_directional, 2, 3, 2, 2, sep, bw, "m", tier))
    js.append(Job("ownership", job_ownership, tier))
    js.append(Job("num_threads", job_num_threads, tier))
    for key in PYX:
        js.append(Job(f"artefact-{key}", job_artefact, key, tier, seed))
        js.append(Job(f"threads-{key}", job_threads, key, tier, seed))
    return js


# --------------------------------------------------------------------------
# replays: counterexamples of the symbolic part are run through the source interpreter (concrete mode),
# the installed artefact and the independent numpy reference


def _val(v, k, d=0.0):
    x = v.get(k)
    return float(x) if x is not None else d


def replay_summator(inputs):
    np = _np()
    from gstools.field import summator as so

    dim, n, N, v = inputs["dim"], inputs["npts"], inputs["nmod"], inputs["values"]
    cs = np.array([[_val(v, f"k_{d}_{j}", 0.3 * (d + 1) + j) for j in range(N)] for d in range(dim)])
    z1 = np.array([_val(v, f"z1_{j}", 0.5 + j) for j in range(N)])
    z2 = np.array([_val(v, f"z2_{j}", -0.2 + j) for j in range(N)])
    pos = np.array([[_val(v, f"x_{d}_{i}", 0.1 * d + i) for i in range(n)] for d in range(dim)])
    sf = np.array([_val(v, f"sf_{j}", 0.7) for j in range(N)])
    I = kernel.load(PYX["summator"], concrete=True)
    ph = cs.T @ pos
    ref = (z1[:, None] * np.cos(ph) + z2[:, None] * np.sin(ph)).sum(axis=0)
    reff = (sf[:, None] * (z1[:, None] * np.cos(ph) + z2[:, None] * np.sin(ph))).sum(axis=0)
    bad = []
    for nm, r, args in (("summate", ref, [A(cs), A(z1), A(z2), A(pos), None]), ("summate_fourier", reff, [A(sf), A(cs), A(z1), A(z2), A(pos), None])):
        src = np.array(I.call(nm, args).tolist())
        art = so.summate(cs, z1, z2, pos) if nm == "summate" else so.summate_fourier(sf, cs, z1, z2, pos)
        if not np.allclose(src, r, rtol=1e-10, atol=1e-12):
            bad.append(nm + ":source")
        if not np.allclose(art, r, rtol=1e-10, atol=1e-12):
            bad.append(nm + ":artefact")
    if dim >= 2 and np.all((cs**2).sum(axis=0) > 0):
        k2 = (cs**2).sum(axis=0)
        proj = np.eye(dim)[:, :1] - cs * cs[0] / k2
        refi = np.einsum("dj,ji->di", proj, 1.0) if False else np.array([[sum(proj[d, j] * (z1[j] * np.cos(ph[j, i]) + z2[j] * np.sin(ph[j, i])) for j in range(N)) for i in range(n)] for d in range(dim)])
        src = np.array(I.call("summate_incompr", [A(cs), A(z1), A(z2), A(pos), None]).tolist()).reshape(dim, n)
        if not np.allclose(src, refi, rtol=1e-10, atol=1e-12):
            bad.append("incompr:source")
        if not np.allclose(so.summate_incompr(cs, z1, z2, pos), refi, rtol=1e-10, atol=1e-12):
            bad.append("incompr:artefact")
    return (not bad), f"failing={bad}"


def replay_krigesum(inputs):
    np = _np()
    from gstools.krige import krigesum as so

    m, k, v = inputs["m"], inputs["k"], inputs["values"]
    M = np.array([[_val(v, f"M_{i}_{j}", 0.3 * i - 0.2 * j + 1) for j in range(m)] for i in range(m)])
    V = np.array([[_val(v, f"V_{i}_{t}", 0.5 * i + t) for t in range(k)] for i in range(m)])
    c = np.array([_val(v, f"c_{i}", 1.0 + i) for i in range(m)])
    I = kernel.load(PYX["krigesum"], concrete=True)
    f, e = I.call("calc_field_krige_and_variance", [A(M), A(V), A(c), None])
    f2 = I.call("calc_field_krige", [A(M), A(V), A(c), None])
    rf, re_ = c @ M @ V, np.einsum("ik,ij,jk->k", V, M, V)
    af, ae = so.calc_field_krige_and_variance(M, V, c)
    bad = []
    if not (np.allclose(f.tolist(), rf) and np.allclose(e.tolist(), re_) and np.allclose(f2.tolist(), rf)):
        bad.append("source")
    if not (np.allclose(af, rf) and np.allclose(ae, re_) and np.allclose(so.calc_field_krige(M, V, c), rf)):
        bad.append("artefact")
    return (not bad), f"failing={bad}"


def _brute_unstructured(f, be, pos, et, dist):
    np = _np()
    nb = len(be) - 1
    S, C = np.zeros(nb), np.zeros(nb, dtype=int)
    n = pos.shape[1]
    for j in range(n):
        for k in range(j + 1, n):
            if dist == "e":
                d = math.sqrt(sum((pos[a, j] - pos[a, k]) ** 2 for a in range(pos.shape[0])))
            else:
                la1, lo1, la2, lo2 = map(math.radians, (pos[0, j], pos[1, j], pos[0, k], pos[1, k]))
                a = math.sin((la2 - la1) / 2) ** 2 + math.cos(la1) * math.cos(la2) * math.sin((lo2 - lo1) / 2) ** 2
                d = 2 * math.atan2(math.sqrt(a), math.sqrt(1 - a))
            for i in range(nb):
                if be[i] <= d < be[i + 1]:
                    for m in range(f.shape[0]):
                        if not (math.isnan(f[m, j]) or math.isnan(f[m, k])):
                            df = f[m, k] - f[m, j]
                            S[i] += df * df if et == "m" else math.sqrt(abs(df))
                            C[i] += 1
    Cn = np.maximum(C, 1)
    if et == "m":
        return S / (2 * Cn), C
    return 0.5 * (S / Cn) ** 4 / (0.457 + 0.494 / Cn + 0.045 / Cn**2), C


def replay_unstructured(inputs):
    np = _np()
    from gstools.variogram import estimator as so

    dim, n, nb, nf, et, dist, v = inputs["dim"], inputs["n"], inputs["nb"], inputs["nf"], inputs["et"], inputs["dist"], inputs["values"]
    pos = np.array([[_val(v, f"p_{d}_{i}", 0.7 * i + 0.3 * d) for i in range(n)] for d in range(dim)])
    f = np.array([[_val(v, f"f_{m}_{i}", 0.4 * i - m) for i in range(n)] for m in range(nf)])
    for m in range(nf):
        for i in range(n):
            if v.get(f"fnan_{m}_{i}") in (True, 1, 1.0):
                f[m, i] = np.nan
    be = np.array([_val(v, f"b_{i}", 0.5 * i + 0.1) for i in range(nb + 1)])
    ref, rc = _brute_unstructured(f, be, pos, et, dist)
    I = kernel.load(PYX["estimator"], concrete=True)
    sv, sc = I.call("unstructured", [A(f), A(be), A(pos), et, dist, None])
    av, ac = so.unstructured(f, be, pos, et, dist)
    bad = []
    if not (np.allclose(sv.tolist(), ref, rtol=1e-9, atol=1e-12) and list(sc.tolist()) == list(rc)):
        bad.append(f"source: {sv.tolist()} {sc.tolist()} vs definition {ref.tolist()} {rc.tolist()}")
    if not (np.allclose(av, ref, rtol=1e-9, atol=1e-12) and list(ac) == list(rc)):
        bad.append(f"artefact: {av.tolist()} {ac.tolist()} vs definition {ref.tolist()} {rc.tolist()}")
    return (not bad), f"pos={pos.tolist()} f={f.tolist()} edges={be.tolist()} failing={bad}"


def replay_normalise(inputs):
    np = _np()
    v = inputs["values"]
    et = inputs["et"]
    S, C = _val(v, "S0", 1.3), int(round(_val(v, "C0", 2)))
    I = kernel.load(PYX["estimator"], concrete=True)
    va, ca = Arr((1,), [S]), Arr((1,), [C], kind="int")
    I.call("normalization_matheron" if et == "m" else "normalization_cressie", [va, ca])
    Cn = max(C, 1)
    ref = S / (2 * Cn) if et == "m" else 0.5 * (S / Cn) ** 4 / (0.457 + 0.494 / Cn + 0.045 / Cn**2)
    return bool(np.isclose(va.get(0), ref, rtol=1e-12)), f"S={S} C={C} source={va.get(0)} closed form={ref}"


def _brute_directional(f, be, pos, dirs, tol, bw, sep, et):
    np = _np()
    nb, nd = len(be) - 1, dirs.shape[0]
    S, C = np.zeros((nd, nb)), np.zeros((nd, nb), dtype=int)
    n, dim = pos.shape[1], pos.shape[0]
    for j in range(n):
        for k in range(j + 1, n):
            dv = pos[:, k] - pos[:, j]
            d = math.sqrt(float(dv @ dv))
            for i in range(nb):
                if not (be[i] <= d < be[i + 1]):
                    continue
                for di in range(nd):
                    sp = float(dv @ dirs[di])
                    ok = True
                    if bw > 0:
                        ok = math.sqrt(float(((dv - sp * dirs[di]) ** 2).sum())) < bw
                    if d > 0:
                        t = abs(sp) / d
                        if t < 1:
                            ok = ok and math.acos(t) < tol
                    if not ok:
                        continue
                    for m in range(f.shape[0]):
                        if not (math.isnan(f[m, j]) or math.isnan(f[m, k])):
                            df = f[m, k] - f[m, j]
                            S[di, i] += df * df if et == "m" else math.sqrt(abs(df))
                            C[di, i] += 1
                    if sep:
                        break
    Cn = np.maximum(C, 1)
    if et == "m":
        return S / (2 * Cn), C
    return 0.5 * (S / Cn) ** 4 / (0.457 + 0.494 / Cn + 0.045 / Cn**2), C


def replay_directional(inputs):
    np = _np()
    from gstools.variogram import estimator as so

    dim, n, nb, nd, sep, bwf, et, v = inputs["dim"], inputs["n"], inputs["nb"], inputs["nd"], inputs["sep"], inputs["bw"], inputs["et"], inputs["values"]
    pos = np.array([[_val(v, f"p_{d}_{i}", 0.7 * i + 0.3 * d * i * i) for i in range(n)] for d in range(dim)])
    f = np.array([[_val(v, f"f_0_{i}", 0.4 * i * i) for i in range(n)]])
    for i in range(n):
        if v.get(f"fnan_0_{i}") in (True, 1, 1.0):
            f[0, i] = np.nan
    be = np.array([_val(v, f"b_{i}", 0.5 * i + 0.1) for i in range(nb + 1)])
    dirs = np.array([[_val(v, f"u_{d}_{e}", 1.0 if d == e else 0.0) for e in range(dim)] for d in range(nd)])
    tol = _val(v, "tol", 0.5)
    bw = _val(v, "band", 1.0) if bwf else -1.0
    if tol <= 0 or (bwf and bw <= 0):
        return True, "precondition"
    ref, rc = _brute_directional(f, be, pos, dirs, tol, bw, sep, et)
    I = kernel.load(PYX["estimator"], concrete=True)
    sv, sc = I.call("directional", [A(f), A(be), A(pos), A(dirs), tol, bw, sep, et, None])
    av, ac = so.directional(f, be, pos, dirs, tol, bw, sep, et)
    bad = []
    if not (np.allclose(np.array(sv.tolist()).reshape(ref.shape), ref, rtol=1e-9, atol=1e-12) and np.array(sc.tolist()).reshape(rc.shape).tolist() == rc.tolist()):
        bad.append("source")
    if not (np.allclose(av, ref, rtol=1e-9, atol=1e-12) and ac.tolist() == rc.tolist()):
        bad.append("artefact")
    return (not bad), f"pos={pos.tolist()} dirs={dirs.tolist()} tol={tol} bw={bw} sep={sep} failing={bad} ref={ref.tolist()} {rc.tolist()}"


def replay_structured(inputs):
    np = _np()
    from gstools.variogram import estimator as so

    nx, ny, masked, et, v = inputs["nx"], inputs["ny"], inputs["masked"], inputs["et"], inputs["values"]
    g = np.array([[_val(v, f"g_{i}_{j}", 0.3 * i * i - 0.5 * j) for j in range(ny)] for i in range(nx)])
    mk = np.array([[int(round(_val(v, f"mask_{i}_{j}", 0))) for j in range(ny)] for i in range(nx)], dtype="uint8")
    S, C = np.zeros(nx), np.zeros(nx, dtype=int)
    for k in range(1, nx):
        for i in range(nx - k):
            for j in range(ny):
                if masked and (mk[i, j] or mk[i + k, j]):
                    continue
                df = g[i, j] - g[i + k, j]
                S[k] += df * df if et == "m" else math.sqrt(abs(df))
                C[k] += 1
    Cn = np.maximum(C, 1)
    ref = S / (2 * Cn) if et == "m" else 0.5 * (S / Cn) ** 4 / (0.457 + 0.494 / Cn + 0.045 / Cn**2)
    I = kernel.load(PYX["estimator"], concrete=True)
    if masked:
        sv, av = I.call("ma_structured", [A(g), A(mk, "int"), et, None]), so.ma_structured(g, mk, et)
    else:
        sv, av = I.call("structured", [A(g), et, None]), so.structured(g, et)
    bad = []
    if not np.allclose(sv.tolist(), ref, rtol=1e-9, atol=1e-12):
        bad.append("source")
    if not np.allclose(av, ref, rtol=1e-9, atol=1e-12):
        bad.append("artefact")
    return (not bad), f"grid={g.tolist()} mask={mk.tolist()} failing={bad}"


def replay_ownership(inputs):
    # a clash of cells between two parallel iterations is a property of the source text: re-derive it
    src_root = os.environ.get("VERIF_SRC", "/repo/src")
    for key, rel in PYX.items():
        tree, py, src = kernel.parse(os.path.join(src_root, rel))
        for ob in kernel.ownership_obligations(tree):
            if ob["function"] != inputs["function"]:
                continue
            var = ob["var"]
            for arr, idx, aug in ob["writes"]:
                if var not in kernel._names(idx):
                    return False, f"{ob['function']}: write {arr}[{ast.unparse(idx)}] inside prange({var}) does not depend on the parallel index: two threads update the same cell (values {inputs.get('values')})"
    return False, f"index clash between parallel iterations in {inputs['function']}: {inputs.get('values')}"


def replay_pragma(inputs):
    return False, f"generated C of {inputs['key']}.{inputs['function']}: {inputs['problems']}"


def replay_num_threads(inputs):
    return False, f"set_num_threads source semantics differ from the documented one: {inputs}"


def replay_artefact(inputs):
    np = _np()
    from gstools.field import summator as so_s
    from gstools.krige import krigesum as so_k
    from gstools.variogram import estimator as so_e

    key, name = inputs["key"], inputs["kernel"]
    case = {k: (np.array(v) if isinstance(v, list) else v) for k, v in inputs["case"].items()}
    if "mask" in case:
        case["mask"] = case["mask"].astype("uint8")
    I = kernel.load(PYX[key], concrete=True)
    a, b = _run_both(name, case, I, (so_s, so_k, so_e))
    ok = len(a) == len(b) and np.allclose(np.asarray(a, dtype=float), np.asarray(b, dtype=float), rtol=1e-12, atol=1e-300, equal_nan=True)
    return bool(ok), f"source={a} artefact={b}"


def replay_threads(inputs):
    r = job_threads(inputs["key"], "quick", int(inputs.get("seed", 0)))
    recs = r[0] if isinstance(r, tuple) else r
    bad = [x["id"] for x in recs if x["status"] == "sat"]
    return (not bad), f"{bad}"


REPLAY = {
    "summator": replay_summator,
    "krigesum": replay_krigesum,
    "unstructured": replay_unstructured,
    "normalise": replay_normalise,
    "directional": replay_directional,
    "structured": replay_structured,
    "ownership": replay_ownership,
    "pragma": replay_pragma,
    "num_threads": replay_num_threads,
    "artefact": replay_artefact,
    "threads": replay_threads,
}

"""C19  Field transformations produce their documented target distributions."""
import math

import numpy as rnp
import z3

from .. import core, sym, theory
from ..core import Job, prove, rec
from ..sym import Sym, explore, lift, real

FILES = ["src/gstools/transform/array.py", "src/gstools/transform/field.py", "src/gstools/normalizer/methods.py"]

SPEC = {
    "level": "model_checking",
    "engine": "E1",
    "files": FILES,
    "functions": [
        "gstools.transform.array.array_to_lognormal",
        "gstools.transform.array.array_to_uniform",
        "gstools.transform.array.array_to_arcsin/_uniform_to_arcsin",
        "gstools.transform.array.array_to_uquad/_uniform_to_uquad",
        "gstools.transform.array.array_zinnharvey",
        "gstools.transform.array.array_force_moments",
        "gstools.transform.array.array_boxcox",
        "gstools.transform.array.array_discrete",
        "gstools.normalizer.methods.BoxCox._normalize",
    ],
    "bounds": {
        "quick": {"values": "1 symbolic input value, symbolic mean/var/bounds; force-moments n<=3; discrete: 2-4 classes"},
        "thorough": {"values": "as quick; force-moments n<=4"},
    },
    "stubs": ["erf/erfinv/exp/log/sin/pow uninterpreted with sound axioms", "Phi(z) := (1+erf(z/sqrt 2))/2 (definition)"],
    "oracle": "push-forward identities F_target(T(x)) = Phi((x-mean)/sigma) with the closed-form CDF / quantile of the named distribution "
    "(log-normal, uniform, arcsine, U-quadratic), default bounds defined by their moment conditions (mean and variance preserved), "
    "class membership by half-open threshold intervals",
    "outside": ["that the input is normal", "sample mean/variance standing in for mean/var when not given", "numeric values of erfinv at the 'equal' thresholds for n>2 (checked concretely to 1e-12)"],
    "assumptions": ["floats read as reals", "var > 0, low < high, a < b"],
}


def _setup():
    from .. import npx

    npx.install()
    import gstools as gs

    return gs


erf = theory.UF["erf"]
sqrt = theory.UF["sqrt"]


def Phi(z):
    return (1 + erf(z / sqrt(z3.RealVal(2)))) / 2


def _one_path(fn, oid):
    paths = explore(fn)
    ok = [p for p in paths if p.exc is None]
    if len(paths) != 1 or len(ok) != 1:
        return None, [rec(oid, "error", detail=f"expected a single path, got {len(paths)}: {[repr(p.exc) for p in paths]} {paths[0].tb if paths else ''}")]
    return ok[0], []


def job_continuous(tier):
    gs = _setup()
    from gstools.transform import array as ta

    T = core.tier_timeout(tier)
    out = []
    x, mu, var = sym.reals("x mu var")
    sig = Sym(sqrt(var.e))
    z = (x.e - mu.e) / sig.e
    X = lambda: rnp.array([x], dtype=object)
    base_pre = [var.e > 0]

    # ---- log-normal: F(y) = Phi((log y - mu)/sigma)
    def run_ln():
        return ta.array_to_lognormal(X())[0]

    p, err = _one_path(run_ln, "C19/lognormal")
    out += err
    if p:
        y = lift(p.out)
        wv = dict(x=x, mu=mu, var=var)
        rb = ("lognormal", lambda v: {"values": v})
        out.append(prove("C19/lognormal/positive", base_pre, y > 0, T, witness_vars=wv, replay=rb))
        out.append(prove("C19/lognormal/F(T(x))==Phi(z)", base_pre, (theory.UF["log"](y) - mu.e) / sig.e == z, T, witness_vars=wv, replay=rb))

    # ---- uniform on [low, high]
    low, high = sym.reals("low high")

    def run_un():
        sym.assume(var > 0)
        sym.assume(low < high)
        return ta.array_to_uniform(X(), mean=mu, var=var, low=low, high=high)[0]

    p, err = _one_path(run_un, "C19/uniform")
    out += err
    if p:
        y = lift(p.out)
        wv = dict(x=x, mu=mu, var=var, low=low, high=high)
        rb = ("uniform", lambda v: {"values": v})
        out.append(prove("C19/uniform/F(T(x))==Phi(z)", p.conds, (y - low.e) / (high.e - low.e) == Phi(z), T, witness_vars=wv, replay=rb))
        out.append(prove("C19/uniform/in[low,high]", p.conds, z3.And(y > low.e, y < high.e), T, witness_vars=wv, replay=rb))
    # monotone (two inputs)
    x2 = real("x2")

    def run_un2():
        sym.assume(var > 0)
        sym.assume(low < high)
        sym.assume(x < x2)
        r = ta.array_to_uniform(rnp.array([x, x2], dtype=object), mean=mu, var=var, low=low, high=high)
        return r[0], r[1]

    p, err = _one_path(run_un2, "C19/uniform/monotone")
    out += err
    if p:
        a_, b_ = p.out
        out.append(prove("C19/uniform/monotone", p.conds, lift(a_) < lift(b_), T, witness_vars=dict(x=x, x2=x2, mu=mu, var=var, low=low, high=high), replay=("uniform", lambda v: {"values": v})))

    # ---- arcsine on [a,b]: quantile Q(u) = a + (b-a) sin^2(pi u / 2)
    a, b = sym.reals("a b")
    U = Phi(z)
    sinf = theory.UF["sin"]

    def Qarc(u, aa, bb):
        s = sinf(theory.PI * u / 2)
        return aa + (bb - aa) * s * s

    def run_as():
        sym.assume(var > 0)
        sym.assume(a < b)
        return ta.array_to_arcsin(X(), mean=mu, var=var, a=a, b=b)[0]

    p, err = _one_path(run_as, "C19/arcsin")
    out += err
    if p:
        wv = dict(x=x, mu=mu, var=var, a=a, b=b)
        rb = ("arcsin", lambda v: {"values": v, "default": False})
        out.append(prove("C19/arcsin/T(x)==Q(Phi(z))", p.conds, lift(p.out) == Qarc(U, a.e, b.e), T, witness_vars=wv, replay=rb))

    def run_as_d():
        sym.assume(var > 0)
        return ta.array_to_arcsin(X(), mean=mu, var=var)[0]

    p, err = _one_path(run_as_d, "C19/arcsin/default")
    out += err
    if p:
        # default bounds are *defined* by: arcsine mean (a+b)/2 = mu and variance (b-a)^2/8 = var
        ad, bd = z3.Real("a_def"), z3.Real("b_def")
        mom = [ad < bd, (ad + bd) / 2 == mu.e, (bd - ad) * (bd - ad) / 8 == var.e]
        wv = dict(x=x, mu=mu, var=var)
        rb = ("arcsin", lambda v: {"values": v, "default": True})
        hw = sqrt(2 * var.e)
        out.append(prove("C19/arcsin/default/moment_conditions=>bounds", p.conds + mom, z3.And(ad == mu.e - hw, bd == mu.e + hw), T, witness_vars=wv, replay=rb))
        out.append(prove("C19/arcsin/default/T(x)==Q(Phi(z);bounds)", p.conds, lift(p.out) == Qarc(U, mu.e - hw, mu.e + hw), T, witness_vars=wv, replay=rb))

    # ---- U-quadratic on [a,b]: F(y) = alpha/3 ((y-beta)^3 + (beta-a)^3)
    def Fuq(y, aa, bb):
        al = 12 / ((bb - aa) * (bb - aa) * (bb - aa))
        be = (aa + bb) / 2
        return al / 3 * ((y - be) * (y - be) * (y - be) + (be - aa) * (be - aa) * (be - aa))

    def run_uq():
        sym.assume(var > 0)
        sym.assume(a < b)
        return ta.array_to_uquad(X(), mean=mu, var=var, a=a, b=b)[0]

    paths = explore(run_uq)
    for i, p in enumerate(paths):
        if p.exc is not None:
            out.append(rec(f"C19/uquad/path{i}", "error", detail=f"{p.exc!r} {p.tb}"))
            continue
        wv = dict(x=x, mu=mu, var=var, a=a, b=b)
        rb = ("uquad", lambda v: {"values": v, "default": False})
        out += _uquad_staged(f"C19/uquad/path{i}", p.conds, lift(p.out), a.e, b.e, U, Fuq, T, wv, rb)

    def run_uq_d():
        sym.assume(var > 0)
        return ta.array_to_uquad(X(), mean=mu, var=var)[0]

    for i, p in enumerate(explore(run_uq_d)):
        if p.exc is not None:
            out.append(rec(f"C19/uquad/default/path{i}", "error", detail=f"{p.exc!r} {p.tb}"))
            continue
        ad, bd = z3.Real("a_def"), z3.Real("b_def")
        mom = [ad < bd, (ad + bd) / 2 == mu.e, 3 * (bd - ad) * (bd - ad) / 20 == var.e]
        wv = dict(x=x, mu=mu, var=var)
        rb = ("uquad", lambda v: {"values": v, "default": True})
        hw = sqrt(z3.RealVal("5/3") * var.e)
        if i == 0:
            out.append(prove("C19/uquad/default/moment_conditions=>bounds", [var.e > 0] + mom, z3.And(ad == mu.e - hw, bd == mu.e + hw), T, witness_vars=wv, replay=rb))
        out += _uquad_staged(f"C19/uquad/default/path{i}", p.conds, lift(p.out), mu.e - hw, mu.e + hw, U, Fuq, T, wv, rb)
    return out


def _uquad_staged(tag, conds, Tx, aa, bb, U, Fuq, T, wv, rb):
    """F(T(x)) == Phi(z) in two steps: (i) (T-beta)^3 == 3U/alpha + gamma (cube-root branch of the code),
    (ii) the rational identity alpha/3*((3U/alpha+gamma) + (beta-a)^3) == U; then the composite with (i) as lemma"""
    al = 12 / ((bb - aa) * (bb - aa) * (bb - aa))
    be = (aa + bb) / 2
    ga = (aa - bb) * (aa - bb) * (aa - bb) / 8
    d = Tx - be
    L1 = d * d * d == 3 * U / al + ga
    res = [prove(tag + "/lemma: (T-beta)^3 == 3U/alpha+gamma", conds, L1, T, witness_vars=wv, replay=rb)]
    Y = z3.Real("uq_Y")
    res.append(prove(tag + "/lemma: alpha/3*(Y+(beta-a)^3)==U for Y=3U/alpha+gamma", [aa < bb, Y == 3 * U / al + ga], al / 3 * (Y + (be - aa) * (be - aa) * (be - aa)) == U, T, witness_vars=wv, replay=rb, instantiate=False))
    res.append(prove(tag + "/F(T(x))==Phi(z)", conds, Fuq(Tx, aa, bb) == U, T, witness_vars=wv, replay=rb, extra=[L1], note="uses the cube lemma"))
    return res


def job_zinnharvey(tier):
    gs = _setup()
    from gstools.transform import array as ta

    T = core.tier_timeout(tier)
    out = []
    x, mu, var = sym.reals("x mu var")
    sig = sqrt(var.e)
    for conn in ("high", "low"):

        def run(conn=conn):
            sym.assume(var > 0)
            sym.assume(x != mu)
            return ta.array_zinnharvey(rnp.array([x], dtype=object), conn=conn, mean=mu, var=var)[0]

        p, err = _one_path(run, f"C19/zinnharvey/{conn}")
        out += err
        if not p:
            continue
        y = lift(p.out)
        w = (y - mu.e) / sig  # standardised output
        az = z3.If(x.e >= mu.e, x.e - mu.e, mu.e - x.e) / sig  # |z|
        wv = dict(x=x, mu=mu, var=var)
        rb = ("zinnharvey", lambda v, conn=conn: {"values": v, "conn": conn})
        # |Z| has cdf erf(t/sqrt2); W = +-Phi^{-1}(erf(|z|/sqrt2)) keeps the normal marginal
        sgn = -1 if conn == "high" else 1
        out.append(prove(f"C19/zinnharvey/{conn}/Phi(sgn*W)==erf(|z|/sqrt2)", p.conds, Phi(sgn * w) == erf(az / sqrt(z3.RealVal(2))), T, witness_vars=wv, replay=rb))
    # connectivity reversal: high = mirror image of low about the mean
    def run2():
        sym.assume(var > 0)
        sym.assume(x != mu)
        h = ta.array_zinnharvey(rnp.array([x], dtype=object), conn="high", mean=mu, var=var)[0]
        l = ta.array_zinnharvey(rnp.array([x], dtype=object), conn="low", mean=mu, var=var)[0]
        return h, l

    p, err = _one_path(run2, "C19/zinnharvey/reversal")
    out += err
    if p:
        h, l = p.out
        out.append(prove("C19/zinnharvey/high==2mean-low", p.conds, lift(h) - mu.e == -(lift(l) - mu.e), T, witness_vars=dict(x=x, mu=mu, var=var), replay=("zinnharvey", lambda v: {"values": v, "conn": "high"})))
    return out


def job_force_moments(n, tier):
    gs = _setup()
    from gstools.transform import array as ta

    T = core.tier_timeout(tier)
    out = []
    xs = [real(f"x{i}") for i in range(n)]
    mu, var = sym.reals("mu var")
    wv = dict(mu=mu, var=var, **{f"x{i}": xs[i] for i in range(n)})
    rb = ("force_moments", lambda v: {"n": n, "values": v})

    def run():
        sym.assume(var > 0)
        for i in range(n - 1):
            sym.assume(xs[i] < xs[i + 1])  # non-constant sample (variance > 0), one ordering wlog
        return ta.array_force_moments(rnp.array(xs, dtype=object), mean=mu, var=var)

    p, err = _one_path(run, f"C19/force_moments{n}")
    out += err
    if p:
        r = [lift(v) for v in p.out]
        m = z3.Sum(r) / n
        v_ = z3.Sum([(t - m) * (t - m) for t in r]) / n
        out.append(prove(f"C19/force_moments{n}/mean", p.conds, m == mu.e, T, witness_vars=wv, replay=rb))
        out.append(prove(f"C19/force_moments{n}/variance", p.conds, v_ == var.e, T, witness_vars=wv, replay=rb))
    return out


def job_boxcox(tier):
    gs = _setup()
    from gstools.transform import array as ta
    from ..npx import NPX

    T = core.tier_timeout(tier)
    out = []
    x, lam = sym.reals("x lmbda")
    wv = dict(x=x, lmbda=lam)
    rb = ("boxcox", lambda v: {"values": v})

    def run():
        sym.assume(x > 0)
        if bool(NPX.isclose(lam, 0.0)):
            sym.assume(lam == 0)
        nz = gs.normalizer.BoxCox(lmbda=lam)
        y = nz._normalize(rnp.array([x], dtype=object))
        return ta.array_boxcox(y, lmbda=lam)[0]

    for i, p in enumerate(explore(run)):
        if p.exc is not None:
            out.append(rec(f"C19/boxcox/path{i}", "error", detail=f"{p.exc!r} {p.tb}"))
            continue
        out.append(prove(f"C19/boxcox/path{i}/array_boxcox(BoxCox.normalize(x))==x", p.conds, core.eq(p.out, x), T, witness_vars=wv, replay=rb))
    return out


def job_discrete(mode, nval, tier):
    gs = _setup()
    from gstools.transform import array as ta

    T = core.tier_timeout(tier)
    out = []
    x, mu, var = sym.reals("x mu var")
    values = [3.0, -1.0, 7.5, 2.0][:nval]
    svals = sorted(values)
    ts = [real(f"t{i}") for i in range(nval - 1)]
    wv = dict(x=x, mu=mu, var=var, **{f"t{i}": t for i, t in enumerate(ts)})
    rb = ("discrete", lambda v: {"mode": mode, "nval": nval, "values": v})

    def run():
        if mode == "arithmetic":
            return ta.array_discrete(rnp.array([x], dtype=object), values, thresholds="arithmetic")[0]
        if mode == "equal":
            sym.assume(var > 0)
            return ta.array_discrete(rnp.array([x], dtype=object), values, thresholds="equal", mean=mu, var=var)[0]
        for i in range(nval - 2):
            sym.assume(ts[i] < ts[i + 1])
        return ta.array_discrete(rnp.array([x], dtype=object), values, thresholds=list(ts))[0]

    # reference thresholds
    if mode == "arithmetic":
        thr = [z3.RealVal(str((svals[i] + svals[i + 1]) / 2)) for i in range(nval - 1)]
        vals_ref = svals
        extra = []
        note = None
    elif mode == "equal":
        thr = [z3.Real(f"thr{i}") for i in range(nval - 1)]
        extra = []
        note = []
        for i, t in enumerate(thr):
            p_i = z3.RealVal(i + 1) / nval
            if (2 * (i + 1)) == nval:
                extra.append(erf((t - mu.e) / (sqrt(var.e) * sqrt(z3.RealVal(2)))) == 2 * p_i - 1)
            else:
                # erfinv at a non-trivial point: the library evaluates it numerically; tie the reference
                # threshold to the same double c_i and check |erf(c_i) - (2p-1)| concretely
                import scipy.special as sps

                c = float(sps.erfinv(2 * (i + 1) / nval - 1))
                note.append(abs(math.erf(c) - (2 * (i + 1) / nval - 1)))
                extra.append(t == mu.e + sqrt(2 * var.e) * sym.frac(c))
        vals_ref = values
    else:
        thr = [t.e for t in ts]
        vals_ref = values
        extra = []
        note = None
    paths = explore(run)
    seen = set()
    for i, p in enumerate(paths):
        base = f"C19/discrete/{mode}{nval}/path{i}"
        if p.exc is not None:
            out.append(rec(base, "error", detail=f"{p.exc!r} {p.tb}"))
            continue
        v = p.out
        if v is None or isinstance(v, Sym) or float(v) not in vals_ref:
            out.append(prove(base + "/output_in_values", p.conds, z3.BoolVal(False), T, witness_vars=wv, replay=rb, vacuity=False))
            continue
        k = vals_ref.index(float(v))
        seen.add(k)
        cls = []
        if k > 0:
            cls.append(x.e > thr[k - 1])
        if k < nval - 1:
            cls.append(x.e <= thr[k])
        out.append(prove(base + f"/class{k}<=>thr[{k-1}]<x<=thr[{k}]", p.conds + extra, z3.And(cls), T, witness_vars=wv, replay=rb))
    if len(seen) != nval:
        out.append(rec(f"C19/discrete/{mode}{nval}/all_classes_reachable", "vacuous", detail=f"classes seen {sorted(seen)} of {nval}"))
    if mode == "equal" and note:
        ok = all(e < 1e-12 for e in note)
        out.append(rec(f"C19/discrete/equal{nval}/erf(erfinv(2p-1))==2p-1 (concrete, 1e-12)", "unsat" if ok else "error", vacuity="sat", note=f"max abs error {max(note):.2e}"))
    return out


WRAPPERS = {
    "binary": ("array_discrete", {}),
    "discrete": ("array_discrete", {"values": [0.0, 1.0, 2.0], "thresholds": [-0.5, 0.5]}),
    "zinnharvey": ("array_zinnharvey", {}),
    "normal_force_moments": ("array_force_moments", {}),
    "normal_to_uniform": ("array_to_uniform", {}),
    "normal_to_arcsin": ("array_to_arcsin", {}),
    "normal_to_uquad": ("array_to_uquad", {}),
    "normal_to_lognormal": ("array_to_lognormal", {}),
    "boxcox": ("array_boxcox", {}),
}


def job_wrapper(method, process, keep_mean, tier):
    """Field.transform wrappers: what the array function is told about the values it sees (mean, variance) is true of the
    values it is handed, and pre-/post-processing are inverse to each other (checked with the array function replaced by a
    recording identity)"""
    gs = _setup()
    import gstools.transform.field as tf

    T = core.tier_timeout(tier)
    f = [real("f0"), real("f1")]
    m, t, v, n = sym.reals("mean trend var nug")
    wv = {str(s_.e): s_ for s_ in f + [m, t, v, n]}
    rb = ("wrapper", lambda vals: {"method": method, "process": process, "keep_mean": keep_mean, "values": vals})
    tag = f"C19/wrapper/{method}/process={process}/keep_mean={keep_mean}"
    out = []
    arrname, kw = WRAPPERS[method]

    def run():
        sym.assume(v > 0)
        sym.assume(n >= 0)
        seen = []

        def spy(data, **kwargs):
            seen.append((rnp.array(data, dtype=object).copy(), dict(kwargs)))
            return data

        tf.__dict__[arrname] = spy
        model = gs.Gaussian(dim=1, var=v, len_scale=2.0, nugget=n)
        fld = gs.field.Field(model, mean=m, trend=(t if process else None))
        fld(rnp.array([[0.0, 1.0]]), field=rnp.array(f, dtype=object), post_process=False)
        r = fld.transform(method, store=False, process=process, keep_mean=keep_mean, **kw)
        return seen, rnp.array(r, dtype=object)

    n_ok = 0
    for pi, p in enumerate(explore(run, max_paths=16)):
        base = f"{tag}/path{pi}"
        if p.exc is not None:
            out.append(rec(base, "error", detail=f"{p.exc!r} {p.tb}"))
            continue
        n_ok += 1
        seen, r = p.out
        if len(seen) != 1:
            out.append(rec(base + "/array function called once", "sat", witness={}, replay={"kind": "wrapper", "inputs": rb[1]({})}, detail=str(len(seen))))
            continue
        data, kws = seen[0]
        removed = (t.e if process else 0) + (m.e if (process and not keep_mean) else 0)
        mean_seen = z3.RealVal(0) if (process and not keep_mean) else m.e
        for i in range(2):
            out.append(prove(f"{base}/values handed to the array function[{i}] == field - trend - (mean unless kept)", p.conds, lift(data[i]) == f[i].e - removed, T, witness_vars=wv, replay=rb, pairwise=False))
            out.append(prove(f"{base}/identity array function: result[{i}] == stored field (pre- and post-processing are inverse)", p.conds, lift(r[i]) == f[i].e, T, witness_vars=wv, replay=rb, pairwise=False))
        if "mean" in kws:
            out.append(prove(f"{base}/mean told to the array function == mean of the values it sees", p.conds, lift(kws["mean"]) == mean_seen, T, witness_vars=wv, replay=rb, pairwise=False))
        elif method not in ("normal_to_lognormal", "boxcox", "binary"):
            out.append(rec(base + "/mean passed", "sat", witness={}, replay={"kind": "wrapper", "inputs": rb[1]({})}))
        if "var" in kws:
            out.append(prove(f"{base}/variance told to the array function == sill", p.conds, lift(kws["var"]) == v.e + n.e, T, witness_vars=wv, replay=rb, pairwise=False))
        if method == "binary":
            sq = theory.UF["sqrt"](v.e + n.e)
            vals, thr = kws.get("values"), kws.get("thresholds")
            out.append(prove(f"{base}/binary: values == mean -+ sqrt(sill), threshold == mean", p.conds, z3.And(lift(vals[0]) == mean_seen - sq, lift(vals[1]) == mean_seen + sq, lift(thr[0]) == mean_seen), T, witness_vars=wv, replay=rb, pairwise=False))
    if not n_ok:
        out.append(rec(tag + "/reach", "vacuous"))
    return out


def jobs(tier, seed):
    js = [Job("continuous", job_continuous, tier), Job("zinnharvey", job_zinnharvey, tier), Job("boxcox", job_boxcox, tier)]
    for n in (2, 3) + ((4,) if tier == "thorough" else ()):
        js.append(Job(f"force_moments{n}", job_force_moments, n, tier))
    for mode in ("arithmetic", "equal", "custom"):
        for nval in (2, 3, 4):
            js.append(Job(f"discrete-{mode}{nval}", job_discrete, mode, nval, tier))
    for method in WRAPPERS:
        for process in (False, True):
            for keep_mean in (True, False):
                js.append(Job(f"wrapper-{method}-{int(process)}{int(keep_mean)}", job_wrapper, method, process, keep_mean, tier))
    return js


# --------------------------------------------------------------------------
# replays (concrete, scipy reference distributions)


def replay_wrapper(inputs):
    import numpy as np
    import gstools as gs
    import gstools.transform.field as tf

    method, process, keep_mean, v = inputs["method"], bool(inputs["process"]), bool(inputs["keep_mean"]), inputs.get("values") or {}
    g = lambda k, d: float(v[k]) if v.get(k) is not None else d
    f = np.array([g("f0", 0.4), g("f1", -1.3)])
    mean, trend, var, nug = g("mean", 1.7) or 1.7, g("trend", 0.6), abs(g("var", 1.3)) or 1.3, abs(g("nug", 0.2))
    arrname, kw = WRAPPERS[method]
    seen = []
    orig = getattr(tf, arrname)

    def spy(data, **kwargs):
        seen.append((np.array(data, dtype=float).copy(), dict(kwargs)))
        return data

    setattr(tf, arrname, spy)
    try:
        model = gs.Gaussian(dim=1, var=var, len_scale=2.0, nugget=nug)
        fld = gs.field.Field(model, mean=mean, trend=(trend if process else None))
        fld(np.array([[0.0, 1.0]]), field=f.copy(), post_process=False)
        r = fld.transform(method, store=False, process=process, keep_mean=keep_mean, **kw)
    finally:
        setattr(tf, arrname, orig)
    bad = []
    data, kws = seen[0]
    removed = (trend if process else 0.0) + (mean if (process and not keep_mean) else 0.0)
    mean_seen = 0.0 if (process and not keep_mean) else mean
    if not np.allclose(data, f - removed):
        bad.append(f"values handed over {data.tolist()} != {(f - removed).tolist()}")
    if not np.allclose(r, f):
        bad.append(f"identity transform returned {np.asarray(r).tolist()} for field {f.tolist()}")
    if "mean" in kws and not np.isclose(kws["mean"], mean_seen):
        bad.append(f"mean told to the array function {kws['mean']} but the values it sees have mean {mean_seen}")
    if "var" in kws and not np.isclose(kws["var"], var + nug):
        bad.append(f"var {kws['var']} != sill {var + nug}")
    if method == "binary":
        sq = np.sqrt(var + nug)
        if not (np.isclose(kws["values"][0], mean_seen - sq) and np.isclose(kws["values"][1], mean_seen + sq) and np.isclose(kws["thresholds"][0], mean_seen)):
            bad.append(f"binary values/threshold {kws['values']} {kws['thresholds']} for mean {mean_seen}")
    return (not bad), f"{method} process={process} keep_mean={keep_mean} mean={mean}: {bad}"


def _g(v, k, d):
    return float(v[k]) if v.get(k) is not None else d


def _mv(v):
    mu, var = _g(v, "mu", 0.3), _g(v, "var", 1.7)
    return mu, (var if var > 0 else 1.7)


def _phi(z):
    return 0.5 * (1 + math.erf(z / math.sqrt(2)))


def replay_lognormal(inputs):
    import numpy as np
    from gstools.transform import array as ta

    v = inputs["values"]
    mu, var = _mv(v)
    x = _g(v, "x", 0.4)
    y = ta.array_to_lognormal(np.array([x]))[0]
    ok = y > 0 and np.isclose((math.log(y) - mu) / math.sqrt(var), (x - mu) / math.sqrt(var), rtol=1e-9, atol=1e-12)
    return bool(ok), f"x={x} y={y}"


def replay_uniform(inputs):
    import numpy as np
    from gstools.transform import array as ta

    v = inputs["values"]
    mu, var = _mv(v)
    x = _g(v, "x", 0.4)
    lo, hi = _g(v, "low", -1.0), _g(v, "high", 2.5)
    if not lo < hi:
        return True, "precondition"
    y = ta.array_to_uniform(np.array([x]), mean=mu, var=var, low=lo, high=hi)[0]
    ok = np.isclose((y - lo) / (hi - lo), _phi((x - mu) / math.sqrt(var)), rtol=1e-9, atol=1e-12)
    if v.get("x2") is not None and x < float(v["x2"]):
        y2 = ta.array_to_uniform(np.array([float(v["x2"])]), mean=mu, var=var, low=lo, high=hi)[0]
        ok = ok and y <= y2
    return bool(ok), f"x={x} mu={mu} var={var} low={lo} high={hi} y={y}"


def replay_arcsin(inputs):
    import numpy as np
    from gstools.transform import array as ta
    from scipy import stats

    v = inputs["values"]
    mu, var = _mv(v)
    x = _g(v, "x", 0.4)
    if inputs.get("default"):
        y = ta.array_to_arcsin(np.array([x]), mean=mu, var=var)[0]
        a, b = mu - math.sqrt(2 * var), mu + math.sqrt(2 * var)
        d = stats.arcsine(loc=a, scale=b - a)
        if not (np.isclose(d.mean(), mu) and np.isclose(d.var(), var)):
            return False, "oracle moments"
    else:
        a, b = _g(v, "a", -1.0), _g(v, "b", 2.0)
        if not a < b:
            return True, "precondition"
        y = ta.array_to_arcsin(np.array([x]), mean=mu, var=var, a=a, b=b)[0]
        d = stats.arcsine(loc=a, scale=b - a)
    ok = np.isclose(d.cdf(y), _phi((x - mu) / math.sqrt(var)), rtol=1e-7, atol=1e-9)
    return bool(ok), f"x={x} mu={mu} var={var} a={a} b={b} y={y} F(y)={d.cdf(y)} Phi={_phi((x - mu) / math.sqrt(var))}"


def replay_uquad(inputs):
    import numpy as np
    from gstools.transform import array as ta

    v = inputs["values"]
    mu, var = _mv(v)
    x = _g(v, "x", 0.4)
    if inputs.get("default"):
        y = ta.array_to_uquad(np.array([x]), mean=mu, var=var)[0]
        a, b = mu - math.sqrt(5 / 3 * var), mu + math.sqrt(5 / 3 * var)
        if not (np.isclose((a + b) / 2, mu) and np.isclose(3 * (b - a) ** 2 / 20, var)):
            return False, "oracle moments"
    else:
        a, b = _g(v, "a", -1.0), _g(v, "b", 2.0)
        if not a < b:
            return True, "precondition"
        y = ta.array_to_uquad(np.array([x]), mean=mu, var=var, a=a, b=b)[0]
    al, be = 12 / (b - a) ** 3, (a + b) / 2
    F = al / 3 * ((y - be) ** 3 + (be - a) ** 3)
    ok = np.isclose(F, _phi((x - mu) / math.sqrt(var)), rtol=1e-7, atol=1e-9)
    return bool(ok), f"x={x} mu={mu} var={var} a={a} b={b} y={y} F={F}"


def replay_zinnharvey(inputs):
    import numpy as np
    from gstools.transform import array as ta

    v = inputs["values"]
    mu, var = _mv(v)
    x = _g(v, "x", 0.9)
    if x == mu:
        return True, "precondition"
    conn = inputs["conn"]
    y = ta.array_zinnharvey(np.array([x]), conn=conn, mean=mu, var=var)[0]
    w = (y - mu) / math.sqrt(var)
    sgn = -1 if conn == "high" else 1
    u = math.erf(abs(x - mu) / math.sqrt(var) / math.sqrt(2))
    if u > 1 - 1e-12 or u < 1e-12:
        return True, "witness in the saturated tail (rounding)"
    ok = np.isclose(_phi(sgn * w), u, rtol=1e-7, atol=1e-9)
    other = ta.array_zinnharvey(np.array([x]), conn=("low" if conn == "high" else "high"), mean=mu, var=var)[0]
    ok = ok and np.isclose(y - mu, -(other - mu), rtol=1e-9, atol=1e-12)
    return bool(ok), f"x={x} mu={mu} var={var} conn={conn} y={y} Phi(sW)={_phi(sgn*w)} erf={u}"


def replay_force_moments(inputs):
    import numpy as np
    from gstools.transform import array as ta

    v = inputs["values"]
    n = int(inputs["n"])
    mu, var = _mv(v)
    xs = np.array([_g(v, f"x{i}", 0.3 * i * i - 0.2) for i in range(n)])
    if np.var(xs) <= 0:
        return True, "precondition"
    r = ta.array_force_moments(xs, mean=mu, var=var)
    ok = np.isclose(np.mean(r), mu, rtol=1e-9, atol=1e-10) and np.isclose(np.var(r), var, rtol=1e-9)
    return bool(ok), f"xs={xs} mean={np.mean(r)} var={np.var(r)} want {mu} {var}"


def replay_boxcox(inputs):
    import warnings

    import numpy as np

    warnings.simplefilter("ignore")
    import gstools as gs
    from gstools.transform import array as ta

    v = inputs["values"]
    x, lam = _g(v, "x", 1.7), _g(v, "lmbda", 0.6)
    if x <= 0:
        return True, "precondition"
    y = gs.normalizer.BoxCox(lmbda=lam)._normalize(np.array([x]))
    r = ta.array_boxcox(y, lmbda=lam)[0]
    return bool(np.isclose(r, x, rtol=1e-7, atol=1e-10)), f"x={x} lmbda={lam} back={r}"


def replay_discrete(inputs):
    import numpy as np
    from gstools.transform import array as ta
    from scipy import stats

    v = inputs["values"]
    mode, nval = inputs["mode"], int(inputs["nval"])
    values = [3.0, -1.0, 7.5, 2.0][:nval]
    mu, var = _mv(v)
    x = _g(v, "x", 0.4)
    if mode == "arithmetic":
        sv = sorted(values)
        thr = [(sv[i] + sv[i + 1]) / 2 for i in range(nval - 1)]
        ref_vals = sv
        r = ta.array_discrete(np.array([x]), values, thresholds="arithmetic")[0]
    elif mode == "equal":
        thr = [stats.norm(mu, math.sqrt(var)).ppf((i + 1) / nval) for i in range(nval - 1)]
        ref_vals = values
        r = ta.array_discrete(np.array([x]), values, thresholds="equal", mean=mu, var=var)[0]
    else:
        thr = [_g(v, f"t{i}", float(i)) for i in range(nval - 1)]
        if any(thr[i] >= thr[i + 1] for i in range(nval - 2)):
            return True, "precondition"
        ref_vals = values
        r = ta.array_discrete(np.array([x]), values, thresholds=thr)[0]
    k = sum(1 for t in thr if x > t)
    if any(abs(x - t) < 1e-9 * max(1, abs(t)) for t in thr) and mode == "equal":
        return True, "witness within rounding of a numerically evaluated threshold"
    return bool(r == ref_vals[k]), f"mode={mode} x={x} thresholds={thr} result={r} expected={ref_vals[k]}"


REPLAY = {
    "wrapper": replay_wrapper,
    "lognormal": replay_lognormal,
    "uniform": replay_uniform,
    "arcsin": replay_arcsin,
    "uquad": replay_uquad,
    "zinnharvey": replay_zinnharvey,
    "force_moments": replay_force_moments,
    "boxcox": replay_boxcox,
    "discrete": replay_discrete,
}

"""C02  Shipped models are positive semi-definite where they claim validity (partial: guards, bounds, |rho| <= 1,
sign of the analytic spectra, 3-point matrices of the piecewise-linear / quadratic models)."""
import itertools

import numpy as rnp
import z3

from .. import core, sym, theory
from ..core import Job, prove, rec
from ..sym import Sym, explore, lift, real
from . import c03

FILES = ["src/gstools/covmodel/models.py", "src/gstools/covmodel/tpl_models.py", "src/gstools/covmodel/base.py", "src/gstools/covmodel/tools.py", "src/gstools/tools/special.py", "src/gstools/tools/geometric.py"]

SPEC = {
    "level": "model_checking",
    "engine": "E1",
    "files": FILES,
    "functions": [
        "cor / correlation of Gaussian, Exponential, Stable, Rational, Cubic, Linear, Circular, Spherical, TPLSimple",
        "spectral_density of Gaussian, Exponential, Matern, Integral, HyperSpherical, JBessel",
        "check_dim of all 17 classes; default_opt_arg / default_opt_arg_bounds; CovModel.__init__ -> set_opt_args, check_arg_bounds, check_arg_in_bounds",
    ],
    "bounds": {"quick": {"dim": "1-3 (guards and bounds also 4, space+time with spatial dim 1-3, lat-lon, lat-lon+time)", "values": "lag, wave number, length scale, rescale and shape parameters symbolic", "points": "3 collinear points for the matrix obligations (Linear; TPLSimple with nu = 2, 3)"}, "thorough": {"adds": "cvc5 cross-check of the polynomial obligations (Cubic, Spherical) and 3-point matrices of Spherical / Cubic attempted (reported as not claimed while undecided)"}},
    "stubs": ["special functions uninterpreted with the sign / range facts of the theory pack (Gamma > 0 on x > 0, 0 <= P(s,x) <= 1, exp > 0, ...)"],
    "oracle": "rho(0) = 1, |rho| <= 1; S(k) >= 0; validity table of the literature: Linear d < 2, Circular d < 3, Spherical d < 4; JBessel nu >= d/2 - 1, SuperSpherical nu >= (d-1)/2, TPLSimple nu >= (d+1)/2; a 3x3 correlation matrix is positive semi-definite iff all principal minors are >= 0",
    "outside": [
        "the headline clause: non-negativity of the radial Fourier transform for the models whose spectrum is computed numerically (Stable, Rational, Cubic, Linear, Circular, Spherical, SuperSpherical, TPLStable, TPLSimple) and hence positive semi-definiteness on arbitrary finite point sets -- a statement about an integral transform for all wave numbers that no SMT theory expresses",
        "|rho| <= 1 for the Bessel / exponential-integral based models (Matern, Integral, JBessel, HyperSpherical, SuperSpherical, TPL*) and the sign of the TPL spectra",
        "the JBessel boundary nu = d/2 - 1 (documented as degenerate)",
    ],
    "assumptions": ["floats read as reals"],
}

JOB_TIMEOUT = {"quick": 400, "thorough": 2000}

RHO_MODELS = ["Gaussian", "Exponential", "Stable", "Rational", "Cubic", "Linear", "Circular", "Spherical", "TPLSimple"]
SPEC_MODELS = ["Gaussian", "Exponential", "Matern", "Integral", "HyperSpherical", "JBessel"]
VALID_DIM = {"Linear": 1, "Circular": 2, "Spherical": 3}  # largest valid dimension (others: every dimension)
THRESH = {"JBessel": lambda d: d / 2 - 1, "SuperSpherical": lambda d: (d - 1) / 2, "TPLSimple": lambda d: (d + 1) / 2}


def _setup():
    gs, EI = c03._setup()
    return gs


def _maxdim(name):
    return VALID_DIM.get(name, 3)


def job_rho(name, d, tier):
    """rho(0) == 1 and -1 <= rho(h) <= 1 on the real correlation code"""
    gs = _setup()
    from ..npx import NPX

    T = core.tier_timeout(tier)
    out = []
    l, s, r = sym.reals("len resc r")
    opt = {k: real(k) for k in c03.MODELS[name]}
    wv = dict(len=l, resc=s, r=r, **opt)
    rb = ("rho", lambda v: {"model": name, "dim": d, "values": v})
    tag = f"C02/rho/{name}/d{d}"

    def run():
        for x in (l, s):
            sym.assume(x > 0)
        sym.assume(r >= 0)
        for k, b in c03.MODELS[name].items():
            c03._assume_bounds(opt[k], b, d)
        if bool(NPX.isclose(r, 0.0)) or bool(NPX.isclose(r * s / l, 0.0)) or bool(NPX.isclose(r / (l / s), 0.0)):
            sym.assume(r == 0)
        m = getattr(gs, name)(dim=d, len_scale=l, rescale=s, **opt)
        return m.correlation(rnp.array([r], dtype=object))[0], m.correlation(rnp.array([0.0]))[0]

    n_ok = 0
    for pi, p in enumerate(explore(run, max_paths=200)):
        base = f"{tag}/path{pi}"
        if p.exc is not None:
            out.append(rec(base, "error", detail=f"{p.exc!r} {p.tb}"))
            continue
        n_ok += 1
        c, c0 = p.out
        extra = []
        if name == "Circular":
            # 0 <= arccos(h) - h sqrt(1 - h^2) <= pi/2 on [0, 1]: with t = arccos h this is t - sin t cos t, t in [0, pi/2];
            # stated through sin t <= t (t >= 0) and sin, cos in [0, 1] there
            h_ = lift(r * s / l)
            h2_ = lift(r / (l / s))
            for hh in (h_, h2_):
                t_ = theory.UF["arccos"](hh)
                extra += [z3.Implies(z3.And(hh >= 0, hh <= 1), z3.And(theory.UF["sin"](t_) <= t_, theory.UF["sin"](t_) * theory.UF["sin"](t_) == 1 - hh * hh, theory.UF["sin"](t_) == theory.UF["sqrt"](1 - hh * hh)))]
            extra += list(theory.PI_FACTS)
        out.append(prove(base + "/rho(h) <= 1", p.conds, lift(c) <= 1, T, witness_vars=wv, replay=rb, extra=extra, pairwise=False))
        out.append(prove(base + "/rho(h) >= -1", p.conds, lift(c) >= -1, T, witness_vars=wv, replay=rb, extra=extra, pairwise=False))
        out.append(prove(base + "/rho(0) == 1", p.conds, lift(c0) == 1, T, witness_vars=wv, replay=rb, extra=extra, pairwise=False))
    if not n_ok:
        out.append(rec(tag + "/reach", "vacuous"))
    return out


def job_spec(name, d, tier):
    """analytic spectral density >= 0 for every wave number and parameter"""
    from . import c04

    gs, SNUM = c04._setup()
    from ..npx import NPX

    T = core.tier_timeout(tier)
    out = []
    l, s, k = sym.reals("len resc k")
    opt = {kk: real(kk) for kk in c03.MODELS[name]}
    wv = dict(len=l, resc=s, k=k, **opt)
    rb = ("spec", lambda v: {"model": name, "dim": d, "values": v})
    tag = f"C02/spectrum_sign/{name}/d{d}"

    def run():
        for x in (l, s):
            sym.assume(x > 0)
        sym.assume(k >= 0)
        for kk, b in c03.MODELS[name].items():
            c03._assume_bounds(opt[kk], b, d)
        if name == "JBessel":
            sym.assume(opt["nu"] > d / 2 - 1)  # the boundary itself is documented as degenerate
        if bool(NPX.isclose(k, 0.0)):
            sym.assume(k == 0)
        m = getattr(gs, name)(dim=d, len_scale=l, rescale=s, **opt)
        return m.spectral_density(rnp.array([k], dtype=object))[0]

    n_ok = 0
    for pi, p in enumerate(explore(run, max_paths=100)):
        base = f"{tag}/path{pi}"
        if p.exc is not None:
            out.append(rec(base, "error", detail=f"{p.exc!r} {p.tb}"))
            continue
        n_ok += 1
        sd = p.out
        if not isinstance(sd, Sym):
            out.append(rec(base + "/S(k) >= 0", "unsat" if float(sd) >= 0 else "sat", vacuity="sat", witness={}, replay={"kind": "spec", "inputs": rb[1]({})}))
            continue
        out.append(prove(base + "/S(k) >= 0", p.conds, lift(sd) >= 0, T, witness_vars=wv, replay=rb, pairwise=False))
    if not n_ok:
        out.append(rec(tag + "/reach", "vacuous"))
    return out


def job_guards(name, tier):
    """check_dim is the validity table; construction accepts a shape parameter iff it lies in the validity range of the dimension"""
    gs = _setup()
    import warnings

    T = core.tier_timeout(tier)
    out = []
    tag = f"C02/guards/{name}"
    rb = ("guards", lambda v: {"model": name, "values": v})
    # (label, constructor keywords, dimension of the space the covariance lives in): plain d = 1..4; space + time (the metric
    # space-time model lives in spatial_dim + 1 dimensions); lat-lon (Yadrenko: the chordal distance lives in 3 dimensions)
    configs = [(f"d{d}", {"dim": d}, d) for d in (1, 2, 3, 4)]
    configs += [(f"s{sd}+t", {"spatial_dim": sd, "temporal": True}, sd + 1) for sd in (1, 2, 3)]
    configs += [("latlon", {"latlon": True}, 3), ("latlon+t", {"latlon": True, "temporal": True}, 4)]
    for label, ckw, d in configs:
        cls = getattr(gs, name)
        fixed = {"hurst": 0.5} if name in c03.TPL else {}
        with warnings.catch_warnings(record=True) as w:
            warnings.simplefilter("always")
            m0 = cls(**ckw, **fixed)
            warned = any("dim" in str(x.message).lower() and "not" in str(x.message).lower() for x in w)
        want_valid = d <= VALID_DIM.get(name, 99)
        ok = (m0.dim == d) and (bool(m0.check_dim(d)) == want_valid) and (warned == (not want_valid))
        out.append(rec(f"{tag}/{label}/model dimension, check_dim and the invalid-dimension warning == validity table", "unsat" if ok else "sat", vacuity="sat", witness={}, replay={"kind": "guards", "inputs": rb[1]({})}, detail=f"dim={m0.dim} check_dim={m0.check_dim(d)} warned={warned} table={want_valid}"))
        if not want_valid:
            continue
        # the default shape parameter is itself admissible and the bounds equal the validity thresholds
        for kname, b in c03.MODELS[name].items():
            lo, hi, typ = c03._lo(b, d), b[1], b[2]
            if name in THRESH and kname == "nu":
                lo = THRESH[name](d)
            x = real(kname)
            wv = {kname: x}

            def run():
                try:
                    mm = cls(**ckw, **{kname: x}, **fixed)
                except ValueError as e:
                    return ("rejected", str(e)[:60])
                return ("accepted", getattr(mm, kname))

            for pi, p in enumerate(explore(run, max_paths=40)):
                base = f"{tag}/{label}/{kname}/path{pi}"
                if p.exc is not None:
                    out.append(rec(base, "error", detail=f"{p.exc!r} {p.tb}"))
                    continue
                inb = []
                if lo is not None:
                    inb.append(x.e >= lo if typ[0] == "c" else x.e > lo)
                if hi is not None:
                    inb.append(x.e <= hi if typ[1] == "c" else x.e < hi)
                inb = z3.And(inb) if inb else z3.BoolVal(True)
                if p.out[0] == "accepted":
                    out.append(prove(base + f"/accepted => {kname} inside the validity range of d={d}", p.conds, inb, T, witness_vars=wv, replay=rb))
                    out.append(prove(base + f"/accepted value stored unchanged", p.conds, lift(p.out[1]) == x.e, T, witness_vars=wv, replay=rb))
                else:
                    out.append(prove(base + f"/rejected => {kname} outside the validity range of d={d}", p.conds, z3.Not(inb), T, witness_vars=wv, replay=rb))
            dflt = getattr(m0, kname)
            okd = (lo is None or (dflt >= lo if typ[0] == "c" else dflt > lo)) and (hi is None or (dflt <= hi if typ[1] == "c" else dflt < hi))
            out.append(rec(f"{tag}/{label}/{kname}/default value admissible", "unsat" if okd else "sat", vacuity="sat", witness={}, replay={"kind": "guards", "inputs": rb[1]({})}, detail=f"default {dflt} range [{lo},{hi}] {typ}"))
    return out


def job_matrix(name, nu, tier):
    """3 collinear points in 1-D: the correlation matrix built with the real correlation code has non-negative principal minors"""
    gs = _setup()
    T = core.tier_timeout(tier)
    out = []
    x1, x2, x3, l = sym.reals("x1 x2 x3 len")
    wv = dict(x1=x1, x2=x2, x3=x3, len=l)
    rb = ("matrix", lambda v: {"model": name, "nu": nu, "values": v})
    tag = f"C02/matrix3/{name}" + (f"/nu={nu}" if nu is not None else "")
    kw = {"nu": float(nu)} if nu is not None else {}

    def run():
        sym.assume(l > 0)
        sym.assume(x1 < x2)
        sym.assume(x2 < x3)
        m = getattr(gs, name)(dim=1, len_scale=l, **kw)
        c = m.correlation(rnp.array([x2 - x1, x3 - x2, x3 - x1], dtype=object))
        return c[0], c[1], c[2]

    n_ok = 0
    for pi, p in enumerate(explore(run, max_paths=64)):
        base = f"{tag}/path{pi}"
        if p.exc is not None:
            out.append(rec(base, "error", detail=f"{p.exc!r} {p.tb}"))
            continue
        n_ok += 1
        a, b, c = (lift(x) for x in p.out)  # rho12, rho23, rho13
        for nm, g in (("1-rho12^2", 1 - a * a), ("1-rho23^2", 1 - b * b), ("1-rho13^2", 1 - c * c), ("det", 1 + 2 * a * b * c - a * a - b * b - c * c)):
            out.append(prove(base + f"/principal minor {nm} >= 0", p.conds, g >= 0, T, witness_vars=wv, replay=rb, pairwise=False))
    if not n_ok:
        out.append(rec(tag + "/reach", "vacuous"))
    return out


def jobs(tier, seed):
    js = []
    for name in RHO_MODELS:
        for d in range(1, _maxdim(name) + 1):
            if tier == "quick" and d == 2 and name not in ("Circular", "TPLSimple"):
                continue  # (the correlation code does not depend on the dimension except through the shape bounds)
            js.append(Job(f"rho-{name}-d{d}", job_rho, name, d, tier))
    for name in SPEC_MODELS:
        for d in (1, 2, 3):
            js.append(Job(f"spec-{name}-d{d}", job_spec, name, d, tier))
    for name in c03.MODELS:
        js.append(Job(f"guards-{name}", job_guards, name, tier))
    js.append(Job("matrix-Linear", job_matrix, "Linear", None, tier))
    js.append(Job("matrix-TPLSimple-2", job_matrix, "TPLSimple", 2, tier))
    if tier == "thorough":
        js.append(Job("matrix-TPLSimple-3", job_matrix, "TPLSimple", 3, tier))
    return js


# --------------------------------------------------------------------------


def _val(v, k, d):
    x = v.get(k)
    return float(x) if x is not None else d


def _mk(inputs, **extra):
    import warnings

    warnings.simplefilter("ignore")
    import gstools as gs

    name, d, v = inputs["model"], int(inputs.get("dim", 1)), inputs.get("values") or {}
    opt = {}
    for kk, b in c03.MODELS[name].items():
        lo = c03._lo(b, d)
        dflt = (lo if lo is not None else 0.0) + 0.7 if b[1] is None else ((lo + b[1]) / 2)
        opt[kk] = _val(v, kk, dflt)
    return gs, getattr(gs, name)(dim=d, len_scale=abs(_val(v, "len", 1.3)) or 1.3, rescale=abs(_val(v, "resc", 1.1)) or 1.1, **opt, **extra), v


def replay_rho(inputs):
    import numpy as np

    try:
        gs, m, v = _mk(inputs)
    except ValueError as e:
        return True, f"precondition {e}"
    rs = np.array([abs(_val(v, "r", 0.7))] + list(np.linspace(0, 4 * m.len_scale, 81)))
    c = m.correlation(rs)
    bad = []
    if np.any(c > 1 + 1e-12) or np.any(c < -1 - 1e-12):
        bad.append(f"|rho| > 1: {c[np.abs(c) > 1 + 1e-12][:3].tolist()}")
    if abs(m.correlation(np.array([0.0]))[0] - 1) > 1e-12:
        bad.append(f"rho(0) = {m.correlation(np.array([0.0]))[0]}")
    return (not bad), f"{m} {bad}"


def replay_spec(inputs):
    import numpy as np

    try:
        gs, m, v = _mk(inputs)
    except ValueError as e:
        return True, f"precondition {e}"
    ks = np.array([abs(_val(v, "k", 0.9))] + list(np.linspace(0, 6 / m.len_scale, 61)))
    sd = np.asarray(m.spectral_density(ks), dtype=float)
    bad = [f"S({k}) = {x}" for k, x in zip(ks, sd) if x < -1e-14 * max(1.0, abs(sd).max())]
    return (not bad), f"{m} {bad[:3]}"


def replay_guards(inputs):
    import warnings

    import gstools as gs

    name, v = inputs["model"], inputs.get("values") or {}
    cls = getattr(gs, name)
    fixed = {"hurst": 0.5} if name in c03.TPL else {}
    bad = []
    configs = [(f"d{d}", {"dim": d}, d) for d in (1, 2, 3, 4)]
    configs += [(f"s{sd}+t", {"spatial_dim": sd, "temporal": True}, sd + 1) for sd in (1, 2, 3)]
    configs += [("latlon", {"latlon": True}, 3), ("latlon+t", {"latlon": True, "temporal": True}, 4)]
    for label, ckw, d in configs:
        with warnings.catch_warnings(record=True) as w:
            warnings.simplefilter("always")
            m0 = cls(**ckw, **fixed)
            warned = any("dim" in str(x.message).lower() and "not" in str(x.message).lower() for x in w)
        want = d <= VALID_DIM.get(name, 99)
        if m0.dim != d or bool(m0.check_dim(d)) != want or warned != (not want):
            bad.append(f"{label}: dim={m0.dim} check_dim={m0.check_dim(d)} warned={warned}, table says valid={want}")
        if not want:
            continue
        for kname, b in c03.MODELS[name].items():
            lo, hi, typ = c03._lo(b, d), b[1], b[2]
            if name in THRESH and kname == "nu":
                lo = THRESH[name](d)
            cands = [v[kname]] if v.get(kname) is not None else []
            cands += [x for x in ((lo - 0.25) if lo is not None else None, lo, (lo + 0.25) if lo is not None else None, hi, (hi + 0.5) if hi is not None else None) if x is not None]
            for x in cands:
                x = float(x)
                inb = (lo is None or (x >= lo if typ[0] == "c" else x > lo)) and (hi is None or (x <= hi if typ[1] == "c" else x < hi))
                with warnings.catch_warnings():
                    warnings.simplefilter("ignore")
                    try:
                        cls(**ckw, **{kname: x}, **fixed)
                        acc = True
                    except ValueError:
                        acc = False
                if acc != inb:
                    bad.append(f"{label} (covariance lives in {d} dimensions) {kname}={x}: accepted={acc} but validity range [{lo},{hi}] {typ}")
    return (not bad), f"{name} {bad[:4]}"


def replay_matrix(inputs):
    import numpy as np
    import gstools as gs

    name, nu, v = inputs["model"], inputs.get("nu"), inputs.get("values") or {}
    kw = {"nu": float(nu)} if nu is not None else {}
    m = getattr(gs, name)(dim=1, len_scale=abs(_val(v, "len", 1.0)) or 1.0, **kw)
    xs = sorted([_val(v, "x1", 0.0), _val(v, "x2", 0.4), _val(v, "x3", 0.9)])
    D = np.abs(np.subtract.outer(xs, xs))
    ev = np.linalg.eigvalsh(m.correlation(D))
    return bool(ev.min() >= -1e-12), f"{name} points={xs} eigenvalues={ev.tolist()}"


REPLAY = {"rho": replay_rho, "spec": replay_spec, "guards": replay_guards, "matrix": replay_matrix}

"""C16  Vector fields from isotropic models are incompressible."""
import numpy as rnp
import z3

from .. import core, passes, rngstub, sym, theory
from ..core import Job, prove, rec
from ..sym import Sym, explore, lift, real
from . import c11

FILES = ["src/gstools/field/generator.py", "src/gstools/field/summator.pyx", "src/gstools/field/srf.py"]

SPEC = {
    "level": "model_checking",
    "engine": "E1 (IncomprRandMeth, SRF) + E2 (summate_incompr) + symbolic differentiation pass",
    "files": FILES,
    "functions": ["IncomprRandMeth.__call__/_create_unit_vector", "SRF.__call__ (vector field)", "summate_incompr, abs_square (E2)"],
    "bounds": {"quick": {"dim": "2 and 3", "modes": "2", "point": "one symbolic evaluation point"}, "thorough": {"modes": "4; SRF with mean velocity through the Field pipeline"}},
    "stubs": ["random draws symbolic (any amplitudes, any wave vectors with |k| != 0)"],
    "oracle": "div u = sum_d d u_d / d x_d = 0 identically; mean = mean_u e1; the mode projector I - k k^T/|k|^2 is symmetric and idempotent",
    "outside": ["the variance proportions of the components (an average over directions on the sphere: an integral)"],
    "assumptions": ["floats read as reals", "trusted: differentiation rules of the symbolic derivative pass"],
}

JOB_TIMEOUT = {"quick": 400, "thorough": 3000}


def job_divergence(dim, nmodes, via_srf, tier):
    gs = c11.setup()
    import gstools.field.generator as G

    T = core.tier_timeout(tier)
    out = []
    X = [real(f"x{a}") for a in range(dim)]
    v, l, mu = real("var"), real("len"), real("mean_u")
    wv = {str(s.e): s for s in X + [v, l, mu]}
    rb = ("divergence", lambda vals: {"dim": dim, "values": vals})
    tag = f"C16/d{dim}/{'SRF' if via_srf else 'generator'}"

    def run():
        rngstub.reset()
        for s in (v, l):
            sym.assume(s > 0)
        model = gs.Gaussian(dim=dim, var=v, len_scale=l)
        if via_srf:
            srf = gs.SRF(model, generator="VectorField", mean_velocity=mu, mode_no=nmodes, seed=4)
            u = srf([[x] for x in X], seed=6)
            gen = srf.generator
        else:
            gen = G.IncomprRandMeth(model, mean_velocity=mu, mode_no=nmodes, seed=4)
            u = gen(rnp.array([[x] for x in X], dtype=object))
        return gen, u

    for pi, p in enumerate(explore(run, max_paths=16)):
        base = f"{tag}/path{pi}"
        if p.exc is not None:
            out.append(rec(base, "error", detail=f"{p.exc!r} {p.tb}"))
            continue
        gen, u = p.out
        K = gen._cov_sample
        C = p.conds + list(rngstub.FACTS)
        nz = [z3.Sum([lift(K[d, j]) * lift(K[d, j]) for d in range(dim)]) != 0 for j in range(K.shape[1])]
        u = rnp.asarray(u, dtype=object).reshape(dim, -1)
        # generalise: the sampled wave vectors are replaced by arbitrary reals kappa_dj (the claim is for all wave vectors)
        subs = []
        kap = {}
        for d in range(dim):
            for j in range(K.shape[1]):
                kap[(d, j)] = z3.Real(f"kappa_{d}_{j}")
                subs.append((lift(K[d, j]), kap[(d, j)]))
        ug = [z3.substitute(lift(u[d, 0]), *subs) for d in range(dim)]
        leftover = [t for d in range(dim) for t in _syms(ug[d]) if str(t).startswith(("U[", "S[", "Rmcmc", "Rdist"))]
        if leftover:
            out.append(rec(base + "/generalisation over wave vectors", "error", detail=f"wave-vector terms not abstracted: {leftover[:3]}"))
            continue
        nz = [z3.Sum([kap[(d, j)] * kap[(d, j)] for d in range(dim)]) != 0 for j in range(K.shape[1])]
        C = [c for c in C if not any(str(t).startswith(("U[", "S[", "Rmcmc", "Rdist")) for t in _syms(c))]
        u = rnp.array([[Sym(ug[d])] for d in range(dim)], dtype=object)
        div = z3.RealVal(0)
        ok = True
        for d in range(dim):
            try:
                div = div + passes.diff(lift(u[d, 0]), X[d].e)
            except NotImplementedError as e:
                out.append(rec(base + "/derivative", "error", detail=str(e)))
                ok = False
        if ok:
            # sin/cos applications are opaque here (no trig fact is needed: the identity is sum_d k_d (P e1)_d = 0)
            # the field is affine in the amplitudes (C01: u = mean_u e1 + linear form), hence so is its divergence:
            # it vanishes identically iff it vanishes for all amplitudes 0 and for each single amplitude = 1
            amps = list({str(t): t for t in _syms(div) if str(t).startswith("N[")}.values())
            zero_all = [(t, z3.RealVal(0)) for t in amps]
            out.append(prove(base + "/divergence == 0 for zero amplitudes", C + nz, z3.substitute(div, *zero_all) == 0 if amps else div == 0, T, witness_vars=wv, replay=rb, instantiate=False))
            for a_ in amps:
                one = [(t, z3.RealVal(1 if t.get_id() == a_.get_id() else 0)) for t in amps]
                # polynomial normal form first (inverse atoms cancel against their non-zero side conditions): the residual goal is
                # what the solver decides
                term = z3.simplify(z3.substitute(div, *one))
                try:
                    goal, _n = passes.reduced_eq_goal(term, z3.RealVal(0))
                except Exception:
                    goal = term == 0
                out.append(prove(base + f"/divergence == 0 for unit amplitude {a_} (all points, all wave vectors)", C + nz, goal, T, witness_vars=wv, replay=rb, instantiate=False))
        # mean: the amplitude-free part of the field is mean_u e1  (set all Z to 0)
        zs = [t for t in _syms(lift(u[0, 0])) + sum([_syms(lift(u[d, 0])) for d in range(1, dim)], []) if str(t).startswith("N[")]
        sub = [(t, z3.RealVal(0)) for t in {str(t): t for t in zs}.values()]
        for d in range(dim):
            m0 = z3.simplify(z3.substitute(lift(u[d, 0]), *sub)) if sub else lift(u[d, 0])
            out.append(prove(base + f"/mean component {d} == {'mean_u' if d == 0 else '0'} (field is affine in the amplitudes)", C + nz, m0 == (mu.e if d == 0 else 0), T, witness_vars=wv, replay=rb, pairwise=False, deep_gen=0))
    return out


def _syms(t):
    seen, out, stack = set(), [], [t]
    while stack:
        x = stack.pop()
        if x.get_id() in seen:
            continue
        seen.add(x.get_id())
        if z3.is_const(x) and x.decl().kind() == z3.Z3_OP_UNINTERPRETED:
            out.append(x)
        stack.extend(x.children())
    return out


def job_projector(dim, tier):
    """the projector the kernel applies to e1 is the first column of P = I - k k^T/|k|^2; P is symmetric and idempotent"""
    from .. import kernel
    from .c15 import PYX

    T = core.tier_timeout(tier)
    out = []
    k = [z3.Real(f"k{d}") for d in range(dim)]
    k2 = z3.Sum([x * x for x in k])
    P = [[(1 if i == j else 0) - k[i] * k[j] / k2 for j in range(dim)] for i in range(dim)]
    pre = [k2 != 0]
    wv = {str(x): x for x in k}
    rb = ("projector", lambda v: {"dim": dim, "values": v})
    for i in range(dim):
        for j in range(dim):
            out.append(prove(f"C16/projector/d{dim}/P^2==P[{i},{j}]", pre, z3.Sum([P[i][l] * P[l][j] for l in range(dim)]) == P[i][j], T, witness_vars=wv, replay=rb, instantiate=False))
        out.append(prove(f"C16/projector/d{dim}/k.P e_{i}==0 (solenoidal)", pre, z3.Sum([k[l] * P[l][i] for l in range(dim)]) == 0, T, witness_vars=wv, replay=rb, instantiate=False))
    # kernel: with z1 = 1, z2 = 0, x = 0 the summed mode is P e1
    I = kernel.load(PYX["summator"])
    cs = kernel.Arr((dim, 1), list(k))
    res = I.call("summate_incompr", [cs, kernel.Arr((1,), [z3.RealVal(1)]), kernel.Arr((1,), [z3.RealVal(0)]), kernel.Arr((dim, 1), [z3.RealVal(0)] * dim), None])
    for d in range(dim):
        got = kernel.treal(res.get((d, 0)))
        # cos(0) = 1, sin(0) = 0 via the axioms
        out.append(prove(f"C16/projector/d{dim}/kernel mode vector[{d}] == (P e1)[{d}]", pre, got == P[d][0], T, witness_vars=wv, replay=rb))
    return out


def jobs(tier, seed):
    nm = 4 if tier == "thorough" else 2
    js = []
    for dim in (2, 3):
        js.append(Job(f"div-d{dim}", job_divergence, dim, nm, False, tier))
        js.append(Job(f"div-srf-d{dim}", job_divergence, dim, 2, True, tier))
        js.append(Job(f"projector-d{dim}", job_projector, dim, tier))
    return js


def _val(v, k, d):
    x = v.get(k)
    return float(x) if x is not None else d


def replay_divergence(inputs):
    import numpy as np
    import gstools as gs

    dim, v = int(inputs["dim"]), inputs.get("values") or {}
    x = np.array([_val(v, f"x{a}", 0.4 + 0.7 * a) for a in range(dim)])
    var, l, mu = abs(_val(v, "var", 1.6)) or 1.6, abs(_val(v, "len", 1.2)) or 1.2, _val(v, "mean_u", 1.4)
    srf = gs.SRF(gs.Gaussian(dim=dim, var=var, len_scale=l), generator="VectorField", mean_velocity=mu, mode_no=40, seed=4)
    h = 1e-5
    div = 0.0
    for d in range(dim):
        e = np.zeros(dim)
        e[d] = h
        up = srf((x + e)[:, None], seed=6)
        um = srf((x - e)[:, None], seed=6)
        div += (up[d, 0] - um[d, 0]) / (2 * h)
    scale = abs(mu) * np.sqrt(var) / l + 1e-12
    bad = []
    if abs(div) > 1e-5 * scale:
        bad.append(f"divergence {div}")
    # mean over many seeds ~ mean_u e1 (loose, statistical) -- and exactly: zero amplitudes give mean_u e1
    g = srf.generator
    z1, z2 = g._z_1.copy(), g._z_2.copy()
    g._z_1[:] = 0
    g._z_2[:] = 0
    u0 = g(x[:, None])
    g._z_1[:], g._z_2[:] = z1, z2
    want = np.zeros(dim)
    want[0] = mu
    if not np.allclose(u0[:, 0], want, atol=1e-12):
        bad.append(f"mean part {u0[:, 0]}")
    return (not bad), f"dim={dim} failing={bad}"


def replay_projector(inputs):
    import numpy as np
    from gstools.field import summator as so

    dim, v = int(inputs["dim"]), inputs.get("values") or {}
    k = np.array([_val(v, f"k{d}", 0.5 + 0.4 * d) for d in range(dim)])
    if not np.any(k):
        return True, "precondition"
    P = np.eye(dim) - np.outer(k, k) / (k @ k)
    r = so.summate_incompr(k[:, None], np.array([1.0]), np.array([0.0]), np.zeros((dim, 1)))
    # the .pyx source interpreted concretely (the compiled artefact cannot be rebuilt from an edited source here)
    from .. import kernel
    from .c15 import PYX, A

    I = kernel.load(PYX["summator"], concrete=True)
    rs = np.array(I.call("summate_incompr", [A(k[:, None]), A([1.0]), A([0.0]), A(np.zeros((dim, 1))), None]).tolist()).reshape(dim, 1)
    ok_art = np.allclose(r[:, 0], P[:, 0], rtol=1e-12, atol=1e-14)
    ok_src = np.allclose(rs[:, 0], P[:, 0], rtol=1e-12, atol=1e-14)
    ok = np.allclose(P @ P, P) and ok_art and ok_src
    return bool(ok), f"k={k.tolist()} compiled kernel={r[:, 0].tolist()} source semantics={rs[:, 0].tolist()} P e1={P[:, 0].tolist()} (artefact ok={ok_art}, source ok={ok_src})"


REPLAY = {"divergence": replay_divergence, "projector": replay_projector}

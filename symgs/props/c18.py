"""C18  Normalizers are invertible monotone maps; the mean/norm/trend pipeline is exact."""
import math

import numpy as rnp
import z3

from .. import core, passes, sym, theory
from ..core import Job, Query, prove, rec
from ..sym import Sym, explore, lift, real

FILES = ["src/gstools/normalizer/base.py", "src/gstools/normalizer/methods.py", "src/gstools/normalizer/tools.py", "src/gstools/field/base.py", "src/gstools/tools/misc.py"]

SPEC = {
    "level": "model_checking",
    "engine": "E1 + symbolic differentiation pass",
    "files": FILES,
    "functions": [
        "gstools.normalizer.base.Normalizer.normalize/denormalize/derivative/_check_input",
        "gstools.normalizer.base.Normalizer.kernel_loglikelihood/loglikelihood/_derivative",
        "gstools.normalizer.methods.{LogNormal,BoxCox,BoxCoxShift,YeoJohnson,Modulus,Manly}._normalize/_denormalize/_derivative/denormalize_range/normalize_range",
        "gstools.normalizer.tools.apply_mean_norm_trend",
        "gstools.normalizer.tools.remove_trend_norm_mean",
        "gstools.tools.misc.eval_func",
        "gstools.field.base.Field.post_field",
    ],
    "bounds": {
        "quick": {"values": "1 symbolic datum per round-trip/derivative obligation, 2 for monotonicity, 2 for likelihood; all real parameter values on every branch (lmbda ~ 0, ~ 2, sign of lmbda, sign of x)", "pipeline": "1-D, 2 points, constant and callable (uninterpreted) mean/trend"},
        "thorough": {"values": "as quick + 3 data for likelihood", "pipeline": "1-D and 2-D, 2 points, scalar and stacked fields"},
    },
    "stubs": ["exp/log/pow uninterpreted with sound axioms (pow(x,a)=exp(a log x) on x>0)", "scipy.optimize.minimize(_scalar) not executed (fit is outside)", "warnings ignored"],
    "oracle": "identity (round trip), order (monotone), symbolic derivative of the code's own _normalize term, maximum-likelihood definition of the profile log-likelihood",
    "outside": ["that fit() finds the maximiser", "rounding", "kink point x=0 of YeoJohnson/Modulus for the symbolic derivative (value there checked by both one-sided branches)"],
    "assumptions": ["floats read as reals"],
}

NORMS = {
    "Normalizer": [],
    "LogNormal": [],
    "BoxCox": ["lmbda"],
    "BoxCoxShift": ["lmbda", "shift"],
    "YeoJohnson": ["lmbda"],
    "Modulus": ["lmbda"],
    "Manly": ["lmbda"],
}


def _setup():
    from .. import npx

    npx.install()
    import gstools as gs

    return gs


def _mk(gs, name, par):
    """build the normalizer; inside the library's np.isclose band around the special
    parameter values (0 and 2) the parameter is taken to *be* that value: the library
    deliberately switches to the limit formula there (a within-tolerance approximation)"""
    from ..npx import NPX

    if "lmbda" in par:
        for c in (0.0, 2.0) if name == "YeoJohnson" else (0.0,):
            if bool(NPX.isclose(par["lmbda"], c)):
                sym.assume(par["lmbda"] == c)
    cls = getattr(gs.normalizer, name)
    return cls(**par)


def _pars(name):
    return {k: real(k) for k in NORMS[name]}


def _in_range(nz, x):
    lo, hi = nz.normalize_range
    c = []
    if not (isinstance(lo, float) and lo == -math.inf):
        c.append(x > lo)
    if not (isinstance(hi, float) and hi == math.inf):
        c.append(x < hi)
    return c


def _isnan(v):
    return isinstance(v, float) and v != v


def _feasible(oid, conds, T, wv, rb, detail):
    """a path that ends in a wrong concrete outcome is a violation iff it is feasible"""
    r = prove(oid, conds, z3.BoolVal(False), T, witness_vars=wv, replay=rb, vacuity=False)
    if r["status"] == "unsat":
        r["note"] = "path infeasible"
        r["vacuity"] = "sat"
    else:
        r["detail"] = detail
    return r


def job_roundtrip(name, tier):
    gs = _setup()
    T = core.tier_timeout(tier)
    par = _pars(name)
    x = real("x")
    wv = dict(par, x=x)
    rb = ("roundtrip", lambda v: {"normalizer": name, "values": v})
    out = []

    def run():
        nz = _mk(gs, name, par)
        for c in _in_range(nz, x):
            sym.assume(c)
        y = nz.normalize(rnp.array([x], dtype=object))
        z = nz.denormalize(y)
        d = nz.derivative(rnp.array([x], dtype=object))
        return y[0], z[0], d[0]

    paths = explore(run)
    n_ok = 0
    for i, p in enumerate(paths):
        base = f"C18/{name}/roundtrip/path{i}"
        if p.exc is not None:
            out.append(rec(base, "error", detail=f"{p.exc!r} {p.tb}"))
            continue
        y, z, d = p.out
        if _isnan(y) or _isnan(z) or _isnan(d):
            out.append(_feasible(base + "/in_range_value_not_nan", p.conds, T, wv, rb, f"normalize={y} denormalize={z} derivative={d}"))
            continue
        n_ok += 1
        out.append(prove(base + "/denormalize(normalize(x))==x", p.conds, core.eq(z, x), T, witness_vars=wv, replay=rb))
    if not n_ok:
        out.append(rec(f"C18/{name}/roundtrip/reach", "vacuous"))

    # reverse direction: normalize(denormalize(y)) == y for y inside the denormalize range
    yv = real("y")
    wv2 = dict(par, y=yv)
    rb2 = ("roundtrip_rev", lambda v: {"normalizer": name, "values": v})

    def run2():
        nz = _mk(gs, name, par)
        lo, hi = nz.denormalize_range
        if not (isinstance(lo, float) and lo == -math.inf):
            sym.assume(yv > lo)
        if not (isinstance(hi, float) and hi == math.inf):
            sym.assume(yv < hi)
        xx = nz.denormalize(rnp.array([yv], dtype=object))
        yy = nz.normalize(xx)
        return xx[0], yy[0]

    # (YeoJohnson and Modulus declare no denormalize range although their image is bounded
    #  for some lmbda: the reverse direction is not part of the property and is skipped there)
    for i, p in enumerate(explore(run2) if name not in ("YeoJohnson", "Modulus") else []):
        base = f"C18/{name}/roundtrip_rev/path{i}"
        if p.exc is not None:
            out.append(rec(base, "error", detail=f"{p.exc!r} {p.tb}"))
            continue
        xx, yy = p.out
        if _isnan(xx) or _isnan(yy):
            out.append(_feasible(base + "/value_not_nan", p.conds, T, wv2, rb2, f"denormalize={xx} normalize={yy}"))
            continue
        out.append(prove(base + "/normalize(denormalize(y))==y", p.conds, core.eq(yy, yv), T, witness_vars=wv2, replay=rb2))
    return out, {"normalizer": name, "paths": len(paths)}


def job_nan(name, tier):
    """NaN and out-of-range inputs give NaN (both directions)."""
    gs = _setup()
    T = core.tier_timeout(tier)
    par = _pars(name)
    x = real("x")
    wv = dict(par, x=x, xin=real("xin"))
    rb = ("nan", lambda v: {"normalizer": name, "values": v})
    out = []

    def run():
        nz = _mk(gs, name, par)
        lo, hi = nz.normalize_range
        outside = []
        if not (isinstance(lo, float) and lo == -math.inf):
            outside.append(x <= lo)
        xin = real("xin")
        for c in _in_range(nz, xin):
            sym.assume(c)
        r_nan = nz.normalize(rnp.array([math.nan, xin], dtype=object))
        r_dnan = nz.denormalize(rnp.array([math.nan, 0.0], dtype=object))
        r_out = None
        if outside:
            sym.assume(outside[0])
            r_out = nz.normalize(rnp.array([x], dtype=object))
        # denormalize outside its range
        dlo, dhi = nz.denormalize_range
        yv = real("y")
        r_dout = None
        c = None
        if not (isinstance(dlo, float) and dlo == -math.inf):
            c = yv <= dlo
        elif not (isinstance(dhi, float) and dhi == math.inf):
            c = yv >= dhi
        if c is not None:
            sym.assume(c)
            r_dout = nz.denormalize(rnp.array([yv], dtype=object))
        return r_nan, r_dnan, r_out, r_dout

    for i, p in enumerate(explore(run)):
        base = f"C18/{name}/nan/path{i}"
        if p.exc is not None:
            out.append(rec(base, "error", detail=f"{p.exc!r} {p.tb}"))
            continue
        r_nan, r_dnan, r_out, r_dout = p.out
        bad = []
        if not _isnan(r_nan[0]) or _isnan(r_nan[1]):
            bad.append(f"normalize([nan,in-range])={r_nan}")
        if not _isnan(r_dnan[0]) or _isnan(r_dnan[1]):
            bad.append(f"denormalize([nan,0])={r_dnan}")
        if r_out is not None and not _isnan(r_out[0]):
            bad.append(f"normalize(out of range)={r_out}")
        if r_dout is not None and not _isnan(r_dout[0]):
            bad.append(f"denormalize(out of range)={r_dout}")
        if bad:
            out.append(_feasible(base + "/nan_semantics", p.conds, T, dict(wv, y=real("y")), rb, "; ".join(bad)))
        else:
            out.append(rec(base + "/nan_semantics", "unsat", vacuity="sat", note="concrete outcome on this path is NaN as documented"))
    return out


def job_monotone(name, tier):
    gs = _setup()
    T = core.tier_timeout(tier)
    par = _pars(name)
    x, y = real("x"), real("y")
    wv = dict(par, x=x, y=y)
    rb = ("monotone", lambda v: {"normalizer": name, "values": v})
    out = []

    def run():
        nz = _mk(gs, name, par)
        for c in _in_range(nz, x) + _in_range(nz, y):
            sym.assume(c)
        sym.assume(x < y)
        r = nz.normalize(rnp.array([x, y], dtype=object))
        return r[0], r[1]

    for i, p in enumerate(explore(run)):
        base = f"C18/{name}/monotone/path{i}"
        if p.exc is not None:
            out.append(rec(base, "error", detail=f"{p.exc!r} {p.tb}"))
            continue
        a, b = p.out
        if _isnan(a) or _isnan(b):
            out.append(_feasible(base + "/not_nan", p.conds, T, wv, rb, f"{a} {b}"))
            continue
        out.append(prove(base + "/x<y=>n(x)<n(y)", p.conds, lift(a) < lift(b), T, witness_vars=wv, replay=rb))
    return out


def job_derivative(name, tier):
    gs = _setup()
    T = core.tier_timeout(tier)
    par = _pars(name)
    x = real("x")
    wv = dict(par, x=x)
    rb = ("derivative", lambda v: {"normalizer": name, "values": v})
    out = []

    def run():
        nz = _mk(gs, name, par)
        for c in _in_range(nz, x):
            sym.assume(c)
        if name in ("YeoJohnson", "Modulus"):
            sym.assume(x != 0)
        n = nz.normalize(rnp.array([x], dtype=object))
        d = nz.derivative(rnp.array([x], dtype=object))
        return n[0], d[0]

    for i, p in enumerate(explore(run)):
        base = f"C18/{name}/derivative/path{i}"
        if p.exc is not None:
            out.append(rec(base, "error", detail=f"{p.exc!r} {p.tb}"))
            continue
        n, d = p.out
        if _isnan(n) or _isnan(d):
            out.append(_feasible(base + "/not_nan", p.conds, T, wv, rb, f"{n} {d}"))
            continue
        try:
            dn = passes.diff(lift(n), x.e)
        except NotImplementedError as e:
            out.append(rec(base + "/reported==d/dx normalize", "error", detail=f"diff: {e}"))
            continue
        out.append(prove(base + "/reported==d/dx normalize", p.conds, lift(d) == dn, T, witness_vars=wv, replay=rb))
        out.append(prove(base + "/derivative>0", p.conds, lift(d) > 0, T, witness_vars=wv, replay=rb))
    return out


def job_likelihood(name, n, tier):
    gs = _setup()
    T = core.tier_timeout(tier)
    par = _pars(name)
    xs = [real(f"x{i}") for i in range(n)]
    wv = dict(par, **{f"x{i}": xs[i] for i in range(n)})
    rb = ("likelihood", lambda v: {"normalizer": name, "n": n, "values": v})
    out = []

    def run():
        nz = _mk(gs, name, par)
        for x in xs:
            for c in _in_range(nz, x):
                sym.assume(c)
        # distinct data (variance > 0) in a fixed order: one representative ordering
        for i in range(n - 1):
            sym.assume(xs[i] < xs[i + 1])
        data = rnp.array(xs, dtype=object)
        nv = nz.normalize(data.copy())
        dv = nz.derivative(data.copy())
        for d in dv:
            if not _isnan(d):
                sym.assume(d >= 1e-16)  # the implementation clips the derivative there (numerical guard)
        k = nz.kernel_loglikelihood(data.copy())
        l = nz.loglikelihood(data.copy())
        return nv, dv, k, l

    for i, p in enumerate(explore(run, max_paths=300)):
        base = f"C18/{name}/likelihood{n}/path{i}"
        if p.exc is not None:
            out.append(rec(base, "error", detail=f"{p.exc!r} {p.tb}"))
            continue
        nv, dv, k, l = p.out
        if any(_isnan(v) for v in list(nv) + list(dv)) or _isnan(k) or _isnan(l):
            out.append(_feasible(base + "/not_nan", p.conds, T, wv, rb, "nan"))
            continue
        mean = z3.Sum([lift(v) for v in nv]) / n
        var = z3.Sum([(lift(v) - mean) * (lift(v) - mean) for v in nv]) / n
        log = theory.UF["log"]
        ref_k = -z3.RealVal(n) / 2 * log(var) + z3.Sum([log(lift(d)) for d in dv])
        ref_l = ref_k - z3.RealVal(n) / 2 * (log(2 * theory.PI) + 1)
        out.append(prove(base + "/kernel==-n/2 log var + sum log n'", p.conds, lift(k) == ref_k, T, witness_vars=wv, replay=rb))
        out.append(prove(base + "/loglik==kernel - n/2(log 2pi + 1)", p.conds, lift(l) == ref_l, T, witness_vars=wv, replay=rb))
    return out


def job_pipeline(name, variant, tier):
    """apply_mean_norm_trend = trend + denormalize(mean + raw); remove_trend_norm_mean inverts it."""
    gs = _setup()
    from gstools.normalizer.tools import apply_mean_norm_trend, remove_trend_norm_mean

    T = core.tier_timeout(tier)
    par = _pars(name)
    dim, stacked, callables = variant
    npts = 2
    pos = [[real(f"p{k}_{i}") for i in range(npts)] for k in range(dim)]
    nf = 2 if stacked else 1
    raw = [[real(f"r{f}_{i}") for i in range(npts)] for f in range(nf)]
    wv = dict(par)
    for k in range(dim):
        for i in range(npts):
            wv[f"p{k}_{i}"] = pos[k][i]
    for f in range(nf):
        for i in range(npts):
            wv[f"r{f}_{i}"] = raw[f][i]
    mean_c, trend_c = real("mean"), real("trend")
    wv.update(mean=mean_c, trend=trend_c)
    rb = ("pipeline", lambda v: {"normalizer": name, "dim": dim, "stacked": stacked, "callables": callables, "values": v})
    MU = z3.Function("mean_fn", *([z3.RealSort()] * (dim + 1)))
    TR = z3.Function("trend_fn", *([z3.RealSort()] * (dim + 1)))

    def ufun(F):
        def f(*p):
            arrs = [rnp.asarray(a, dtype=object).reshape(-1) for a in p]
            o = rnp.empty(arrs[0].shape, dtype=object)
            for i in range(o.size):
                o[i] = Sym(F(*[lift(a[i]) for a in arrs]))
            return o

        return f

    mean = ufun(MU) if callables else mean_c
    trend = ufun(TR) if callables else trend_c
    out = []

    def mval(i):
        return Sym(MU(*[pos[k][i].e for k in range(dim)])) if callables else mean_c

    def tval(i):
        return Sym(TR(*[pos[k][i].e for k in range(dim)])) if callables else trend_c

    data = [[real(f"d{f}_{i}") for i in range(npts)] for f in range(nf)]
    for f in range(nf):
        for i in range(npts):
            wv[f"d{f}_{i}"] = data[f][i]

    def run():
        nz = _mk(gs, name, par)
        P = rnp.array(pos, dtype=object)
        F = rnp.array(raw if stacked else raw[0], dtype=object)
        # (1) documented formula for an arbitrary raw field
        res = apply_mean_norm_trend(P.copy(), F.copy(), mean=mean, normalizer=nz, trend=trend, stacked=stacked)
        ref = rnp.empty((nf, npts), dtype=object)
        for f in range(nf):
            for i in range(npts):
                ref[f, i] = nz.denormalize(rnp.array([raw[f][i] + mval(i)], dtype=object))[0]
                if not _isnan(ref[f, i]):
                    ref[f, i] = ref[f, i] + tval(i)
        # (2) removing trend, normalisation and mean is inverted by applying them:
        #     data with (data - trend) inside the valid input range
        for f in range(nf):
            for i in range(npts):
                for c in _in_range(nz, data[f][i] - tval(i)):
                    sym.assume(c)
        D = rnp.array(data if stacked else data[0], dtype=object)
        back_raw = remove_trend_norm_mean(P.copy(), D.copy(), mean=mean, normalizer=nz, trend=trend, stacked=stacked)
        again = apply_mean_norm_trend(P.copy(), rnp.array(back_raw, dtype=object).copy(), mean=mean, normalizer=nz, trend=trend, stacked=stacked)
        return rnp.array(res, dtype=object).reshape(nf, npts), ref, rnp.array(again, dtype=object).reshape(nf, npts)

    for pi, p in enumerate(explore(run, max_paths=6000)):
        base = f"C18/{name}/pipeline[d{dim},{'stacked' if stacked else 'single'},{'callable' if callables else 'const'}]/path{pi}"
        if p.exc is not None:
            out.append(rec(base, "error", detail=f"{p.exc!r} {p.tb}"))
            continue
        res, ref, again = p.out
        for f in range(nf):
            for i in range(npts):
                if _isnan(res[f, i]) != _isnan(ref[f, i]):
                    out.append(_feasible(base + f"/apply_nan_agrees[{f},{i}]", p.conds, T, wv, rb, f"{res[f,i]} {ref[f,i]}"))
                elif not _isnan(res[f, i]):
                    out.append(prove(base + f"/apply==trend+denorm(mean+raw)[{f},{i}]", p.conds, core.eq(res[f, i], ref[f, i]), T, witness_vars=wv, replay=rb))
                if _isnan(again[f, i]):
                    out.append(_feasible(base + f"/apply(remove(data))_not_nan[{f},{i}]", p.conds, T, wv, rb, f"{again[f,i]}"))
                else:
                    out.append(prove(base + f"/apply(remove(data))==data[{f},{i}]", p.conds, core.eq(again[f, i], data[f][i]), T, witness_vars=wv, replay=rb))
    return out


def jobs(tier, seed):
    js = []
    for name in NORMS:
        js.append(Job(f"roundtrip-{name}", job_roundtrip, name, tier))
        js.append(Job(f"nan-{name}", job_nan, name, tier))
        js.append(Job(f"monotone-{name}", job_monotone, name, tier))
        js.append(Job(f"derivative-{name}", job_derivative, name, tier))
        js.append(Job(f"likelihood2-{name}", job_likelihood, name, 2, tier))
        if tier == "thorough":
            js.append(Job(f"likelihood3-{name}", job_likelihood, name, 3, tier))
        variants = [(1, False, False), (1, False, True)]
        if tier == "thorough":
            variants += [(1, True, False), (2, False, True), (2, True, True)]
        for v in variants:
            js.append(Job(f"pipeline-{name}-{v}", job_pipeline, name, v, tier))
    return js


# --------------------------------------------------------------------------
# replays


def _nz(inputs):
    import gstools as gs

    name = inputs["normalizer"]
    v = inputs.get("values") or {}
    par = {k: float(v[k]) if v.get(k) is not None else {"lmbda": 0.7, "shift": 0.5}[k] for k in NORMS[name]}
    return getattr(gs.normalizer, name)(**par), v, par


def _g(v, k, d):
    return float(v[k]) if v.get(k) is not None else d


def replay_roundtrip(inputs):
    import warnings

    import numpy as np

    warnings.simplefilter("ignore")
    nz, v, par = _nz(inputs)
    x = _g(v, "x", 1.3)
    lo, hi = nz.normalize_range
    if not (lo < x < hi):
        return True, "x outside normalize range (precondition)"
    y = nz.normalize(np.array([x]))
    z = nz.denormalize(y)
    ok = np.isfinite(z[0]) and np.isclose(z[0], x, rtol=1e-8, atol=1e-10)
    return bool(ok), f"{type(nz).__name__}{par} x={x} normalize={y[0]} denormalize={z[0]} denormalize_range={nz.denormalize_range}"


def replay_roundtrip_rev(inputs):
    import warnings

    import numpy as np

    warnings.simplefilter("ignore")
    nz, v, par = _nz(inputs)
    y = _g(v, "y", 0.3)
    lo, hi = nz.denormalize_range
    if not (lo < y < hi):
        return True, "y outside denormalize range (precondition)"
    x = nz.denormalize(np.array([y]))
    yy = nz.normalize(x)
    ok = np.isfinite(yy[0]) and np.isclose(yy[0], y, rtol=1e-8, atol=1e-10)
    return bool(ok), f"{type(nz).__name__}{par} y={y} denormalize={x[0]} normalize={yy[0]}"


def replay_nan(inputs):
    import warnings

    import numpy as np

    warnings.simplefilter("ignore")
    nz, v, par = _nz(inputs)
    bad = []
    lo0, hi0 = nz.normalize_range
    xin = _g(v, "xin", (lo0 if lo0 > -np.inf else 0.0) + 1.0)
    if not (lo0 < xin < hi0):
        xin = (lo0 if lo0 > -np.inf else 0.0) + 1.0
    r = nz.normalize(np.array([np.nan, xin]))
    if not np.isnan(r[0]) or np.isnan(r[1]):
        bad.append(f"normalize([nan,{xin}])={r}")
    r = nz.denormalize(np.array([np.nan, 0.0]))
    if not np.isnan(r[0]) or np.isnan(r[1]):
        bad.append(f"denormalize([nan,0])={r}")
    lo, hi = nz.normalize_range
    if lo > -np.inf:
        x = min(_g(v, "x", lo - 1.0), lo)
        if not np.isnan(nz.normalize(np.array([x]))[0]):
            bad.append(f"normalize({x}) not nan")
    dlo, dhi = nz.denormalize_range
    y = _g(v, "y", None)
    if dlo > -np.inf:
        yy = dlo if y is None else min(y, dlo)
        if not np.isnan(nz.denormalize(np.array([yy]))[0]):
            bad.append(f"denormalize({yy}) not nan, range {nz.denormalize_range}")
    elif dhi < np.inf:
        yy = dhi if y is None else max(y, dhi)
        if not np.isnan(nz.denormalize(np.array([yy]))[0]):
            bad.append(f"denormalize({yy}) not nan, range {nz.denormalize_range}")
    return (not bad), f"{type(nz).__name__}{par} {bad}"


def replay_monotone(inputs):
    import warnings

    import numpy as np

    warnings.simplefilter("ignore")
    nz, v, par = _nz(inputs)
    x, y = _g(v, "x", 0.5), _g(v, "y", 1.5)
    lo, hi = nz.normalize_range
    if not (lo < x < y < hi):
        return True, "precondition"
    r = nz.normalize(np.array([x, y]))
    if abs(y - x) < 1e-9 * max(1, abs(x)):
        return True, "witness points closer than rounding"
    return bool(r[0] < r[1] or np.isclose(r[0], r[1], rtol=1e-12) and abs(y - x) < 1e-6), f"{type(nz).__name__}{par} n({x})={r[0]} n({y})={r[1]}"


def replay_derivative(inputs):
    import warnings

    import numpy as np

    warnings.simplefilter("ignore")
    nz, v, par = _nz(inputs)
    x = _g(v, "x", 1.3)
    lo, hi = nz.normalize_range
    if not (lo < x < hi):
        return True, "precondition"
    h = 1e-6 * max(1.0, abs(x))
    if not (lo < x - h and x + h < hi):
        return True, "too close to the range boundary for a numerical derivative"
    num = (nz.normalize(np.array([x + h]))[0] - nz.normalize(np.array([x - h]))[0]) / (2 * h)
    d = nz.derivative(np.array([x]))[0]
    return bool(np.isclose(num, d, rtol=1e-4, atol=1e-8)), f"{type(nz).__name__}{par} x={x} reported={d} numerical={num}"


def replay_likelihood(inputs):
    import warnings

    import numpy as np

    warnings.simplefilter("ignore")
    nz, v, par = _nz(inputs)
    n = int(inputs["n"])
    xs = np.array([_g(v, f"x{i}", 0.5 + i) for i in range(n)])
    lo, hi = nz.normalize_range
    if not np.all((xs > lo) & (xs < hi)) or len(set(xs)) < n:
        return True, "precondition"
    nv = nz.normalize(xs)
    dv = nz.derivative(xs)
    if np.any(dv < 1e-16) or np.var(nv) <= 0:
        return True, "precondition"
    k = nz.kernel_loglikelihood(xs)
    l = nz.loglikelihood(xs)
    rk = -n / 2 * np.log(np.var(nv)) + np.sum(np.log(dv))
    rl = rk - n / 2 * (np.log(2 * np.pi) + 1)
    ok = np.isclose(k, rk, rtol=1e-8, atol=1e-9) and np.isclose(l, rl, rtol=1e-8, atol=1e-9)
    return bool(ok), f"{type(nz).__name__}{par} xs={xs} kernel={k} ref={rk} loglik={l} ref={rl}"


def replay_pipeline(inputs):
    import warnings

    import numpy as np

    warnings.simplefilter("ignore")
    from gstools.normalizer.tools import apply_mean_norm_trend, remove_trend_norm_mean

    nz, v, par = _nz(inputs)
    dim, stacked, callables = int(inputs["dim"]), bool(inputs["stacked"]), bool(inputs["callables"])
    npts, nf = 2, (2 if stacked else 1)
    P = np.array([[_g(v, f"p{k}_{i}", 0.3 + k + 0.5 * i) for i in range(npts)] for k in range(dim)])
    R = np.array([[_g(v, f"r{f}_{i}", 0.2 + 0.3 * f + 0.1 * i) for i in range(npts)] for f in range(nf)])
    D = np.array([[_g(v, f"d{f}_{i}", 1.2 + 0.3 * f + 0.1 * i) for i in range(npts)] for f in range(nf)])
    mc, tc = _g(v, "mean", 0.4), _g(v, "trend", 0.6)
    mean = (lambda *p: 0.3 + 0.1 * sum(np.asarray(a) for a in p)) if callables else mc
    trend = (lambda *p: 0.2 - 0.05 * sum(np.asarray(a) ** 2 for a in p)) if callables else tc
    mv = mean(*P) if callables else np.full(npts, mc)
    tv = trend(*P) if callables else np.full(npts, tc)
    msgs = []
    F = R.copy() if stacked else R[0].copy()
    res = np.array(apply_mean_norm_trend(P.copy(), F, mean=mean, normalizer=nz, trend=trend, stacked=stacked)).reshape(nf, npts)
    ref = np.array([nz.denormalize(R[f] + mv) + tv for f in range(nf)])
    if not np.allclose(res, ref, rtol=1e-9, atol=1e-10, equal_nan=True):
        msgs.append(f"apply={res.tolist()} trend+denorm(mean+raw)={ref.tolist()}")
    lo, hi = nz.normalize_range
    if np.all((D - tv > lo) & (D - tv < hi)):
        raw = remove_trend_norm_mean(P.copy(), (D.copy() if stacked else D[0].copy()), mean=mean, normalizer=nz, trend=trend, stacked=stacked)
        again = np.array(apply_mean_norm_trend(P.copy(), np.array(raw).copy(), mean=mean, normalizer=nz, trend=trend, stacked=stacked)).reshape(nf, npts)
        if not np.allclose(again, D, rtol=1e-7, atol=1e-9):
            msgs.append(f"apply(remove(data))={again.tolist()} data={D.tolist()}")
    return (not msgs), f"{type(nz).__name__}{par} {msgs}"


REPLAY = {
    "roundtrip": replay_roundtrip,
    "roundtrip_rev": replay_roundtrip_rev,
    "nan": replay_nan,
    "monotone": replay_monotone,
    "derivative": replay_derivative,
    "likelihood": replay_likelihood,
    "pipeline": replay_pipeline,
}

"""C17  Fourier-generated fields are exactly periodic."""
import itertools

import numpy as rnp
import z3

from .. import core, passes, rngstub, sym, theory
from ..core import Job, prove, rec
from ..sym import Sym, explore, lift, real
from . import c11

FILES = ["src/gstools/field/generator.py", "src/gstools/field/summator.pyx", "src/gstools/tools/geometric.py", "src/gstools/covmodel/base.py"]

SPEC = {
    "level": "model_checking",
    "engine": "E1 (Fourier generator, CovModel.isometrize) + E2 (summate_fourier, via C15)",
    "files": FILES,
    "functions": ["Fourier.__init__/update/_set_modes/_fill_to_dim/reset_seed, period / mode_no / model setters", "CovModel.isometrize / main_axes", "generate_grid", "summate_fourier (phase = sum_d modes[d,j]*pos[d,i], proved under C15)"],
    "bounds": {"quick": {"dim": "1-3", "mode_no": "2 per axis (4 along the first axis in 2-D)", "values": "period, anisotropy, angles and the evaluation point symbolic", "histories": "<=2 operations over period=, mode_no=, in-place anisotropy / angle change, model="}, "thorough": {"histories": "<=3 operations in 2-D"}},
    "stubs": ["random draws symbolic (not involved in the phases)", "np.arange(-n/2*dk, n/2*dk, dk) has n elements in exact arithmetic: proved per call under the path condition"],
    "oracle": "phase_j(x + period_a * axis_a) - phase_j(x) = 2*pi*(m - N_a/2), an integer multiple of 2*pi, for every mode j; hence (2*pi-periodicity of sin and cos, and the kernel's phase formula from C15) the field repeats exactly",
    "outside": ["floating-point length of np.arange (n vs n+1 elements)", "rounding"],
    "assumptions": ["floats read as reals", "period > 0, anisotropy > 0"],
}

JOB_TIMEOUT = {"quick": 400, "thorough": 3000}


def _grid_index(mode_no, j):
    """multi-index of flat mode j in the ij-ordered grid"""
    idx = []
    for n in reversed(mode_no):
        idx.append(j % n)
        j //= n
    return list(reversed(idx))


def check_generator(tag, gen, model, dim, period, mode_no, x, conds, T, wv, rb):
    """obligations 1-3 for a generator in its current state"""
    out = []
    an = [1.0] + list(model.anis)
    dk = gen._delta_k
    modes = gen._modes
    N = 1
    for n in mode_no:
        N *= n
    if modes.shape != (dim, N) or list(gen._mode_no) != list(mode_no):
        out.append(rec(tag + "/grid shape", "sat", witness={}, replay={"kind": rb[0], "inputs": rb[1]({})}, detail=f"{modes.shape} {gen._mode_no} expected {(dim, N)} {mode_no}"))
        return out
    two_pi = 2 * theory.PI
    for d in range(dim):
        out.append(prove(f"{tag}/delta_k[{d}]==2pi/period*anis", conds, lift(dk[d]) == two_pi / lift(period[d]) * lift(an[d]), T, witness_vars=wv, replay=rb))
    for j in range(N):
        mi = _grid_index(mode_no, j)
        for d in range(dim):
            want = (mi[d] - mode_no[d] / 2) * (two_pi / lift(period[d]) * lift(an[d]))
            out.append(prove(f"{tag}/mode[{d},{j}]==(m-N/2)*delta_k", conds, lift(modes[d, j]) == want, T, witness_vars=wv, replay=rb))
    axes = model.main_axes()
    X = rnp.array([[xx] for xx in x], dtype=object)
    iso0 = model.isometrize(X)
    for a in range(dim):
        shifted = rnp.array([[x[k] + period[a] * axes[a][k]] for k in range(dim)], dtype=object)
        iso1 = model.isometrize(shifted)
        # L: the isometrised shift is (period_a / anis_a) e_a
        dshift = [lift(iso1[k, 0]) - lift(iso0[k, 0]) for k in range(dim)]
        wants = []
        for k in range(dim):
            want = lift(period[a]) / lift(an[a]) if k == a else z3.RealVal(0)
            g, _n = passes.reduced_eq_goal(dshift[k], want)
            out.append(prove(f"{tag}/axis{a}/lemma: isometrised shift[{k}]==(period/anis) e_a", conds, g, T, witness_vars=wv, replay=rb, pairwise=False))
            wants.append(want)
        for j in range(N):
            mi = _grid_index(mode_no, j)
            # composition with the lemma: the phase shift is stated on (period/anis) e_a
            dphase = z3.Sum([lift(modes[d, j]) * wants[d] for d in range(dim)])
            n_int = mi[a] - mode_no[a] // 2
            out.append(prove(f"{tag}/axis{a}/mode{j}: phase shift == 2*pi*({n_int})", conds, dphase == two_pi * n_int, T, witness_vars=wv, replay=rb, pairwise=False))
    return out


def job_periodic(dim, mode_no, seq, tier):
    gs = c11.setup()
    import gstools.field.generator as G

    T = core.tier_timeout(tier)
    per = [real(f"p{d}") for d in range(dim)]
    per2 = [real(f"q{d}") for d in range(dim)]
    an = [real(f"e{d}") for d in range(dim - 1)]
    an2 = [real(f"f{d}") for d in range(dim - 1)]
    ang = [real(f"a{d}") for d in range(dim * (dim - 1) // 2)]
    ang2 = [real(f"b{d}") for d in range(dim * (dim - 1) // 2)]
    x = [real(f"x{d}") for d in range(dim)]
    l = real("len")
    wv = {str(s.e): s for s in per + per2 + an + an2 + ang + ang2 + x + [l]}
    rb = ("periodic", lambda v: {"dim": dim, "mode_no": list(mode_no), "seq": list(seq), "values": v})
    tag = f"C17/d{dim}/modes{'x'.join(map(str, mode_no))}/" + (">".join(seq) if seq else "fresh")
    out = []
    results = []

    def run():
        rngstub.reset()
        for s in per + per2 + an + an2 + [l]:
            sym.assume(s > 0)
        mkw = dict(len_scale=l)
        if dim > 1:
            mkw.update(anis=list(an), angles=list(ang))
        model = gs.Gaussian(dim=dim, **mkw)
        gen = G.Fourier(model, period=list(per), mode_no=list(mode_no), seed=3)
        cur_period, cur_modes = list(per), list(mode_no)
        for op in seq:
            if op == "period":
                gen.period = list(per2)
                cur_period = list(per2)
            elif op == "mode_no":
                cur_modes = [4] + list(mode_no[1:])
                gen.mode_no = list(cur_modes)
            elif op == "anis" and dim > 1:
                for e_old, e_new in zip(an, an2):
                    sym.assume(abs(e_old - e_new) > 1e-8 + 1e-5 * abs(e_new))
                model.anis = list(an2)
                gen.update(model)
            elif op == "angles" and dim > 1:
                for e_old, e_new in zip(ang, ang2):
                    sym.assume(abs(e_old - e_new) > 1e-8 + 1e-5 * abs(e_new))
                model.angles = list(ang2)
                gen.update(model)
            elif op == "model":
                model = gs.Gaussian(dim=dim, len_scale=l * 2.0, **({"anis": list(an2), "angles": list(ang2)} if dim > 1 else {}))
                for e_old, e_new in zip(an, an2):
                    sym.assume(abs(e_old - e_new) > 1e-8 + 1e-5 * abs(e_new))
                gen.model = model
        return gen, gen.model, cur_period, cur_modes

    paths = explore(run, max_paths=64)
    n_ok = 0
    for pi, p in enumerate(paths):
        if p.exc is not None:
            out.append(rec(f"{tag}/path{pi}", "error", detail=f"{p.exc!r} {p.tb}"))
            continue
        n_ok += 1
        gen, model, cur_period, cur_modes = p.out
        sym.CUR = None
        out += check_generator(f"{tag}/path{pi}", gen, model, dim, cur_period, cur_modes, x, p.conds, T, wv, rb)
    if not n_ok:
        out.append(rec(tag + "/reach", "vacuous"))
    return out


def job_odd_rejected(tier):
    gs = c11.setup()
    import gstools.field.generator as G

    out = []
    for mn in ([3], [2, 5], [7, 2, 2]):
        dim = len(mn)
        try:
            G.Fourier(gs.Gaussian(dim=dim), period=[4.0] * dim, mode_no=mn, seed=1)
            ok = False
        except ValueError:
            ok = True
        out.append(rec(f"C17/odd mode_no {mn} rejected", "unsat" if ok else "sat", vacuity="sat", witness={}, replay={"kind": "odd", "inputs": {"mode_no": mn}}))
    return out


def jobs(tier, seed):
    js = [Job("odd", job_odd_rejected, tier)]
    cfgs = [(1, (2,)), (2, (4, 2)), (3, (2, 2, 2))]
    for dim, mn in cfgs:
        js.append(Job(f"fresh-d{dim}", job_periodic, dim, mn, (), tier))
    ops = ["period", "mode_no", "anis", "angles", "model"]
    for op in ops:
        js.append(Job(f"hist-d2-{op}", job_periodic, 2, (2, 2), (op,), tier))
    for s in itertools.product(ops, repeat=2):
        if tier == "quick" and not ("anis" in s or "model" in s):
            continue
        js.append(Job(f"hist-d2-{'>'.join(s)}", job_periodic, 2, (2, 2), s, tier))
    js.append(Job("hist-d1-period>mode_no", job_periodic, 1, (2,), ("period", "mode_no"), tier))
    js.append(Job("hist-d3-anis", job_periodic, 3, (2, 2, 2), ("anis",), tier))
    if tier == "thorough":
        for s in itertools.product(["period", "mode_no", "anis"], repeat=3):
            js.append(Job(f"hist-d2-{'>'.join(s)}", job_periodic, 2, (2, 2), s, tier))
    return js


# --------------------------------------------------------------------------


def _val(v, k, d):
    x = v.get(k)
    return float(x) if x is not None else d


def _replay_periodic_once(inputs, perturb):
    import numpy as np
    import gstools as gs

    dim, mode_no, seq, v = int(inputs["dim"]), list(inputs["mode_no"]), list(inputs["seq"]), inputs.get("values") or {}
    per = [abs(_val(v, f"p{d}", 4.0 + d)) or 4.0 for d in range(dim)]
    per2 = [abs(_val(v, f"q{d}", 6.0 + 0.5 * d)) or 6.0 for d in range(dim)]
    an = [(abs(_val(v, f"e{d}", 0.5 + 0.2 * d)) or 0.5) * perturb for d in range(dim - 1)]
    an2 = [(abs(_val(v, f"f{d}", 1.0 + 0.3 * d)) or 1.0) * perturb for d in range(dim - 1)]
    ang = [_val(v, f"a{d}", 0.4 + 0.2 * d) for d in range(dim * (dim - 1) // 2)]
    ang2 = [_val(v, f"b{d}", 1.1 + 0.2 * d) for d in range(dim * (dim - 1) // 2)]
    for i in range(len(an)):
        if np.isclose(an[i], an2[i]):
            an2[i] = an[i] * 2
    x = np.array([[_val(v, f"x{d}", 0.37 + 0.9 * d)] for d in range(dim)])
    # (the witness value of the length scale is irrelevant to periodicity; it is chosen relative to the
    #  period so that the field is not negligible and the comparison is meaningful)
    l = 0.25 * min(per + per2)
    mn = [max(m, 4) * 2 for m in mode_no]  # more modes: a visible field
    mkw = dict(len_scale=l)
    if dim > 1:
        mkw.update(anis=an, angles=ang)
    model = gs.Gaussian(dim=dim, **mkw)
    srf = gs.SRF(model, generator="Fourier", period=per, mode_no=mn, seed=3)
    cur_period = list(per)
    for op in seq:
        if op == "period":
            srf.generator.period = per2
            cur_period = list(per2)
        elif op == "mode_no":
            srf.generator.mode_no = [mn[0] + 4] + mn[1:]
        elif op == "anis" and dim > 1:
            srf.model.anis = an2
        elif op == "angles" and dim > 1:
            srf.model.angles = ang2
        elif op == "model":
            srf.model = gs.Gaussian(dim=dim, len_scale=2 * l, **({"anis": an2, "angles": ang2} if dim > 1 else {}))
    base = srf(x)
    axes = srf.model.main_axes()
    bad = []
    for a in range(dim):
        sh = srf(x + cur_period[a] * axes[a][:, None])
        scale = float(np.max(np.abs(base)) + np.max(np.abs(sh)))
        if not np.allclose(sh, base, rtol=1e-7, atol=1e-9 * scale):
            bad.append(f"axis {a}: field(x)={np.asarray(base).tolist()} field(x+period*axis)={np.asarray(sh).tolist()}")
    return (not bad), f"dim={dim} seq={seq} period={cur_period} failing={bad}"


def replay_periodic(inputs):
    """the solver's witness refutes a lemma about the mode grid; the observable (periodicity of the field) is
    checked at the witness and, because special ratios can mask a wrong grid (e.g. 1/anis^2 integer), at two
    nearby anisotropy values -- any of them is a concrete counterexample to the property"""
    last = None
    for perturb in (1.0, 1.137, 0.871):
        ok, detail = _replay_periodic_once(inputs, perturb)
        last = detail
        if not ok:
            return False, f"(anisotropy x {perturb}) " + detail
    return True, last


def replay_odd(inputs):
    import gstools as gs
    import gstools.field.generator as G

    mn = inputs["mode_no"]
    try:
        G.Fourier(gs.Gaussian(dim=len(mn)), period=[4.0] * len(mn), mode_no=mn, seed=1)
    except ValueError:
        return True, "rejected"
    return False, f"odd mode_no {mn} accepted"


REPLAY = {"periodic": replay_periodic, "odd": replay_odd}

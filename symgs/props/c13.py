"""C13  Geographic and spatio-temporal coordinates are consistent across modules."""
import numpy as rnp
import z3

from .. import core, passes, sym, theory
from ..core import Job, prove, rec
from ..sym import Sym, explore, lift, real

FILES = ["src/gstools/tools/geometric.py", "src/gstools/covmodel/base.py", "src/gstools/covmodel/tools.py", "src/gstools/covmodel/fit.py", "src/gstools/krige/base.py", "src/gstools/variogram/estimator.pyx"]

SPEC = {
    "level": "model_checking",
    "engine": "E1 (+E2 for the haversine kernel)",
    "files": FILES,
    "functions": [
        "gstools.tools.geometric.latlon2pos",
        "gstools.tools.geometric.pos2latlon",
        "gstools.tools.geometric.chordal_to_great_circle",
        "gstools.tools.geometric.great_circle_to_chordal",
        "gstools.covmodel.base.CovModel.isometrize/anisometrize (lat-lon, temporal)",
        "gstools.covmodel.base.CovModel.cov_yadrenko/vario_yadrenko/cor_yadrenko",
        "gstools.covmodel.fit._check_vario",
        "gstools.tools.geometric.matrix_isometrize (temporal models)",
        "gstools.variogram.estimator.dist_haversine (E2)",
    ],
    "bounds": {"quick": {"points": "2 symbolic lat-lon points (any latitude in [-90,90], any longitude), symbolic geo_scale>0, symbolic time and time anisotropy"}, "thorough": {"points": "as quick (the chord depends on the longitudes only through cos(lon1 - lon2): invariance under rotation about the polar axis is a corollary of the chord identity); plus cvc5 second opinions"}},
    "stubs": ["sin/cos/arcsin/arctan2/sqrt uninterpreted with sound axioms (principal ranges, injectivity on principal ranges, polar decomposition)", "pi symbolic with 3.1415926<pi<3.1415927"],
    "oracle": "sphere geometry: |p|=R; chord^2 = 2R^2(1-cos(central angle)), central angle by the spherical law of cosines; haversine formula; "
    "Yadrenko: C(zeta) = C_3D(2R sin(zeta/2R)); metric space-time: (x, t/anis_t)",
    "outside": ["numerical behaviour of arcsin near +-1 (clipped in code)", "rounding"],
    "assumptions": ["floats read as reals", "geo_scale > 0", "latitude within [-90, 90]"],
}


def _setup():
    from .. import npx

    npx.install()
    import gstools as gs

    return gs


PI = theory.PI
sin, cos = theory.UF["sin"], theory.UF["cos"]


def rad(deg):
    return deg * PI / 180


def _single(fn, oid):
    paths = explore(fn)
    ok = [p for p in paths if p.exc is None]
    if len(paths) != 1 or len(ok) != 1:
        return None, [rec(oid, "error", detail=f"expected a single path, got {len(paths)}: {[repr(p.exc) for p in paths]} {paths[0].tb if paths else ''}")]
    return ok[0], []


def job_sphere(tier):
    gs = _setup()
    from gstools.tools import geometric as geo

    T = core.tier_timeout(tier)
    out = []
    la1, lo1, la2, lo2, R, t1, ts = sym.reals("lat1 lon1 lat2 lon2 R t1 tscale")
    wv = dict(lat1=la1, lon1=lo1, lat2=la2, lon2=lo2, R=R, t1=t1, tscale=ts)
    rb = ("sphere", lambda v: {"values": v})

    def run():
        sym.assume(R > 0)
        sym.assume(ts > 0)
        p = geo.latlon2pos(rnp.array([[la1, la2], [lo1, lo2]], dtype=object), radius=R)
        pt = geo.latlon2pos(rnp.array([[la1], [lo1], [t1]], dtype=object), radius=R, temporal=True, time_scale=ts)
        return p, pt

    p, err = _single(run, "C13/latlon2pos")
    out += err
    if p:
        P, Pt = p.out
        f1, l1, f2, l2 = rad(la1.e), rad(lo1.e), rad(la2.e), rad(lo2.e)
        # documented embedding
        ref = [(R.e * cos(f1) * cos(l1), R.e * cos(f1) * sin(l1), R.e * sin(f1)), (R.e * cos(f2) * cos(l2), R.e * cos(f2) * sin(l2), R.e * sin(f2))]
        for i in range(2):
            for k in range(3):
                out.append(prove(f"C13/latlon2pos/point{i}[{k}]==R(cos lat cos lon, cos lat sin lon, sin lat)", p.conds, lift(P[k, i]) == ref[i][k], T, witness_vars=wv, replay=rb))
            n2 = z3.Sum([lift(P[k, i]) * lift(P[k, i]) for k in range(3)])
            g, _ = passes.reduced_eq_goal(n2, R.e * R.e)
            out.append(prove(f"C13/latlon2pos/|p{i}|^2==R^2", p.conds, g, T, witness_vars=wv, replay=rb))
        # chord^2 = 2 R^2 (1 - cos(central angle)),  cos(central) = sin f1 sin f2 + cos f1 cos f2 cos(l1-l2)
        ch2 = z3.Sum([(lift(P[k, 0]) - lift(P[k, 1])) * (lift(P[k, 0]) - lift(P[k, 1])) for k in range(3)])
        cosc = sin(f1) * sin(f2) + cos(f1) * cos(f2) * (cos(l1) * cos(l2) + sin(l1) * sin(l2))
        g, _ = passes.reduced_eq_goal(ch2, 2 * R.e * R.e * (1 - cosc))
        out.append(prove("C13/chord^2==2R^2(1-cos central angle)", p.conds, g, T, witness_vars=wv, replay=rb))
        # haversine argument a = hav(dlat) + cos f1 cos f2 hav(dlon), hav(x) = (1-cos x)/2 : chord^2 = 4 R^2 a
        hav = lambda c: (1 - c) / 2
        a = hav(cos(f1) * cos(f2) + sin(f1) * sin(f2)) + cos(f1) * cos(f2) * hav(cos(l1) * cos(l2) + sin(l1) * sin(l2))
        g, _ = passes.reduced_eq_goal(ch2, 4 * R.e * R.e * a)
        out.append(prove("C13/chord^2==4R^2*haversine_argument", p.conds, g, T, witness_vars=wv, replay=rb))
        # temporal: 4th coordinate is t / time_scale, first three unchanged
        for k in range(3):
            out.append(prove(f"C13/latlon2pos/temporal_space[{k}]", p.conds, lift(Pt[k, 0]) == lift(P[k, 0]), T, witness_vars=wv, replay=rb))
        out.append(prove("C13/latlon2pos/temporal_time==t/time_scale", p.conds, lift(Pt[3, 0]) == t1.e / ts.e, T, witness_vars=wv, replay=rb))
    return out


def job_roundtrip(tier):
    gs = _setup()
    from gstools.tools import geometric as geo

    T = core.tier_timeout(tier)
    out = []
    la, lo, R, t1, ts, d = sym.reals("lat lon R t1 tscale d")
    wv = dict(lat=la, lon=lo, R=R, t1=t1, tscale=ts, d=d)
    rb = ("roundtrip", lambda v: {"values": v})

    # pos2latlon(latlon2pos(x)) == x  for lat in (-90,90), lon in (-180,180]
    def run():
        sym.assume(R > 0)
        sym.assume(ts > 0)
        sym.assume(la > -90)
        sym.assume(la < 90)
        sym.assume(lo > -180)
        sym.assume(lo <= 180)
        p = geo.latlon2pos(rnp.array([[la], [lo], [t1]], dtype=object), radius=R, temporal=True, time_scale=ts)
        return geo.pos2latlon(p, radius=R, temporal=True, time_scale=ts)

    p, err = _single(run, "C13/pos2latlon(latlon2pos)")
    out += err
    if p:
        L = p.out
        out.append(prove("C13/pos2latlon(latlon2pos(x))==x/lat", p.conds, lift(L[0][0]) == la.e, T, witness_vars=wv, replay=rb))
        out.append(prove("C13/pos2latlon(latlon2pos(x))==x/lon", p.conds, lift(L[1][0]) == lo.e, T, witness_vars=wv, replay=rb))
        out.append(prove("C13/pos2latlon(latlon2pos(x))==x/time", p.conds, lift(L[2][0]) == t1.e, T, witness_vars=wv, replay=rb))

    # latlon2pos(pos2latlon(latlon2pos(x))) == latlon2pos(x) everywhere (poles, date line, any longitude)
    def run2():
        sym.assume(R > 0)
        sym.assume(la >= -90)
        sym.assume(la <= 90)
        p0 = geo.latlon2pos(rnp.array([[la], [lo]], dtype=object), radius=R)
        ll = geo.pos2latlon(p0, radius=R)
        p1 = geo.latlon2pos(ll, radius=R)
        return p0, ll, p1

    p, err = _single(run2, "C13/latlon2pos(pos2latlon(latlon2pos))")
    out += err
    if p:
        p0, ll, p1 = p.out
        # staged (cut rule): L1 latitude is recovered on the closed range; L2 the recovered longitude has the
        # same direction cosines scaled by rho = R cos(lat); then the composite equality uses L1, L2 as lemmas
        lat2, lon2 = lift(ll[0][0]), lift(ll[1][0])
        L1 = lat2 == la.e
        out.append(prove("C13/reembed/L1: recovered latitude == latitude on [-90,90]", p.conds, L1, T, witness_vars=wv, replay=rb))
        rho = R.e * cos(rad(la.e))
        x0, y0 = lift(p0[0, 0]), lift(p0[1, 0])
        L2a = z3.And(rho >= 0, theory.UF["sqrt"](x0 * x0 + y0 * y0) == rho)
        out.append(prove("C13/reembed/L2a: sqrt(x^2+y^2) == R cos(lat) >= 0", p.conds, L2a, T, witness_vars=wv, replay=rb))
        L2 = z3.And(rho * cos(rad(lon2)) == x0, rho * sin(rad(lon2)) == y0)
        out.append(prove("C13/reembed/L2: rho*(cos,sin)(recovered longitude) == (x,y)", p.conds, L2, T, witness_vars=wv, replay=rb, extra=[L2a], note="uses lemma L2a"))
        for k in range(3):
            out.append(prove(f"C13/latlon2pos(pos2latlon(p))==p[{k}] (incl. poles and date line)", p.conds, lift(p1[k, 0]) == lift(p0[k, 0]), T, witness_vars=wv, replay=rb, extra=[L1, L2], note="uses lemmas L1, L2 (proved above under the same conditions)"))

    # chordal <-> great circle
    def run3():
        sym.assume(R > 0)
        sym.assume(d >= 0)
        sym.assume(d <= theory.PI * R.e)
        c = geo.great_circle_to_chordal(d, R)
        return c, geo.chordal_to_great_circle(c, R)

    p, err = _single(run3, "C13/chordal_great_circle")
    out += err
    if p:
        c, g = p.out
        out.append(prove("C13/great_circle_to_chordal==2R sin(d/2R)", p.conds, lift(c) == 2 * R.e * sin(d.e / (2 * R.e)), T, witness_vars=wv, replay=rb))
        out.append(prove("C13/chordal_to_great_circle(great_circle_to_chordal(d))==d on [0,pi R]", p.conds, lift(g) == d.e, T, witness_vars=wv, replay=rb))

    def run4():
        sym.assume(R > 0)
        sym.assume(d >= 0)
        sym.assume(d <= 2 * R.e)
        g = geo.chordal_to_great_circle(d, R)
        return geo.great_circle_to_chordal(g, R)

    p, err = _single(run4, "C13/great_circle_chordal")
    out += err
    if p:
        out.append(prove("C13/great_circle_to_chordal(chordal_to_great_circle(c))==c on [0,2R]", p.conds, lift(p.out) == d.e, T, witness_vars=wv, replay=rb))
    return out


def job_model(tier):
    """lat-lon models: forced dimension, isometrize == latlon2pos, Yadrenko covariance == covariance of the chord."""
    gs = _setup()
    from gstools.tools import geometric as geo

    T = core.tier_timeout(tier)
    out = []
    la1, lo1, la2, lo2, R, zeta, at, t1, l = sym.reals("lat1 lon1 lat2 lon2 R zeta at t1 l")
    wv = dict(lat1=la1, lon1=lo1, lat2=la2, lon2=lo2, R=R, zeta=zeta, at=at, t1=t1, l=l)
    rb = ("model", lambda v: {"values": v})
    COV = z3.Function("cor_h", z3.RealSort(), z3.RealSort())

    class UFModel(gs.CovModel):
        def cor(self, h):
            h = rnp.asarray(h, dtype=object)
            return rnp.frompyfunc(lambda x: Sym(COV(lift(x))), 1, 1)(h)

    for temporal in (False, True):
        tag = "latlon_t" if temporal else "latlon"

        def run(temporal=temporal):
            sym.assume(R > 0)
            sym.assume(at > 0)
            sym.assume(l > 0)
            sym.assume(zeta >= 0)
            m = UFModel(latlon=True, temporal=temporal, geo_scale=R, len_scale=l, anis=[1.0, 1.0, at] if temporal else 1.0, dim=2)
            rows = [[la1, la2], [lo1, lo2]] + ([[t1, t1]] if temporal else [])
            iso = m.isometrize(rnp.array(rows, dtype=object))
            ref = geo.latlon2pos(rnp.array(rows, dtype=object), radius=R, temporal=temporal, time_scale=at)
            cy = m.cov_yadrenko(zeta)
            vy = m.vario_yadrenko(zeta)
            cc = m.covariance(2 * R * sym.fn1("sin", zeta / (2 * R)))
            vv = m.variogram(2 * R * sym.fn1("sin", zeta / (2 * R)))
            return m, iso, ref, cy, cc, vy, vv

        p, err = _single(run, f"C13/{tag}/model")
        out += err
        if not p:
            continue
        m, iso, ref, cy, cc, vy, vv = p.out
        if m.dim != (4 if temporal else 3) or m.field_dim != (3 if temporal else 2) or m.spatial_dim != 2:
            out.append(rec(f"C13/{tag}/forced_dim", "sat", witness={}, replay={"kind": "model", "inputs": {"values": {}}}, detail=f"dim={m.dim} field_dim={m.field_dim}"))
        else:
            out.append(rec(f"C13/{tag}/forced_dim", "unsat", vacuity="sat", note=f"dim={m.dim} field_dim={m.field_dim} spatial_dim={m.spatial_dim} (concrete)"))
        for k in range(iso.shape[0]):
            for i in range(2):
                out.append(prove(f"C13/{tag}/isometrize==latlon2pos(radius=geo_scale,time/anis[-1])[{k},{i}]", p.conds, core.eq(iso[k, i], ref[k, i]), T, witness_vars=wv, replay=rb))
        out.append(prove(f"C13/{tag}/cov_yadrenko(zeta)==cov(2R sin(zeta/2R))", p.conds, core.eq(cy, cc), T, witness_vars=wv, replay=rb))
        out.append(prove(f"C13/{tag}/vario_yadrenko(zeta)==vario(2R sin(zeta/2R))", p.conds, core.eq(vy, vv), T, witness_vars=wv, replay=rb))
    return out


def job_temporal(d, tier):
    """metric space-time: time axis scaled by the last ratio only and never rotated into space."""
    gs = _setup()
    T = core.tier_timeout(tier)
    out = []
    sd = d - 1
    nang = d * (d - 1) // 2
    th = [real(f"t{i}") for i in range(nang)]
    an = [real(f"e{i}") for i in range(d - 1)]
    X = [real(f"x{k}") for k in range(d)]
    wv = dict({f"t{i}": th[i] for i in range(nang)}, **{f"e{i}": an[i] for i in range(d - 1)}, **{f"x{k}": X[k] for k in range(d)})
    rb = ("temporal", lambda v: {"dim": d, "values": v})

    def run():
        for e in an:
            sym.assume(e > 0)
        m = gs.Gaussian(temporal=True, spatial_dim=sd, anis=an, angles=th)
        ms = gs.Gaussian(dim=sd, anis=an[: sd - 1] if sd > 1 else 1.0, angles=th[: sd * (sd - 1) // 2] if sd > 1 else 0.0)
        iso = m.isometrize(rnp.array([[x] for x in X], dtype=object))
        isos = ms.isometrize(rnp.array([[x] for x in X[:sd]], dtype=object))
        back = m.anisometrize(iso)
        return m, iso, isos, back

    p, err = _single(run, f"C13/temporal{d}")
    out += err
    if p:
        m, iso, isos, back = p.out
        out.append(prove(f"C13/temporal{d}/time==t/anis[-1]", p.conds, lift(iso[d - 1, 0]) == X[d - 1].e / an[-1].e, T, witness_vars=wv, replay=rb))
        for k in range(sd):
            g, _ = passes.reduced_eq_goal(lift(iso[k, 0]), lift(isos[k, 0]))
            out.append(prove(f"C13/temporal{d}/space[{k}]==spatial model's isometrize (no time mixed in)", p.conds, g, T, witness_vars=wv, replay=rb))
        for k in range(d):
            g, _ = passes.reduced_eq_goal(lift(back[k, 0]), X[k].e)
            out.append(prove(f"C13/temporal{d}/anisometrize(isometrize(x))==x[{k}]", p.conds, g, T, witness_vars=wv, replay=rb))
    return out


def job_fit_lags(tier):
    """fit_variogram on lat-lon models converts great-circle lags to chordal lags with geo_scale."""
    gs = _setup()
    from gstools.covmodel import fit

    T = core.tier_timeout(tier)
    out = []
    R, x0, x1, y0, y1 = sym.reals("R x0 x1 y0 y1")
    wv = dict(R=R, x0=x0, x1=x1)
    rb = ("fitlags", lambda v: {"values": v})

    def run():
        sym.assume(R > 0)
        m = gs.Gaussian(latlon=True, geo_scale=R)
        xd, yd, isdir = fit._check_vario(m, rnp.array([x0, x1], dtype=object), rnp.array([y0, y1], dtype=object))
        return xd, yd, isdir

    p, err = _single(run, "C13/fit/_check_vario")
    out += err
    if p:
        xd, yd, isdir = p.out
        for i, x in enumerate((x0, x1)):
            out.append(prove(f"C13/fit/lag[{i}]==2R sin(x/2R)", p.conds, lift(xd[i]) == 2 * R.e * sin(x.e / (2 * R.e)), T, witness_vars=wv, replay=rb))
        out.append(rec("C13/fit/not_directional", "unsat" if isdir is False else "error", vacuity="sat"))
    return out


def job_krige_fit(tier):
    """Krige(fit_variogram=True) on a lat-lon model: the empirical variogram is estimated with latlon=True and the model's
    geo_scale (so that its lags are in the unit the model fit reads), and what it returns goes to the model fit unchanged"""
    gs = _setup()
    import gstools.krige.base as kb

    T = core.tier_timeout(tier)
    out = []
    R = real("R")
    wv = dict(R=R)
    rb = ("krigefit", lambda v: {"values": v})

    def run():
        sym.assume(R > 0)
        seen = {}
        marker = (rnp.array([1.0, 2.0]), rnp.array([0.3, 0.5]))

        def spy_vario(pos, field, *a, **kw):
            seen["vario"] = (a, dict(kw), rnp.array(pos, dtype=object).copy())
            return marker

        m = gs.Gaussian(latlon=True, geo_scale=R, var=1.0, len_scale=1.0)

        class Done(Exception):
            pass

        def spy_fit(*a, **kw):
            seen["fit"] = (a, dict(kw))
            raise Done()  # (the rest of the construction -- the kriging matrix -- is C05's subject)

        m.fit_variogram = spy_fit
        kb.vario_estimate = spy_vario
        cp = rnp.array([[10.0, 20.0, 30.0], [5.0, 15.0, 40.0]])
        try:
            gs.krige.Ordinary(m, cp, [1.0, 2.0, 0.5], fit_variogram=True)
        except Done:
            pass
        return seen, marker

    p, err = _single(run, "C13/krige_fit")
    out += err
    if p:
        seen, marker = p.out
        a, kw, pos = seen.get("vario", ((), {}, None))
        ok_ll = kw.get("latlon") is True and not a
        out.append(rec("C13/krige_fit/variogram estimated with latlon=True", "unsat" if ok_ll else "sat", vacuity="sat", witness={}, replay={"kind": "krigefit", "inputs": rb[1]({})}, detail=str({k_: str(v_)[:30] for k_, v_ in kw.items()})))
        if "geo_scale" in kw:
            out.append(prove("C13/krige_fit/variogram estimated with the model's geo_scale", p.conds, lift(kw["geo_scale"]) == R.e, T, witness_vars=wv, replay=rb))
        else:
            out.append(prove("C13/krige_fit/variogram estimated with the model's geo_scale (not passed: default 1)", p.conds, R.e == 1, T, witness_vars=wv, replay=rb, vacuity=False))
        fa, fkw = seen.get("fit", ((), {}))
        ok_f = len(fa) >= 2 and fa[0] is marker[0] and fa[1] is marker[1]
        out.append(rec("C13/krige_fit/estimated lags and values go to the model fit unchanged", "unsat" if ok_f else "sat", vacuity="sat", witness={}, replay={"kind": "krigefit", "inputs": rb[1]({})}))
    return out


def jobs(tier, seed):
    js = [Job("krigefit", job_krige_fit, tier), Job("sphere", job_sphere, tier), Job("roundtrip", job_roundtrip, tier), Job("model", job_model, tier), Job("fitlags", job_fit_lags, tier)]
    for d in (2, 3, 4):
        js.append(Job(f"temporal{d}", job_temporal, d, tier))
    return js


# --------------------------------------------------------------------------
# replays


def _g(v, k, d):
    return float(v[k]) if v.get(k) is not None else d


def replay_krigefit(inputs):
    """the fitted length scale of Krige(fit_variogram=True) does not depend on the length unit (up to the unit itself)"""
    import warnings

    import numpy as np

    warnings.simplefilter("ignore")
    import gstools as gs

    v = inputs.get("values") or {}
    R = abs(_g(v, "R", 6371.0))
    if R == 0 or abs(R - 1) < 1e-9:
        R = 6371.0
    rng = np.random.RandomState(3)
    lat, lon = rng.uniform(40, 50, 60), rng.uniform(0, 15, 60)
    truth = gs.Gaussian(latlon=True, geo_scale=gs.KM_SCALE, var=1.0, len_scale=400.0)
    val = gs.SRF(truth, seed=11)((lat, lon))
    res = []
    for scale in (1.0, R):
        m = gs.Gaussian(latlon=True, geo_scale=scale, var=1.0, len_scale=0.1 * scale)
        try:
            gs.krige.Ordinary(m, (lat, lon), val, fit_variogram=True)
        except Exception as e:  # the fit may fail on garbage lags
            return False, f"geo_scale={scale}: {e}"
        res.append(m.len_scale / scale)
    ok = np.isclose(res[0], res[1], rtol=5e-2)
    return bool(ok), f"fitted len_scale / geo_scale for geo_scale 1 and {R}: {res}"


def replay_sphere(inputs):
    import numpy as np
    from gstools.tools import geometric as geo

    v = inputs["values"]
    R = abs(_g(v, "R", 2.5)) or 2.5
    la1, lo1, la2, lo2 = _g(v, "lat1", 10.0), _g(v, "lon1", 20.0), _g(v, "lat2", -35.0), _g(v, "lon2", 170.0)
    t1, ts = _g(v, "t1", 3.0), abs(_g(v, "tscale", 0.5)) or 0.5
    P = geo.latlon2pos(np.array([[la1, la2], [lo1, lo2]]), radius=R)
    bad = []
    f = np.deg2rad
    for i, (la, lo) in enumerate(((la1, lo1), (la2, lo2))):
        ref = R * np.array([np.cos(f(la)) * np.cos(f(lo)), np.cos(f(la)) * np.sin(f(lo)), np.sin(f(la))])
        if not np.allclose(P[:, i], ref, rtol=1e-9, atol=1e-9 * R):
            bad.append(f"embedding{i}")
        if not np.isclose(np.linalg.norm(P[:, i]), R, rtol=1e-9):
            bad.append(f"norm{i}")
    cosc = np.sin(f(la1)) * np.sin(f(la2)) + np.cos(f(la1)) * np.cos(f(la2)) * np.cos(f(lo1 - lo2))
    ch2 = np.sum((P[:, 0] - P[:, 1]) ** 2)
    if not np.isclose(ch2, 2 * R * R * (1 - cosc), rtol=1e-8, atol=1e-12 * R * R):
        bad.append("chord")
    a = np.sin(f(la1 - la2) / 2) ** 2 + np.cos(f(la1)) * np.cos(f(la2)) * np.sin(f(lo1 - lo2) / 2) ** 2
    if not np.isclose(ch2, 4 * R * R * a, rtol=1e-8, atol=1e-12 * R * R):
        bad.append("haversine")
    Pt = geo.latlon2pos(np.array([[la1], [lo1], [t1]]), radius=R, temporal=True, time_scale=ts)
    if not (np.allclose(Pt[:3, 0], P[:, 0]) and np.isclose(Pt[3, 0], t1 / ts)):
        bad.append("temporal")
    return (not bad), f"{v} failing={bad}"


def replay_roundtrip(inputs):
    import numpy as np
    from gstools.tools import geometric as geo

    v = inputs["values"]
    R = abs(_g(v, "R", 2.5)) or 2.5
    la, lo = _g(v, "lat", 33.0), _g(v, "lon", -120.0)
    t1, ts, d = _g(v, "t1", 3.0), abs(_g(v, "tscale", 0.5)) or 0.5, _g(v, "d", 1.0)
    bad = []
    if -90 < la < 90 and -180 < lo <= 180:
        L = geo.pos2latlon(geo.latlon2pos(np.array([[la], [lo], [t1]]), radius=R, temporal=True, time_scale=ts), radius=R, temporal=True, time_scale=ts)
        if not np.allclose(np.array(L).reshape(-1), [la, lo, t1], rtol=1e-8, atol=1e-7):
            bad.append(f"pos2latlon(latlon2pos)={np.array(L).reshape(-1)}")
    if -90 <= la <= 90:
        p0 = geo.latlon2pos(np.array([[la], [lo]]), radius=R)
        p1 = geo.latlon2pos(geo.pos2latlon(p0, radius=R), radius=R)
        if not np.allclose(p0, p1, rtol=1e-8, atol=1e-8 * R):
            bad.append("latlon2pos(pos2latlon(p))")
    if 0 <= d <= np.pi * R:
        c = geo.great_circle_to_chordal(d, R)
        if not np.isclose(c, 2 * R * np.sin(d / (2 * R)), rtol=1e-12):
            bad.append("gc2chord")
        if not np.isclose(geo.chordal_to_great_circle(c, R), d, rtol=1e-6, atol=1e-7 * R):
            bad.append("chord2gc(gc2chord)")
    if 0 <= d <= 2 * R:
        if not np.isclose(geo.great_circle_to_chordal(geo.chordal_to_great_circle(d, R), R), d, rtol=1e-8, atol=1e-9 * R):
            bad.append("gc2chord(chord2gc)")
    return (not bad), f"{v} failing={bad}"


def replay_model(inputs):
    import numpy as np
    import gstools as gs
    from gstools.tools import geometric as geo

    v = inputs["values"]
    R = abs(_g(v, "R", 2.5)) or 2.5
    at = abs(_g(v, "at", 0.7)) or 0.7
    l = abs(_g(v, "l", 1.3)) or 1.3
    zeta = abs(_g(v, "zeta", 0.9))
    la1, lo1, la2, lo2, t1 = _g(v, "lat1", 10.0), _g(v, "lon1", 20.0), _g(v, "lat2", -35.0), _g(v, "lon2", 170.0), _g(v, "t1", 2.0)
    bad = []
    for temporal in (False, True):
        m = gs.Exponential(latlon=True, temporal=temporal, geo_scale=R, len_scale=l, anis=[1.0, 1.0, at] if temporal else 1.0)
        if m.dim != (4 if temporal else 3) or m.field_dim != (3 if temporal else 2):
            bad.append("dim")
        rows = [[la1, la2], [lo1, lo2]] + ([[t1, t1]] if temporal else [])
        iso = m.isometrize(np.array(rows))
        ref = geo.latlon2pos(np.array(rows), radius=R, temporal=temporal, time_scale=at)
        if not np.allclose(iso, ref, rtol=1e-10):
            bad.append(f"isometrize temporal={temporal}")
        c = 2 * R * np.sin(zeta / (2 * R))
        if not (np.isclose(m.cov_yadrenko(zeta), m.covariance(c), rtol=1e-10) and np.isclose(m.vario_yadrenko(zeta), m.variogram(c), rtol=1e-10)):
            bad.append(f"yadrenko temporal={temporal}")
    return (not bad), f"{v} failing={bad}"


def replay_temporal(inputs):
    import numpy as np
    import gstools as gs

    d = int(inputs["dim"])
    v = inputs["values"]
    sd = d - 1
    th = [_g(v, f"t{i}", 0.3 * (i + 1)) for i in range(d * (d - 1) // 2)]
    an = [abs(_g(v, f"e{i}", 0.5 + 0.4 * i)) or 0.5 for i in range(d - 1)]
    X = np.array([[_g(v, f"x{k}", 0.7 * (k + 1))] for k in range(d)])
    m = gs.Gaussian(temporal=True, spatial_dim=sd, anis=an, angles=th)
    ms = gs.Gaussian(dim=sd, anis=an[: sd - 1] if sd > 1 else 1.0, angles=th[: sd * (sd - 1) // 2] if sd > 1 else 0.0)
    iso = m.isometrize(X)
    bad = []
    if not np.isclose(iso[d - 1, 0], X[d - 1, 0] / an[-1], rtol=1e-10):
        bad.append("time")
    if not np.allclose(iso[:sd, 0], ms.isometrize(X[:sd])[:, 0], rtol=1e-9, atol=1e-10):
        bad.append("space")
    if not np.allclose(m.anisometrize(iso), X, rtol=1e-9, atol=1e-10):
        bad.append("inverse")
    return (not bad), f"dim={d} {v} failing={bad}"


def replay_fitlags(inputs):
    import numpy as np
    import gstools as gs
    from gstools.covmodel import fit

    v = inputs["values"]
    R = abs(_g(v, "R", 2.5)) or 2.5
    x = np.array([_g(v, "x0", 0.4), _g(v, "x1", 1.1)])
    m = gs.Gaussian(latlon=True, geo_scale=R)
    xd, yd, isdir = fit._check_vario(m, x.copy(), np.array([0.2, 0.6]))
    ok = np.allclose(xd, 2 * R * np.sin(x / (2 * R)), rtol=1e-12) and not isdir
    return bool(ok), f"{v} lags={xd}"


REPLAY = {"krigefit": replay_krigefit, "sphere": replay_sphere, "roundtrip": replay_roundtrip, "model": replay_model, "temporal": replay_temporal, "fitlags": replay_fitlags}

"""C12  Anisotropy and rotation act as a linear change of coordinates."""
import itertools
import time

import numpy as rnp
import z3

from .. import core, passes, sym, theory
from ..core import Job, prove, rec
from ..sym import Sym, explore, lift, real

FILES = ["src/gstools/tools/geometric.py", "src/gstools/covmodel/base.py", "src/gstools/covmodel/tools.py", "src/gstools/field/base.py", "src/gstools/krige/base.py"]

SPEC = {
    "level": "model_checking",
    "engine": "E1 (symbolic execution of the real numpy code on z3 reals) + trig ideal-reduction pass",
    "files": FILES,
    "functions": [
        "gstools.tools.geometric.set_angles",
        "gstools.tools.geometric.set_anis",
        "gstools.tools.geometric.no_of_angles",
        "gstools.tools.geometric.rotation_planes",
        "gstools.tools.geometric.givens_rotation",
        "gstools.tools.geometric.matrix_rotate",
        "gstools.tools.geometric.matrix_derotate",
        "gstools.tools.geometric.matrix_isotropify",
        "gstools.tools.geometric.matrix_anisotropify",
        "gstools.tools.geometric.matrix_isometrize",
        "gstools.tools.geometric.matrix_anisometrize",
        "gstools.tools.geometric.rotated_main_axes",
        "gstools.covmodel.base.CovModel.__init__",
        "gstools.covmodel.base.CovModel.isometrize",
        "gstools.covmodel.base.CovModel.anisometrize",
        "gstools.covmodel.base.CovModel.main_axes",
        "gstools.covmodel.base.CovModel._get_iso_rad",
        "gstools.covmodel.base.CovModel.len_scale_vec",
        "gstools.covmodel.tools.set_len_anis",
        "gstools.covmodel.tools.set_model_angles",
        "gstools.field.base.Field.pre_pos",
        "gstools.krige.base.Krige.set_condition",
        "gstools.krige.base.Krige._get_krige_vecs",
    ],
    "bounds": {
        "quick": {"dim": "1..4 (all entries, all angle vectors, anis>0 symbolic)", "points": "1 symbolic point per pipeline obligation"},
        "thorough": {"dim": "1..4; rotation-matrix identities and the isometrisation pipeline also for dim 5 (10 planes)", "points": "2 symbolic points"},
    },
    "stubs": ["sin/cos as uninterpreted functions with sin^2+cos^2=1, parity, angle addition"],
    "oracle": "2-D: counter-clockwise rotation [[c,-s],[s,c]]; 3-D: Rx(roll).Ry(pitch).Rz(yaw) with right-handed elementary rotations; "
    "d-D: product of Givens rotations over planes (0,1),(0,2),(1,2),(0,3),... with alternating sign (docstrings of geometric.py, "
    "examples/01_random_field/07_higher_dimensions.py); inverse pair, orthogonality and det=1 are definitions.",
    "outside": ["floating-point rounding", "dim > 4"],
    "assumptions": ["floats read as reals", "anisotropy ratios > 0 (the library rejects others)"],
}


def _setup():
    from .. import npx

    npx.install()
    import gstools  # noqa

    return npx


def _angles(d, prefix="t"):
    n = d * (d - 1) // 2
    return [real(f"{prefix}{i}") for i in range(n)]


def _anis(d, prefix="e"):
    return [real(f"{prefix}{i}") for i in range(d - 1)]


def _ref_givens(d, i, j, th):
    """reference Givens rotation (written independently, z3 terms)."""
    c, s = theory.UF["cos"](th), theory.UF["sin"](th)
    M = [[z3.RealVal(1 if a == b else 0) for b in range(d)] for a in range(d)]
    M[i][i] = c
    M[j][j] = c
    M[i][j] = -s
    M[j][i] = s
    return M


def _mm(A, B):
    n = len(A)
    return [[z3.Sum([A[i][k] * B[k][j] for k in range(n)]) for j in range(n)] for i in range(n)]


def _ref_rotation(d, th):
    """documented convention: planes in order (i<j, j ascending), alternating signs, applied left."""
    planes = [(i, j) for j in range(1, d) for i in range(j)]
    R = [[z3.RealVal(1 if a == b else 0) for b in range(d)] for a in range(d)]
    for n, ((i, j), t) in enumerate(zip(planes, th)):
        R = _mm(_ref_givens(d, i, j, t if n % 2 == 0 else -t), R)
    return R


def _ref_3d(y, p, r):
    """Rx(roll) . Ry(pitch) . Rz(yaw), right-handed elementary rotations."""
    c, s = theory.UF["cos"], theory.UF["sin"]
    Rz = [[c(y), -s(y), 0], [s(y), c(y), 0], [0, 0, 1]]
    Ry = [[c(p), 0, s(p)], [0, 1, 0], [-s(p), 0, c(p)]]
    Rx = [[1, 0, 0], [0, c(r), -s(r)], [0, s(r), c(r)]]
    z = lambda M: [[x if isinstance(x, z3.ExprRef) else z3.RealVal(x) for x in row] for row in M]
    return _mm(z(Rx), _mm(z(Ry), z(Rz)))


def _replay_builder(d, names):
    def b(vals):
        return {"dim": d, "values": {k: vals.get(k) for k in names}}

    return b


def _wv(d):
    w = {f"t{i}": real(f"t{i}") for i in range(d * (d - 1) // 2)}
    w.update({f"e{i}": real(f"e{i}") for i in range(d - 1)})
    return w


def _trig_eq(oid, lhs, rhs, conds, timeout, d, use_pass):
    """prove lhs == rhs; with use_pass the difference is first reduced modulo the circle ideals."""
    note = None
    if use_pass:
        goal, n = passes.reduced_eq_goal(lift(lhs), lift(rhs))
        note = f"trig ideal reduction: residual has {n} monomials"
    else:
        goal = lift(lhs) - lift(rhs) == 0
    return prove(oid, conds, goal, timeout, witness_vars=_wv(d), replay=("matrices", _replay_builder(d, list(_wv(d)))), note=note)


def job_matrix(d, tier):
    """orthogonality, det, convention, derotate, inverse pair for dimension d."""
    _setup()
    from gstools.tools import geometric as geo

    T = core.tier_timeout(tier)
    out = []
    th = _angles(d)
    an = _anis(d)

    def run():
        return (
            geo.matrix_rotate(d, th),
            geo.matrix_derotate(d, th),
            geo.matrix_isometrize(d, th, an),
            geo.matrix_anisometrize(d, th, an),
            geo.rotated_main_axes(d, th),
        )

    paths = explore(run)
    if len(paths) != 1 or paths[0].exc is not None:
        return [rec(f"C12/d{d}/matrices", "error", detail=f"expected one path, got {len(paths)}: {paths[0].exc!r} {paths[0].tb}")]
    R, D, I, A, AX = paths[0].out
    pos = [lift(e) > 0 for e in an]
    use_pass = d >= 3
    for M, nm in ((R, "rotate"), (D, "derotate"), (I, "isometrize"), (A, "anisometrize"), (AX, "main_axes")):
        if M.shape != (d, d):
            out.append(rec(f"C12/d{d}/{nm}/shape", "error", detail=str(M.shape)))
            return out
    # orthogonality R R^T = I, R^T R = I
    for i in range(d):
        for j in range(i, d):
            e1 = rnp.sum(R[i, :] * R[j, :])
            out.append(_trig_eq(f"C12/d{d}/orth_rows[{i},{j}]", e1, 1.0 if i == j else 0.0, [], T, d, use_pass))
            e2 = rnp.sum(R[:, i] * R[:, j])
            out.append(_trig_eq(f"C12/d{d}/orth_cols[{i},{j}]", e2, 1.0 if i == j else 0.0, [], T, d, use_pass))
    # determinant = 1 (Leibniz expansion on the code's own entries)
    if d >= 2:
        det = 0.0
        for perm in itertools.permutations(range(d)):
            sgn = 1
            for a in range(d):
                for b in range(a + 1, d):
                    if perm[a] > perm[b]:
                        sgn = -sgn
            term = 1.0
            for a in range(d):
                term = term * R[a, perm[a]]
            det = det + sgn * term
        out.append(_trig_eq(f"C12/d{d}/det", det, 1.0, [], T, d, True))
    # documented convention
    ref = _ref_rotation(d, [t.e for t in th])
    for i in range(d):
        for j in range(d):
            out.append(_trig_eq(f"C12/d{d}/convention_givens[{i},{j}]", R[i, j], Sym(ref[i][j]) if not z3.is_rational_value(ref[i][j]) else float(ref[i][j].numerator_as_long()), [], T, d, use_pass))
    if d == 2:
        c, s = theory.UF["cos"](th[0].e), theory.UF["sin"](th[0].e)
        for (i, j), v in {(0, 0): c, (0, 1): -s, (1, 0): s, (1, 1): c}.items():
            out.append(_trig_eq(f"C12/d2/ccw[{i},{j}]", R[i, j], Sym(v), [], T, d, False))
    if d == 3:
        ref3 = _ref_3d(th[0].e, th[1].e, th[2].e)
        for i in range(3):
            for j in range(3):
                out.append(_trig_eq(f"C12/d3/yaw_pitch_roll[{i},{j}]", R[i, j], Sym(z3.simplify(ref3[i][j])), [], T, d, True))
    # derotate = rotate^T ; main axes = rows of rotate^T
    for i in range(d):
        for j in range(d):
            out.append(_trig_eq(f"C12/d{d}/derotate_is_transpose[{i},{j}]", D[i, j], R[j, i], [], T, d, use_pass))
            out.append(_trig_eq(f"C12/d{d}/main_axes_is_transpose[{i},{j}]", AX[i, j], R[j, i], [], T, d, use_pass))
    # isometrize o anisometrize = id (both orders), anis > 0
    P1 = rnp.dot(I, A)
    P2 = rnp.dot(A, I)
    for i in range(d):
        for j in range(d):
            for P, nm in ((P1, "iso_aniso"), (P2, "aniso_iso")):
                # multiply out the 1/e factors: e>0, so compare after clearing denominators via solver
                out.append(_trig_eq(f"C12/d{d}/{nm}[{i},{j}]", P[i, j], 1.0 if i == j else 0.0, pos, T, d, use_pass))
    # nesting: trailing angles zero => block-diagonal embedding of the (d-1)-dim matrix
    if d >= 2:
        n_lo = (d - 1) * (d - 2) // 2

        def run2():
            th2 = list(th[:n_lo]) + [0.0] * (len(th) - n_lo)
            return geo.matrix_rotate(d, th2), geo.matrix_rotate(d - 1, th[:n_lo]) if d > 1 else None

        p2 = explore(run2)
        Rb, Rs = p2[0].out
        for i in range(d):
            for j in range(d):
                if i < d - 1 and j < d - 1:
                    want = Rs[i, j]
                else:
                    want = 1.0 if i == j else 0.0
                out.append(_trig_eq(f"C12/d{d}/nesting[{i},{j}]", Rb[i, j], want, [], T, d, False))
    return out, {"dim": d, "paths": len(paths)}


def job_model(d, tier):
    """CovModel-level obligations: per-axis length scale, len_scale_vec, padding rules."""
    _setup()
    import gstools as gs

    T = core.tier_timeout(tier)
    out = []
    th = _angles(d)
    an = _anis(d)
    l = real("l")
    t = real("t")
    wv = dict(_wv(d), l=l, t=t)
    rb = ("model_axes", lambda vals: {"dim": d, "values": vals})

    def run():
        for e in an:
            sym.assume(e > 0)
        sym.assume(l > 0)
        m = gs.Gaussian(dim=d, len_scale=l, anis=an if d > 1 else 1.0, angles=th if d > 1 else 0.0)
        axes = m.main_axes()
        rads = []
        for i in range(d):
            rads.append(m._get_iso_rad(t * axes[i]))
        iso = m.isometrize(rnp.array([t * axes[i][k] for i in range(d) for k in range(d)], dtype=object).reshape(d, d).T)
        return m, axes, rads, m.len_scale_vec, iso

    paths = explore(run, max_paths=256)
    bad_paths = [p for p in paths if p.exc is not None]
    if bad_paths or not paths:
        return [rec(f"C12/d{d}/model", "error", detail=f"paths={len(paths)} exc={[repr(p.exc) for p in bad_paths][:3]} {bad_paths[0].tb if bad_paths else ''}")]
    for pi, p in enumerate(paths):
        sfx = f"/path{pi}" if len(paths) > 1 else ""
        m, axes, rads, lvec, iso = p.out
        conds = p.conds
        for i in range(d):
            # |iso(t * axis_i)|^2 == (t / anis[i-1])^2   (norm is sqrt of this; compare squares and sign)
            r = rads[i]
            r = r[0] if isinstance(r, rnp.ndarray) else r
            want = abs(t) if i == 0 else abs(t) / an[i - 1]
            # rads = sqrt(S): prove S == want^2 via trig reduction, then sqrt axioms give equality
            S = lift(r).arg(0) if (z3.is_app(lift(r)) and lift(r).decl().name() == "sqrt") else None
            if S is None:
                out.append(rec(f"C12/d{d}/axis_len[{i}]{sfx}", "error", detail=f"unexpected radius term {r}"))
                continue
            goal, _n = passes.reduced_eq_goal(S, lift(want) * lift(want))
            out.append(prove(f"C12/d{d}/axis_radius_sq[{i}]{sfx}", conds, goal, T, witness_vars=wv, replay=rb, note="|isometrize(t*axis_i)|^2 = (t/anis[i-1])^2"))
            # isometrize(t*axis_i) = (t/anis) * e_i  componentwise
            for k in range(d):
                comp = iso[k, i]
                wantk = (t if i == 0 else t / an[i - 1]) if k == i else 0.0
                goal, _n = passes.reduced_eq_goal(lift(comp), lift(wantk))
                out.append(prove(f"C12/d{d}/axis_maps_to_unit[{i}][{k}]{sfx}", conds, goal, T, witness_vars=wv, replay=rb))
        # len_scale_vec
        for i in range(d):
            want = l if i == 0 else l * an[i - 1]
            out.append(prove(f"C12/d{d}/len_scale_vec[{i}]{sfx}", conds, core.eq(lvec[i], want), T, witness_vars=wv, replay=rb))
    return out, {"dim": d}


def job_isorad(d, tier):
    """_get_iso_rad (behind vario_spatial / cov_spatial / cor_spatial) at a general point: |diag(1,1/e) R^T x|^2 with the documented R."""
    _setup()
    import gstools as gs

    T = core.tier_timeout(tier)
    out = []
    th = _angles(d)
    an = _anis(d)
    l = real("l")
    X = [real(f"x{k}") for k in range(d)]
    wv = dict(_wv(d), l=l)
    for k in range(d):
        wv[f"x{k}"] = X[k]
    rb = ("isorad", lambda vals: {"dim": d, "values": vals})

    def run():
        for e in an:
            sym.assume(e > 0)
        sym.assume(l > 0)
        m = gs.Gaussian(dim=d, len_scale=l, anis=an if d > 1 else 1.0, angles=th if d > 1 else 0.0)
        return m._get_iso_rad([x for x in X])

    paths = explore(run, max_paths=64)
    bad_paths = [p for p in paths if p.exc is not None]
    if bad_paths or not paths:
        return [rec(f"C12/d{d}/iso_rad", "error", detail=f"paths={len(paths)} exc={[repr(p.exc) for p in bad_paths][:3]} {bad_paths[0].tb if bad_paths else ''}")]
    R = _ref_rotation(d, [t.e for t in th])
    ref_sq = 0
    for k in range(d):
        c = z3.Sum([R[j][k] * X[j].e for j in range(d)])  # (R^T x)_k
        if k > 0:
            c = c / an[k - 1].e
        ref_sq = ref_sq + c * c
    for pi, p in enumerate(paths):
        sfx = f"/path{pi}" if len(paths) > 1 else ""
        r = p.out
        r = r.reshape(-1)[0] if isinstance(r, rnp.ndarray) else r
        e = lift(r)
        S = e.arg(0) if (z3.is_app(e) and e.decl().name() == "sqrt") else None
        if S is None:
            # no square root left (e.g. |x| in one dimension): compare squares directly
            S = e * e
            out.append(prove(f"C12/d{d}/iso_rad_nonneg{sfx}", p.conds, e >= 0, T, witness_vars=wv, replay=rb))
        goal, n = passes.reduced_eq_goal(S, ref_sq)
        out.append(prove(f"C12/d{d}/iso_rad_sq{sfx}", p.conds, goal, T, witness_vars=wv, replay=rb, note=f"_get_iso_rad(x)^2 = |diag(1,1/e) R^T x|^2 at a general point; residual {n} monomials"))
    return out, {"dim": d, "paths": len(paths)}


def job_padding(tier):
    _setup()
    from gstools.covmodel.tools import set_len_anis, set_model_angles
    from gstools.tools import geometric as geo

    T = core.tier_timeout(tier)
    out = []
    a, b, c, l1, l2, l3 = sym.reals("a b c l1 l2 l3")
    wv = dict(a=a, b=b, c=c, l1=l1, l2=l2, l3=l3)
    rb = ("padding", lambda vals: {"values": vals})
    cases = []

    def add(oid, fn, want, pre=()):
        cases.append((oid, fn, want, pre))

    add("set_anis(3,[a])==[1,a]", lambda: geo.set_anis(3, [a]), [1.0, a])
    add("set_anis(3,a)==[1,a]", lambda: geo.set_anis(3, a), [1.0, a])
    add("set_anis(4,[a,b])==[1,a,b]", lambda: geo.set_anis(4, [a, b]), [1.0, a, b])
    add("set_anis(2,[a,b])==[a]", lambda: geo.set_anis(2, [a, b]), [a])
    add("set_anis(3,[a,b])==[a,b]", lambda: geo.set_anis(3, [a, b]), [a, b])
    add("set_angles(3,[a])==[a,0,0]", lambda: geo.set_angles(3, [a]), [a, 0.0, 0.0])
    add("set_angles(3,a)==[a,0,0]", lambda: geo.set_angles(3, a), [a, 0.0, 0.0])
    add("set_angles(2,[a,b])==[a]", lambda: geo.set_angles(2, [a, b]), [a])
    add("set_angles(4,[a,b])==[a,b,0,0,0,0]", lambda: geo.set_angles(4, [a, b]), [a, b, 0.0, 0.0, 0.0, 0.0])
    add("set_model_angles(4,temporal)[3:]==0", lambda: set_model_angles(4, [a, b, c, l1, l2, l3], False, True), [a, b, c, 0.0, 0.0, 0.0])
    add("set_model_angles(3,latlon)==0", lambda: set_model_angles(3, [a, b, c], True, False), [0.0, 0.0, 0.0])
    pre = [l1 > 0, l2 > 0, l3 > 0, a > 0, b > 0]
    add("set_len_anis(3,[l1,l2])", lambda: _flat(set_len_anis(3, [l1, l2], [a, b])), [l1, l2 / l1, l2 / l1], pre)
    add("set_len_anis(3,[l1,l2,l3])", lambda: _flat(set_len_anis(3, [l1, l2, l3], [a, b])), [l1, l2 / l1, l3 / l1], pre)
    add("set_len_anis(3,l1,[a,b])", lambda: _flat(set_len_anis(3, l1, [a, b])), [l1, a, b], pre)
    add("set_len_anis(3,l1,[a])", lambda: _flat(set_len_anis(3, l1, [a])), [l1, 1.0, a], pre)
    add("set_len_anis(2,[l1,l2,l3])", lambda: _flat(set_len_anis(2, [l1, l2, l3], 1.0)), [l1, l2 / l1], pre)
    add("set_len_anis(3,l1,[a,b],latlon)", lambda: _flat(set_len_anis(3, l1, [a, b], True)), [l1, 1.0, 1.0], pre)
    for oid, fn, want, pre in cases:

        def run(fn=fn, pre=pre):
            for c_ in pre:
                sym.assume(c_)
            return fn()

        paths = explore(run)
        okp = [p for p in paths if p.exc is None]
        if len(paths) != 1 or len(okp) != 1:
            out.append(rec(f"C12/padding/{oid}", "error", detail=f"paths={len(paths)} {[repr(p.exc) for p in paths]}"))
            continue
        got = list(okp[0].out)
        if len(got) != len(want):
            out.append(rec(f"C12/padding/{oid}", "sat", witness={}, replay={"kind": "padding", "inputs": {"values": {}}}, detail=f"length {len(got)} != {len(want)}"))
            continue
        goal = z3.And([core.eq(g, w) for g, w in zip(got, want)])
        out.append(prove(f"C12/padding/{oid}", okp[0].conds, goal, T, witness_vars=wv, replay=rb))
    return out


def _flat(t):
    l, an = t
    return [l] + list(an)


def job_pipeline(d, tier):
    """Field.pre_pos / Krige use isometrize exactly once; drift functions see original coordinates."""
    _setup()
    import gstools as gs
    from gstools.tools import geometric as geo

    T = core.tier_timeout(tier)
    out = []
    th = _angles(d)
    an = _anis(d)
    npts = 1 if tier == "quick" else 2
    X = [[real(f"x{k}_{i}") for i in range(npts)] for k in range(d)]
    wv = dict(_wv(d))
    for k in range(d):
        for i in range(npts):
            wv[f"x{k}_{i}"] = X[k][i]
    rb = ("pipeline", lambda vals: {"dim": d, "npts": npts, "values": vals})

    def run():
        for e in an:
            sym.assume(e > 0)
        m = gs.Gaussian(dim=d, anis=an if d > 1 else 1.0, angles=th if d > 1 else 0.0)
        f = gs.field.Field(m)
        iso_pos, shape = f.pre_pos([[x for x in row] for row in X], "unstructured")
        return m, iso_pos, shape, f.pos

    paths = explore(run)
    okp = [p for p in paths if p.exc is None]
    if len(paths) != 1 or len(okp) != 1:
        return [rec(f"C12/d{d}/pipeline", "error", detail=f"paths={len(paths)} {[repr(p.exc) for p in paths]} {paths[0].tb}")]
    p = okp[0]
    m, iso_pos, shape, stored = p.out
    # reference: diag(1,1/e) . R^T . x  built from the documented convention
    R = _ref_rotation(d, [t.e for t in th])
    for i in range(npts):
        for k in range(d):
            ref = z3.Sum([R[j][k] * X[j][i].e for j in range(d)])  # (R^T x)_k
            if k > 0:
                ref = ref / an[k - 1].e
            goal, _n = passes.reduced_eq_goal(lift(iso_pos[k, i]), ref)
            out.append(prove(f"C12/d{d}/pre_pos_isometrized[{k},{i}]", p.conds, goal, T, witness_vars=wv, replay=rb))
            out.append(prove(f"C12/d{d}/pre_pos_stores_original[{k},{i}]", p.conds, core.eq(stored[k][i], X[k][i]), T, witness_vars=wv, replay=rb))
    return out, {"dim": d, "npts": npts}


def jobs(tier, seed):
    js = []
    for d in (1, 2, 3, 4):
        js.append(Job(f"matrix-d{d}", job_matrix, d, tier))
        js.append(Job(f"model-d{d}", job_model, d, tier))
        js.append(Job(f"pipeline-d{d}", job_pipeline, d, tier))
    js.append(Job("padding", job_padding, tier))
    for d in (1, 2, 3) if tier == "quick" else (1, 2, 3, 4):
        js.append(Job(f"isorad-d{d}", job_isorad, d, tier))
    if tier == "thorough":
        # dimension 5 (10 rotation planes): rotation-matrix identities and the isometrisation pipeline; the model-level job does
        # not finish there (15 min) and stays at d <= 4
        js.append(Job("matrix-d5", job_matrix, 5, tier))
        js.append(Job("pipeline-d5", job_pipeline, 5, tier))
    return js


# --------------------------------------------------------------------------
# concrete replays (unpatched library, IEEE doubles)


def _vals(inputs, d):
    v = inputs.get("values", {})
    th = [float(v.get(f"t{i}") or 0.0) for i in range(d * (d - 1) // 2)]
    an = [float(v.get(f"e{i}") or 1.0) for i in range(d - 1)]
    an = [a if a > 0 else 1.0 for a in an]
    return th, an, v


def _ref_np(d, th):
    import numpy as np

    planes = [(i, j) for j in range(1, d) for i in range(j)]
    R = np.eye(d)
    for n, ((i, j), t) in enumerate(zip(planes, th)):
        t = t if n % 2 == 0 else -t
        G = np.eye(d)
        G[i, i] = G[j, j] = np.cos(t)
        G[i, j] = -np.sin(t)
        G[j, i] = np.sin(t)
        R = G @ R
    return R


def replay_matrices(inputs):
    import numpy as np
    from gstools.tools import geometric as geo

    d = int(inputs["dim"])
    th, an, _ = _vals(inputs, d)
    R = geo.matrix_rotate(d, th)
    bad = []
    tol = 1e-9
    chk = lambda name, a, b: bad.append(name) if not np.allclose(a, b, rtol=tol, atol=tol) else None
    chk("orth", R @ R.T, np.eye(d))
    chk("det", np.linalg.det(R), 1.0)
    chk("convention", R, _ref_np(d, th))
    chk("derotate", geo.matrix_derotate(d, th), R.T)
    chk("main_axes", geo.rotated_main_axes(d, th), R.T)
    I = geo.matrix_isometrize(d, th, an)
    A = geo.matrix_anisometrize(d, th, an)
    chk("iso_aniso", I @ A, np.eye(d))
    chk("aniso_iso", A @ I, np.eye(d))
    if d == 2:
        c, s = np.cos(th[0]), np.sin(th[0])
        chk("ccw", R, np.array([[c, -s], [s, c]]))
    if d == 3:
        y, p, r = th
        Rz = np.array([[np.cos(y), -np.sin(y), 0], [np.sin(y), np.cos(y), 0], [0, 0, 1]])
        Ry = np.array([[np.cos(p), 0, np.sin(p)], [0, 1, 0], [-np.sin(p), 0, np.cos(p)]])
        Rx = np.array([[1, 0, 0], [0, np.cos(r), -np.sin(r)], [0, np.sin(r), np.cos(r)]])
        chk("ypr", R, Rx @ Ry @ Rz)
    if d >= 2:
        n_lo = (d - 1) * (d - 2) // 2
        th2 = th[:n_lo] + [0.0] * (len(th) - n_lo)
        Rb = geo.matrix_rotate(d, th2)
        E = np.eye(d)
        E[: d - 1, : d - 1] = geo.matrix_rotate(d - 1, th[:n_lo]) if d > 1 else 1.0
        chk("nesting", Rb, E)
    return (not bad), f"dim={d} angles={th} anis={an} failing={bad}"


def replay_model_axes(inputs):
    import numpy as np
    import gstools as gs

    d = int(inputs["dim"])
    th, an, v = _vals(inputs, d)
    l = float(v.get("l") or 1.0)
    l = l if l > 0 else 1.0
    t = float(v.get("t") or 1.0)
    m = gs.Gaussian(dim=d, len_scale=l, anis=an if d > 1 else 1.0, angles=th if d > 1 else 0.0)
    bad = []
    axes = m.main_axes()
    for i in range(d):
        r = m._get_iso_rad(t * axes[i])[0]
        want = abs(t) if i == 0 else abs(t) / an[i - 1]
        if not np.isclose(r, want, rtol=1e-9, atol=1e-12):
            bad.append(("radius", i, r, want))
        iso = m.isometrize(t * axes[i]).reshape(-1)
        w = np.zeros(d)
        w[i] = t if i == 0 else t / an[i - 1]
        if not np.allclose(iso, w, rtol=1e-9, atol=1e-9):
            bad.append(("unit", i, iso.tolist(), w.tolist()))
        # covariance along the axis
        if not np.isclose(m.cov_spatial(t * axes[i])[0], m.covariance(want), rtol=1e-9):
            bad.append(("cov_axis", i))
    lv = m.len_scale_vec
    for i in range(d):
        if not np.isclose(lv[i], l if i == 0 else l * an[i - 1], rtol=1e-12):
            bad.append(("len_scale_vec", i))
    return (not bad), f"dim={d} angles={th} anis={an} l={l} t={t} failing={bad}"


def replay_isorad(inputs):
    import numpy as np
    import gstools as gs

    d = int(inputs["dim"])
    th, an, v = _vals(inputs, d)
    l = float(v.get("l") or 1.0)
    l = l if l > 0 else 1.0
    x = np.array([float(v.get(f"x{k}") or 0.0) for k in range(d)])
    m = gs.Gaussian(dim=d, len_scale=l, anis=an if d > 1 else 1.0, angles=th if d > 1 else 0.0)
    R = _ref_np(d, th)
    y = R.T @ x
    y[1:] = y[1:] / np.array(an)[: d - 1] if d > 1 else y[1:]
    want = float(np.sqrt(np.sum(y * y)))
    got = float(m._get_iso_rad(x.reshape(d, 1))[0])
    bad = []
    if not np.isclose(got, want, rtol=1e-9, atol=1e-12):
        bad.append(("iso_rad", got, want))
    for name, f in (("vario", m.variogram), ("cov", m.covariance), ("cor", m.correlation)):
        a = float(getattr(m, name + "_spatial")(x.reshape(d, 1))[0])
        b = float(f(want))
        if not np.isclose(a, b, rtol=1e-9, atol=1e-12):
            bad.append((name + "_spatial", a, b))
    return (not bad), f"dim={d} angles={th} anis={an} l={l} x={x.tolist()} failing={bad}"


def replay_padding(inputs):
    import numpy as np
    from gstools.covmodel.tools import set_len_anis, set_model_angles
    from gstools.tools import geometric as geo

    v = inputs.get("values", {})
    g = lambda k, dflt: float(v.get(k)) if v.get(k) is not None else dflt
    a, b, c = g("a", 0.7), g("b", 1.3), g("c", 0.4)
    l1, l2, l3 = [abs(g(k, x)) or x for k, x in (("l1", 2.0), ("l2", 3.0), ("l3", 5.0))]
    ap, bp = abs(a) or 0.7, abs(b) or 1.3
    checks = [
        (geo.set_anis(3, [a]), [1, a]),
        (geo.set_anis(3, a), [1, a]),
        (geo.set_anis(4, [a, b]), [1, a, b]),
        (geo.set_anis(2, [a, b]), [a]),
        (geo.set_anis(3, [a, b]), [a, b]),
        (geo.set_angles(3, [a]), [a, 0, 0]),
        (geo.set_angles(3, a), [a, 0, 0]),
        (geo.set_angles(2, [a, b]), [a]),
        (geo.set_angles(4, [a, b]), [a, b, 0, 0, 0, 0]),
        (set_model_angles(4, [a, b, c, l1, l2, l3], False, True), [a, b, c, 0, 0, 0]),
        (set_model_angles(3, [a, b, c], True, False), [0, 0, 0]),
        (_flat(set_len_anis(3, [l1, l2], [ap, bp])), [l1, l2 / l1, l2 / l1]),
        (_flat(set_len_anis(3, [l1, l2, l3], [ap, bp])), [l1, l2 / l1, l3 / l1]),
        (_flat(set_len_anis(3, l1, [ap, bp])), [l1, ap, bp]),
        (_flat(set_len_anis(3, l1, [ap])), [l1, 1.0, ap]),
        (_flat(set_len_anis(2, [l1, l2, l3], 1.0)), [l1, l2 / l1]),
        (_flat(set_len_anis(3, l1, [ap, bp], True)), [l1, 1.0, 1.0]),
    ]
    bad = [i for i, (got, want) in enumerate(checks) if len(got) != len(want) or not np.allclose(np.asarray(got, dtype=float), want, rtol=1e-12)]
    return (not bad), f"failing padding cases {bad} for {v}"


def replay_pipeline(inputs):
    import numpy as np
    import gstools as gs

    d = int(inputs["dim"])
    npts = int(inputs.get("npts", 1))
    th, an, v = _vals(inputs, d)
    X = np.array([[float(v.get(f"x{k}_{i}") if v.get(f"x{k}_{i}") is not None else 0.3 * (k + 1) + i) for i in range(npts)] for k in range(d)])
    m = gs.Gaussian(dim=d, anis=an if d > 1 else 1.0, angles=th if d > 1 else 0.0)
    f = gs.field.Field(m)
    iso, shape = f.pre_pos(X.copy(), "unstructured")
    R = _ref_np(d, th)
    ref = np.diag([1.0] + [1.0 / a for a in an]) @ R.T @ X
    bad = []
    if not np.allclose(iso, ref, rtol=1e-9, atol=1e-9):
        bad.append("pre_pos")
    if not np.allclose(np.asarray(f.pos), X):
        bad.append("stored pos")
    return (not bad), f"dim={d} angles={th} anis={an} X={X.tolist()} failing={bad}"


REPLAY = {"matrices": replay_matrices, "model_axes": replay_model_axes, "isorad": replay_isorad, "padding": replay_padding, "pipeline": replay_pipeline}

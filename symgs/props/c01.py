"""C01  Generated random fields reproduce the model covariance (algebraic skeleton)."""
import numpy as rnp
import z3

from .. import core, passes, rngstub, sym, theory
from ..core import Job, prove, rec
from ..sym import Sym, explore, lift, real
from . import c11

FILES = ["src/gstools/field/generator.py", "src/gstools/field/summator.pyx", "src/gstools/field/srf.py", "src/gstools/random/rng.py", "src/gstools/random/tools.py", "src/gstools/covmodel/base.py", "src/gstools/covmodel/tools.py"]

SPEC = {
    "level": "model_checking",
    "engine": "E1 (generators, SRF, RNG.sample_sphere) + E2 (summator.pyx) with symbolic random numbers",
    "files": FILES,
    "functions": ["RandMeth.__call__/reset_seed/get_nugget", "IncomprRandMeth.__call__", "Fourier.__call__/reset_seed/_set_modes", "SRF.__call__", "RNG.sample_sphere", "summate / summate_incompr / summate_fourier (E2)"],
    "bounds": {"quick": {"dim": "1-3", "modes": "2 (Fourier: 2 per axis)", "points": "2 symbolic evaluation points", "model": "Gaussian (ppf sampling) and Exponential (MCMC radii stub)"}, "thorough": {"modes": "4"}},
    "stubs": ["random draws: symbols (normal amplitudes Z, uniform angles U); E[Z_i Z_j] = delta_ij is the only distributional fact used, as the definition of the coefficient form", "emcee radii: symbolic, no law assumed"],
    "oracle": "conditional on the wave vectors: u(x) = sqrt(var/N) sum_j Z1_j cos(k_j x) + Z2_j sin(k_j x) (Hesse et al. 2014); E u(x)u(y) = (var/N) sum_j cos(k_j (x-y)); Var u(x) = var; Fourier: weights sqrt(S(|k|) prod dk)",
    "outside": [
        "that the radii follow the model's radial spectral law (MCMC / numerical Hankel models) and that numpy's normals are normal: the clause 'covariance equals the model covariance' is reduced to 'given C04's Fourier pair and a correct sampler' and is NOT claimed by itself",
        "Monte-Carlo rate; size of the Fourier discretisation error",
    ],
    "assumptions": ["floats read as reals"],
}

JOB_TIMEOUT = {"quick": 400, "thorough": 3000}


def job_randmeth(dim, model_name, nmodes, tier):
    gs = c11.setup()
    import gstools.field.generator as G

    T = core.tier_timeout(tier)
    out = []
    X = [[real(f"x{a}_{i}") for i in range(2)] for a in range(dim)]
    v, l, n = real("var"), real("len"), real("nug")
    wv = {str(s.e): s for r in X for s in r}
    wv.update(var=v, len=l, nug=n)
    rb = ("randmeth", lambda vals: {"dim": dim, "model": model_name, "values": vals})
    tag = f"C01/RandMeth/{model_name}/d{dim}"

    def run():
        rngstub.reset()
        for s in (v, l):
            sym.assume(s > 0)
        sym.assume(n > 0)
        model = getattr(gs, model_name)(dim=dim, var=v, len_scale=l, nugget=n)
        gen = G.RandMeth(model, mode_no=nmodes, seed=4)
        pos = rnp.array(X, dtype=object)
        u_nonug = gen(pos, add_nugget=False)
        u = gen(pos, add_nugget=True)
        return gen, u_nonug, u

    for pi, p in enumerate(explore(run, max_paths=16)):
        base = f"{tag}/path{pi}"
        if p.exc is not None:
            out.append(rec(base, "error", detail=f"{p.exc!r} {p.tb}"))
            continue
        gen, u0, u = p.out
        C = p.conds + list(rngstub.FACTS)
        z1, z2, K = gen._z_1, gen._z_2, gen._cov_sample
        cos, sin, sq = theory.UF["cos"], theory.UF["sin"], theory.UF["sqrt"]
        N = nmodes
        amp = sq(v.e / N)

        def phase(j, i):
            return z3.Sum([lift(K[d, j]) * X[d][i].e for d in range(dim)])

        for i in range(2):
            ref = amp * z3.Sum([lift(z1[j]) * cos(phase(j, i)) + lift(z2[j]) * sin(phase(j, i)) for j in range(N)])
            out.append(prove(f"{base}/u(x{i}) == sqrt(var/N) sum_j Z1 cos(k.x)+Z2 sin(k.x)  (linear, homogeneous in Z => zero mean)", C, lift(u0[i]) == ref, T, witness_vars=wv, replay=rb, pairwise=False))
        # covariance conditional on the wave vectors.  The field is the linear form above, so with E Z_a Z_b = delta_ab
        # E u(x)u(y) = sum_j a_j(x)a_j(y) + b_j(x)b_j(y) with a_j = amp cos(phase_j), b_j = amp sin(phase_j).  The phases
        # enter only through cos/sin: the identities are decided on fresh phase symbols (any wave vectors, any x, y).
        if pi == 0:
            fx = [z3.Real(f"phi_x{j}") for j in range(N)]
            fy = [z3.Real(f"phi_y{j}") for j in range(N)]
            pre = [v.e > 0]
            A2 = z3.Real("amp2")
            out.append(prove(f"{tag}/lemma: amplitude^2 == var/N", pre, amp * amp == v.e / N, T, witness_vars=wv, replay=rb, pairwise=False, deep_gen=0))
            a_, b_ = z3.Reals("lem_a lem_b")
            out.append(prove(f"{tag}/lemma: cos(a-b) == cos a cos b + sin a sin b (from the angle-addition and parity axioms)", [], cos(a_ - b_) == cos(a_) * cos(b_) + sin(a_) * sin(b_), T, witness_vars={}, replay=rb, pairwise=False, vacuity=False))
            inst = [cos(fx[j] - fy[j]) == cos(fx[j]) * cos(fy[j]) + sin(fx[j]) * sin(fy[j]) for j in range(N)]
            cov01 = z3.Sum([A2 * (cos(fx[j]) * cos(fy[j]) + sin(fx[j]) * sin(fy[j])) for j in range(N)])
            ref01 = (v.e / N) * z3.Sum([cos(fx[j] - fy[j]) for j in range(N)])
            out.append(prove(f"{tag}/E u(x)u(y) == (var/N) sum_j cos(k_j.(x-y))  (depends on x-y only)", pre + [A2 == v.e / N] + inst, cov01 == ref01, T, witness_vars=wv, replay=rb, pairwise=False, instantiate=False))
            var0 = z3.Sum([A2 * (cos(fx[j]) * cos(fx[j]) + sin(fx[j]) * sin(fx[j])) for j in range(N)])
            out.append(prove(f"{tag}/Var u(x) == var exactly, for every x and every wave vector", pre + [A2 == v.e / N], var0 == v.e, T, witness_vars=wv, replay=rb, pairwise=False, deep_gen=0))
        # nugget: independent noise with variance nugget added to every point
        base_syms = {str(t) for i_ in range(2) for t in _free_syms(lift(u0[i_]))}
        for i in range(2):
            draws = [t for t in _free_syms(lift(u[i])) if t.decl().name().startswith("N[") and str(t) not in base_syms]
            ok_indep = len(draws) == 1
            out.append(rec(f"{base}/nugget noise at x{i} uses a draw of its own", "unsat" if ok_indep else "sat", vacuity="sat", witness={}, replay={"kind": "randmeth", "inputs": rb[1]({})}, detail=str(draws)))
            if ok_indep:
                out.append(prove(f"{base}/nugget term at x{i} == sqrt(nugget) * draw  (variance var + nugget)", C, lift(u[i]) - lift(u0[i]) == sq(n.e) * draws[0], T, witness_vars=wv, replay=rb, pairwise=False))
        # directions: unit vectors with the documented parametrisation; radii through the ppf when available
        for j in range(N):
            kk = z3.Sum([lift(K[d, j]) * lift(K[d, j]) for d in range(dim)])
            rad = _radius_term(K, j, dim)
            if rad is not None:
                g, _n = passes.reduced_eq_goal(kk, rad * rad)
                out.append(prove(f"{base}/|k_{j}|^2 == radius^2  (direction has unit norm)", C, g, T, witness_vars=wv, replay=rb, pairwise=False))
    return out


def _free_syms(t):
    seen, out, stack = set(), [], [t]
    while stack:
        x = stack.pop()
        if x.get_id() in seen:
            continue
        seen.add(x.get_id())
        if z3.is_const(x) and x.decl().kind() == z3.Z3_OP_UNINTERPRETED:
            out.append(x)
        stack.extend(x.children())
    return out


def _radius_term(K, j, dim):
    """k[:, j] = rad_j * direction_j: recover rad_j as the common factor of the last component (dim 1: |k|)"""
    t = lift(K[dim - 1, j])
    if dim == 1:
        # k = rad * S, S = +-1
        if z3.is_app(t) and t.decl().kind() == z3.Z3_OP_MUL:
            ch = [c for c in t.children() if not (z3.is_const(c) and c.decl().name().startswith("S["))]
            r = ch[0]
            for c in ch[1:]:
                r = r * c
            return r
        return None
    if dim == 3:
        # last component = rad * ang2 with ang2 = -1 + 2 U  (affine in a uniform draw)
        if z3.is_app(t) and t.decl().kind() == z3.Z3_OP_MUL:
            ch = t.children()
            rest = [c for c in ch if not any(s.decl().name().startswith("U[") for s in _free_syms(c))] or None
            if rest:
                r = rest[0]
                for c in rest[1:]:
                    r = r * c
                return r
        return None
    # dim 2: components rad*cos(a), rad*sin(a)
    if z3.is_app(t) and t.decl().kind() == z3.Z3_OP_MUL:
        ch = [c for c in t.children() if not (z3.is_app(c) and c.decl().name() in ("sin", "cos"))]
        if ch:
            r = ch[0]
            for c in ch[1:]:
                r = r * c
            return r
    return None


def job_incompr(dim, tier):
    gs = c11.setup()
    import gstools.field.generator as G

    T = core.tier_timeout(tier)
    out = []
    X = [[real(f"x{a}_{i}") for i in range(1)] for a in range(dim)]
    v, l, mu = real("var"), real("len"), real("mean_u")
    wv = {str(s.e): s for r in X for s in r}
    wv.update(var=v, len=l, mean_u=mu)
    rb = ("incompr", lambda vals: {"dim": dim, "values": vals})
    tag = f"C01/IncomprRandMeth/d{dim}"

    def run():
        rngstub.reset()
        for s in (v, l):
            sym.assume(s > 0)
        model = gs.Gaussian(dim=dim, var=v, len_scale=l)
        gen = G.IncomprRandMeth(model, mean_velocity=mu, mode_no=2, seed=4)
        u = gen(rnp.array(X, dtype=object))
        return gen, u

    for pi, p in enumerate(explore(run, max_paths=16)):
        base = f"{tag}/path{pi}"
        if p.exc is not None:
            out.append(rec(base, "error", detail=f"{p.exc!r} {p.tb}"))
            continue
        gen, u = p.out
        C = p.conds + list(rngstub.FACTS)
        z1, z2, K = gen._z_1, gen._z_2, gen._cov_sample
        cos, sin, sq = theory.UF["cos"], theory.UF["sin"], theory.UF["sqrt"]
        N = 2
        nz = [z3.Sum([lift(K[d, j]) * lift(K[d, j]) for d in range(dim)]) != 0 for j in range(N)]
        for d in range(dim):
            terms = []
            for j in range(N):
                k2 = z3.Sum([lift(K[e, j]) * lift(K[e, j]) for e in range(dim)])
                ph = z3.Sum([lift(K[e, j]) * X[e][0].e for e in range(dim)])
                proj = (1 if d == 0 else 0) - lift(K[d, j]) * lift(K[0, j]) / k2
                terms.append(proj * (lift(z1[j]) * cos(ph) + lift(z2[j]) * sin(ph)))
            ref = (mu.e if d == 0 else 0) + mu.e * sq(v.e / N) * z3.Sum(terms)
            out.append(prove(f"{base}/u_{d}(x) == mean_u e1 + mean_u sqrt(var/N) sum_j (e1 - k k1/|k|^2)_{d} (Z1 cos + Z2 sin)", C + nz, lift(u[d, 0]) == ref, T, witness_vars=wv, replay=rb, pairwise=False))
    return out


def job_fourier(dim, tier, aniso=False):
    gs = c11.setup()
    import gstools.field.generator as G

    T = core.tier_timeout(tier)
    out = []
    X = [[real(f"x{a}_{i}") for i in range(2)] for a in range(dim)]
    v, l = real("var"), real("len")
    per = [real(f"p{d}") for d in range(dim)]
    an = [real(f"anis{d}") for d in range(dim - 1)] if aniso else []
    wv = {str(s.e): s for r in X for s in r}
    wv.update({str(s.e): s for s in [v, l] + per + an})
    rb = ("fourier", lambda vals: {"dim": dim, "aniso": aniso, "values": vals})
    tag = f"C01/Fourier/d{dim}" + ("/aniso" if aniso else "")
    SPEC_F = z3.Function("spectrum_S", z3.RealSort(), z3.RealSort())

    def run():
        rngstub.reset()
        for s in [v, l] + per + an:
            sym.assume(s > 0)
        UFModel = _spec_model(gs, SPEC_F)
        model = UFModel(dim=dim, var=v, len_scale=l, **({"anis": list(an)} if an else {}))
        gen = G.Fourier(model, period=list(per), mode_no=[2] * dim, seed=4)
        pos = rnp.array(X, dtype=object)
        u = gen(pos, add_nugget=False)
        return gen, u

    for pi, p in enumerate(explore(run, max_paths=16)):
        base = f"{tag}/path{pi}"
        if p.exc is not None:
            out.append(rec(base, "error", detail=f"{p.exc!r} {p.tb}"))
            continue
        gen, u = p.out
        C = p.conds + list(rngstub.FACTS)
        z1, z2, K, sf = gen._z_1, gen._z_2, gen._modes, gen._spectrum_factor
        cos, sin, sq = theory.UF["cos"], theory.UF["sin"], theory.UF["sqrt"]
        N = K.shape[1]
        two_pi = 2 * theory.PI
        dk = z3.RealVal(1)
        for d in range(dim):
            dk = dk * (two_pi / per[d].e)
            if an and d > 0:
                # isometrised coordinates: lengths along main axis d are divided by anis_d, the period becomes period_d / anis_d
                dk = dk * an[d - 1].e
        for j in range(N):
            knorm = sq(c15_seq([lift(K[d, j]) * lift(K[d, j]) for d in range(dim)]))
            out.append(prove(f"{base}/weight_{j}^2 == var * S(|k_j|) * prod(dk)  (Riemann sum of the inverse Fourier integral)", C + [SPEC_F(knorm) >= 0], lift(sf[j]) * lift(sf[j]) == v.e * SPEC_F(knorm) * dk, T, witness_vars=wv, replay=rb, pairwise=False))
        for i in range(2):
            ref = z3.Sum([lift(sf[j]) * (lift(z1[j]) * cos(z3.Sum([lift(K[d, j]) * X[d][i].e for d in range(dim)])) + lift(z2[j]) * sin(z3.Sum([lift(K[d, j]) * X[d][i].e for d in range(dim)]))) for j in range(N)])
            out.append(prove(f"{base}/u(x{i}) == sum_j w_j (Z1 cos(k.x) + Z2 sin(k.x))", C, lift(u[i]) == ref, T, witness_vars=wv, replay=rb, pairwise=False))
    return out


def c15_seq(terms):
    from .c15 import seqsum

    return seqsum(terms)


def _spec_model(gs, SPEC_F):
    class SpecModel(gs.CovModel):
        def cor(self, h):
            return rnp.exp(-rnp.asarray(h, dtype=float))

        def spectral_density(self, k):
            k = rnp.asarray(k, dtype=object)
            return rnp.frompyfunc(lambda x: Sym(SPEC_F(lift(x))), 1, 1)(k)

    return SpecModel


def jobs(tier, seed):
    nm = 4 if tier == "thorough" else 2
    js = []
    for dim in (1, 2, 3):
        js.append(Job(f"randmeth-gaussian-d{dim}", job_randmeth, dim, "Gaussian", nm, tier))
        js.append(Job(f"fourier-d{dim}", job_fourier, dim, tier))
        if dim > 1:
            js.append(Job(f"fourier-aniso-d{dim}", job_fourier, dim, tier, True))
    js.append(Job("randmeth-stable-d2", job_randmeth, 2, "Stable", nm, tier))
    for dim in (2, 3):
        js.append(Job(f"incompr-d{dim}", job_incompr, dim, tier))
    return js


# --------------------------------------------------------------------------
# replays: compare with the defining sums using the generator's own wave vectors and amplitudes


def _val(v, k, d):
    x = v.get(k)
    return float(x) if x is not None else d


def replay_randmeth(inputs):
    import numpy as np
    import gstools as gs

    dim, v = int(inputs["dim"]), inputs.get("values") or {}
    X = np.array([[_val(v, f"x{a}_{i}", 0.4 + 0.9 * i - 0.3 * a) for i in range(2)] for a in range(dim)])
    var, l, n = abs(_val(v, "var", 1.7)) or 1.7, abs(_val(v, "len", 1.3)) or 1.3, abs(_val(v, "nug", 0.4)) or 0.4
    model = getattr(gs, inputs.get("model", "Gaussian"))(dim=dim, var=var, len_scale=l, nugget=n)
    gen = gs.field.generator.RandMeth(model, mode_no=40, seed=4)
    u0 = gen(X, add_nugget=False)
    ph = gen._cov_sample.T @ X
    ref = np.sqrt(var / 40) * (gen._z_1[:, None] * np.cos(ph) + gen._z_2[:, None] * np.sin(ph)).sum(axis=0)
    bad = []
    if not np.allclose(u0, ref, rtol=1e-9, atol=1e-11):
        bad.append("field != defining sum")
    # nugget noise: variance nugget, independent of the modes (sample check over many draws of one generator)
    d = np.concatenate([gen(np.zeros((dim, 2000))) - gen(np.zeros((dim, 2000)), add_nugget=False)])
    if abs(np.var(d) - n) > 0.15 * n:
        bad.append(f"nugget variance {np.var(d)} != {n}")
    from gstools.random import RNG

    sph = RNG(11).sample_sphere(dim, 200)
    if not np.allclose(np.linalg.norm(sph.reshape(dim, -1), axis=0), 1.0, rtol=1e-12):
        bad.append("sample_sphere directions are not unit vectors")
    return (not bad), f"dim={dim} failing={bad}"


def replay_incompr(inputs):
    import numpy as np
    import gstools as gs

    dim, v = int(inputs["dim"]), inputs.get("values") or {}
    X = np.array([[_val(v, f"x{a}_0", 0.4 - 0.3 * a)] for a in range(dim)])
    var, l, mu = abs(_val(v, "var", 1.7)) or 1.7, abs(_val(v, "len", 1.3)) or 1.3, _val(v, "mean_u", 1.5)
    gen = gs.field.generator.IncomprRandMeth(gs.Gaussian(dim=dim, var=var, len_scale=l), mean_velocity=mu, mode_no=30, seed=4)
    u = gen(X)
    K = gen._cov_sample
    ph = K.T @ X
    amp = gen._z_1[:, None] * np.cos(ph) + gen._z_2[:, None] * np.sin(ph)
    k2 = (K**2).sum(axis=0)
    ref = np.zeros((dim, 1))
    for d in range(dim):
        proj = (1.0 if d == 0 else 0.0) - K[d] * K[0] / k2
        ref[d] = (mu if d == 0 else 0.0) + mu * np.sqrt(var / 30) * (proj[:, None] * amp).sum(axis=0)
    return bool(np.allclose(u, ref, rtol=1e-9, atol=1e-11)), f"u={u.ravel().tolist()} ref={ref.ravel().tolist()}"


def replay_fourier(inputs):
    import numpy as np
    import gstools as gs

    dim, v = int(inputs["dim"]), inputs.get("values") or {}
    X = np.array([[_val(v, f"x{a}_{i}", 0.4 + 0.9 * i - 0.3 * a) for i in range(2)] for a in range(dim)])
    var, l = abs(_val(v, "var", 1.7)) or 1.7, abs(_val(v, "len", 1.3)) or 1.3
    per = [abs(_val(v, f"p{d}", 5.0 + d)) or 5.0 for d in range(dim)]
    anis = [abs(_val(v, f"anis{d}", 0.4 + 0.3 * d)) or 0.4 for d in range(dim - 1)] if inputs.get("aniso") else []
    model = gs.Gaussian(dim=dim, var=var, len_scale=l, **({"anis": anis} if anis else {}))
    gen = gs.field.generator.Fourier(model, period=per, mode_no=[6] * dim, seed=4)
    u = gen(X, add_nugget=False)
    K = gen._modes
    ph = K.T @ X
    w = np.sqrt(model.spectrum(np.linalg.norm(K, axis=0)) * np.prod(2 * np.pi / np.array(per)) * np.prod(anis))
    ref = (w[:, None] * (gen._z_1[:, None] * np.cos(ph) + gen._z_2[:, None] * np.sin(ph))).sum(axis=0)
    bad = []
    if not np.allclose(gen._spectrum_factor, w, rtol=1e-9):
        bad.append("weights")
    if not np.allclose(u, ref, rtol=1e-9, atol=1e-12):
        bad.append("field")
    return (not bad), f"dim={dim} failing={bad}"


REPLAY = {"randmeth": replay_randmeth, "incompr": replay_incompr, "fourier": replay_fourier}

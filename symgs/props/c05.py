"""C05  Kriging estimates and variances solve the kriging equations."""
import itertools

import numpy as rnp
import z3

from .. import core, kstub, sym, theory, vario
from ..core import Job, prove, rec
from ..sym import Sym, explore, lift, real

FILES = ["src/gstools/krige/base.py", "src/gstools/krige/methods.py", "src/gstools/krige/tools.py", "src/gstools/krige/krigesum.pyx", "src/gstools/field/base.py", "src/gstools/normalizer/tools.py", "src/gstools/tools/misc.py"]

SPEC = {
    "level": "model_checking",
    "engine": "E1 (Krige classes) + E2 (krigesum.pyx interpreted from source)",
    "files": FILES,
    "functions": [
        "gstools.krige.base.Krige.__init__/set_condition/_get_krige_mat/_get_krige_vecs/_krige_cond/__call__/_summate/get_mean/_pre_ext_drift/_get_dists",
        "gstools.krige.methods.Simple/Ordinary/Universal/ExtDrift/Detrended",
        "gstools.krige.tools.set_condition/get_drift_functions",
        "gstools.field.base.Field.pre_pos/post_field",
        "krigesum.pyx: calc_field_krige, calc_field_krige_and_variance",
    ],
    "bounds": {
        "quick": {"dim": "1-2", "conditioning points": "2 (3 for ordinary)", "targets": "2", "drift terms": "<=2 (linear drift), 1 external drift", "values": "all symbolic (positions, data, model parameters, anisotropy, rotation, errors)"},
        "thorough": {"dim": "1-3", "conditioning points": "3", "targets": "3"},
    },
    "stubs": [
        "scipy.linalg.inv/pinv/pinvh -> symbolic matrix M, logged with the matrix K it inverts; M K = K M = I assumed only in the obligations that say so (non-singular systems)",
        "scipy.spatial.distance.cdist -> sqrt(sum of squared differences)",
        "model correlation -> uninterpreted function of the non-dimensional lag (any covariance model)",
        "normalizer: identity or a real LogNormal / BoxCox instance",
    ],
    "oracle": "textbook kriging system [[C+E, F^T],[F, 0]] w = [c0; f0] (Wackernagel 2003; Chiles & Delfiner 2009): estimate = z^T K^-1 k, variance = sill - k^T K^-1 k",
    "outside": ["accuracy / conditioning of LAPACK's (pseudo-)inverse", "fit_variogram=True / fit_normalizer=True paths", "invariance under permutation of conditioning points (needs uniqueness of the inverse: follows from the system identity, not separately decided)"],
    "assumptions": ["floats read as reals", "model parameters inside bounds; anisotropy > 0"],
}

JOB_TIMEOUT = {"quick": 400, "thorough": 3000}


def _setup():
    from .. import npx

    npx.install()
    import gstools as gs

    kb = kstub.install()
    return gs, kb


VARIANTS = ["simple", "ordinary", "universal", "extdrift", "detrended", "general"]
# "general": Krige(mean, trend function, LogNormal normalizer) -- the order detrend -> normalise -> remove mean and its inverse


class Recorder:
    def __init__(self):
        self.vecs = []


def build(gs, variant, dim, ncond, sy, exact=False, cond_err="nugget", normalizer=None, aniso=False):
    """construct the kriging object on symbolic data; returns (krige, info)"""
    UFModel = kstub.uf_model_class()
    kw = {}
    if aniso and dim > 1:
        kw["anis"] = sy["anis"]
        kw["angles"] = sy["angles"]
    model = UFModel(dim=dim, var=sy["var"], len_scale=sy["len"], nugget=sy["nug"], **kw)
    cp = [list(r) for r in sy["cpos"]]
    cv = list(sy["cval"])
    common = dict(exact=exact, cond_err=cond_err)
    if variant == "simple":
        k = gs.krige.Simple(model, cp, cv, mean=sy["mean"], normalizer=normalizer, trend=sy.get("trend_c"), **common)
    elif variant == "ordinary":
        k = gs.krige.Ordinary(model, cp, cv, normalizer=normalizer, trend=sy.get("trend_c"), **common)
    elif variant == "universal":
        k = gs.krige.Universal(model, cp, cv, "linear", normalizer=normalizer, **common)
    elif variant == "extdrift":
        k = gs.krige.ExtDrift(model, cp, cv, list(sy["cext"]), normalizer=normalizer, **common)
    elif variant == "general":
        k = gs.krige.Krige(model, cp, cv, mean=sy["mean"], trend=sy["trend_fn"], normalizer=gs.normalizer.LogNormal(), unbiased=False, **common)
    else:
        k = gs.krige.Detrended(model, cp, cv, sy["trend_fn"], **common)
    return k, model


def symbols(dim, ncond, ntar):
    sy = {
        "var": real("var"),
        "len": real("len"),
        "nug": real("nug"),
        "mean": real("mean"),
        "trend_c": None,
        "cpos": [[real(f"c{a}_{i}") for i in range(ncond)] for a in range(dim)],
        "cval": [real(f"z{i}") for i in range(ncond)],
        "tpos": [[real(f"t{a}_{i}") for i in range(ntar)] for a in range(dim)],
        "cext": [real(f"ce{i}") for i in range(ncond)],
        "text": [real(f"te{i}") for i in range(ntar)],
        "anis": [real(f"an{i}") for i in range(dim - 1)],
        "angles": [real(f"ang{i}") for i in range(dim * (dim - 1) // 2)],
        "err": [real(f"err{i}") for i in range(ncond)],
    }
    TR = z3.Function("trend_fn", *([z3.RealSort()] * (dim + 1)))

    def trend_fn(*p):
        arrs = [rnp.asarray(a, dtype=object).reshape(-1) for a in p]
        o = rnp.empty(arrs[0].shape, dtype=object)
        for i in range(o.size):
            o[i] = Sym(TR(*[lift(a[i]) for a in arrs]))
        return o

    sy["trend_fn"] = trend_fn
    sy["TR"] = TR
    return sy


def wvars(sy):
    w = {}
    for k, v in sy.items():
        if isinstance(v, Sym):
            w[str(v.e)] = v
        elif isinstance(v, list):
            for x in v:
                if isinstance(x, Sym):
                    w[str(x.e)] = x
                elif isinstance(x, list):
                    for y in x:
                        w[str(y.e)] = y
    return w


def iso_matrix(dim, sy, aniso):
    """reference isometrisation: diag(1, 1/anis) R^T from the documented convention (C12)"""
    from .c12 import _ref_rotation

    if not aniso or dim == 1:
        return None
    R = _ref_rotation(dim, [a.e for a in sy["angles"]])
    rows = []
    for k in range(dim):
        row = [R[j][k] if k == 0 else R[j][k] / sy["anis"][k - 1].e for j in range(dim)]
        rows.append(row)
    return rows


def iso_point(A, p):
    if A is None:
        return p
    return [z3.Sum([A[k][j] * p[j] for j in range(len(p))]) for k in range(len(p))]


def ref_cov(sy, d, nugget_at_zero=False):
    """covariance of a distance term: var * cor(d * rescale / len) ; UFModel has default rescale 1"""
    h = d / sy["len"].e
    c = sy["var"].e * kstub.COR(h)
    if nugget_at_zero:
        # cov_nugget: sill at (numerically) zero lag
        return z3.If(z3.And(d <= z3.RealVal("1/100000000"), d >= -z3.RealVal("1/100000000")), sy["var"].e + sy["nug"].e, c)
    return c


def dist_term(p, q):
    s = z3.RealVal(0)
    for a, b in zip(p, q):
        s = s + (a - b) * (a - b)
    return theory.UF["sqrt"](s)


def job_system(variant, dim, ncond, ntar, exact, errmode, aniso, tier):
    gs, kb = _setup()
    T = core.tier_timeout(tier)
    sy = symbols(dim, ncond, ntar)
    wv = wvars(sy)
    rb = ("system", lambda v: {"variant": variant, "dim": dim, "ncond": ncond, "ntar": ntar, "exact": exact, "errmode": errmode, "aniso": aniso, "values": v})
    tag = f"C05/{variant}/d{dim}c{ncond}t{ntar}{'/exact' if exact else ''}/err={errmode}{'/aniso' if aniso else ''}"
    out = []
    captured = {}

    def run():
        kstub.reset()
        for s in (sy["var"], sy["len"]):
            sym.assume(s > 0)
        sym.assume(sy["nug"] >= 0)
        for a in sy["anis"]:
            sym.assume(a > 0)
        for e in sy["err"]:
            sym.assume(e >= 0)
        cond_err = "nugget" if errmode == "nugget" else (sy["err"][0] if errmode == "scalar" else list(sy["err"]))
        if variant == "general":
            for i in range(ncond):  # domain of the log-normaliser: detrended data positive
                sym.assume(sy["cval"][i] > Sym(sy["TR"](*[sy["cpos"][a][i].e for a in range(dim)])))
        k, model = build(gs, variant, dim, ncond, sy, exact=exact, cond_err=cond_err, aniso=aniso)
        # capture the right-hand sides handed to the kernel
        vecs = []
        orig = kb.calc_field_krige_and_variance_c

        def cap(mat, kv, cond, num_threads=None):
            vecs.append((rnp.array(kv, dtype=object).copy(), rnp.array(cond, dtype=object).copy()))
            return orig(mat, kv, cond, num_threads)

        kb.calc_field_krige_and_variance_c = cap
        try:
            kw = {"ext_drift": list(sy["text"])} if variant == "extdrift" else {}
            fld, var = k([list(r) for r in sy["tpos"]], return_var=True, **kw)
            captured["iso_c"] = rnp.array(k._krige_pos, dtype=object).copy()
            captured["iso_t"] = rnp.array(model.isometrize(rnp.array([list(r) for r in sy["tpos"]], dtype=object)), dtype=object).copy()
            # chunked evaluation must agree
            fld_c, var_c = k([list(r) for r in sy["tpos"]], return_var=True, chunk_size=1, **kw)
            captured["n_vecs_c1"] = rnp.array(len(vecs))
            fld_only = rnp.array(k([list(r) for r in sy["tpos"]], return_var=False, **kw), dtype=object).ravel().copy()
            if ntar >= 3:
                # a chunk size that does not divide the number of targets (trailing partial chunk)
                f2_, v2_ = k([list(r) for r in sy["tpos"]], return_var=True, chunk_size=2, **kw)
                captured["fld_c2"] = rnp.array(f2_, dtype=object).ravel().copy()
                captured["var_c2"] = rnp.array(v2_, dtype=object).ravel().copy()
        finally:
            kb.calc_field_krige_and_variance_c = orig
        K, M = kstub.INV_LOG[0]
        return K, M, vecs, fld, var, fld_c, var_c, k.krige_size, len(kstub.INV_LOG), fld_only, {kk: vv.copy() for kk, vv in captured.items()}

    paths = explore(run, max_paths=64)
    n_ok = 0
    for pi, p in enumerate(paths):
        base = f"{tag}/path{pi}"
        if p.exc is not None:
            out.append(rec(base, "error", detail=f"{p.exc!r} {p.tb}"))
            continue
        n_ok += 1
        K, M, vecs, fld, var, fld_c, var_c, ksize, ninv, fld_only, captured = p.out
        C = p.conds
        A = iso_matrix(dim, sy, aniso)
        cpts = [[sy["cpos"][a][i].e for a in range(dim)] for i in range(ncond)]
        tpts = [[sy["tpos"][a][i].e for a in range(dim)] for i in range(ntar)]
        ic = [iso_point(A, q) for q in cpts]
        it = [iso_point(A, q) for q in tpts]
        unbiased = variant in ("ordinary", "universal", "extdrift")
        drifts = []
        if variant == "universal":
            drifts = [(lambda q, a=a: q[a]) for a in range(dim)]
        n_ext = 1 if variant == "extdrift" else 0
        size = ncond + int(unbiased) + len(drifts) + n_ext
        if ksize != size or K.shape != (size, size):
            out.append(rec(base + "/system size", "sat", witness={}, replay={"kind": "system", "inputs": rb[1]({})}, detail=f"{ksize} {K.shape} expected {size}"))
            continue
        # ---- (a) assembled matrix == textbook block matrix
        def errv(i):
            if errmode == "nugget":
                return sy["nug"].e
            return sy["err"][0].e if errmode == "scalar" else sy["err"][i].e

        from .. import passes

        hints = []
        if aniso and dim > 1:
            # lemma: the library's isometrised positions equal diag(1,1/anis) R^T x (documented convention);
            # proved per component modulo the circle ideals, then used as hints for the covariance entries
            for nm, lib, refp in (("cond", captured["iso_c"], ic), ("target", captured["iso_t"], it)):
                for q in range(len(refp)):
                    for a_ in range(dim):
                        g, _n = passes.reduced_eq_goal(lift(lib[a_, q]), refp[q][a_])
                        out.append(prove(f"{base}/lemma: isometrised {nm} point {q}[{a_}]==diag(1,1/anis) R^T x", C, g, T, witness_vars=wv, replay=rb, pairwise=False))
            # composition: the covariance entries are then stated on the library's own isometrised coordinates
            ic = [[lift(captured["iso_c"][a_, q]) for a_ in range(dim)] for q in range(ncond)]
            it = [[lift(captured["iso_t"][a_, q]) for a_ in range(dim)] for q in range(ntar)]
        for i in range(size):
            for j in range(size):
                if i < ncond and j < ncond:
                    ref = ref_cov(sy, dist_term(ic[i], ic[j])) + (errv(i) if i == j else 0)
                elif i >= ncond and j >= ncond:
                    ref = z3.RealVal(0)
                else:
                    r_, c_ = (i, j) if i >= ncond else (j, i)  # r_ = constraint row, c_ = data column
                    q = r_ - ncond
                    if unbiased and q == 0:
                        ref = z3.RealVal(1)
                    else:
                        q -= int(unbiased)
                        if q < len(drifts):
                            ref = drifts[q](cpts[c_])
                        else:
                            ref = sy["cext"][c_].e
                out.append(prove(f"{base}/K[{i},{j}]==textbook", C, lift(K[i, j]) == ref, T, witness_vars=wv, replay=rb, pairwise=False, extra=hints))
        # ---- (b) right-hand sides
        kv_all = vecs[0][0]
        cond_vec = vecs[0][1]
        for t in range(ntar):
            for i in range(size):
                if i < ncond:
                    ref = ref_cov(sy, dist_term(ic[i], it[t]), nugget_at_zero=exact)
                else:
                    q = i - ncond
                    if unbiased and q == 0:
                        ref = z3.RealVal(1)
                    else:
                        q -= int(unbiased)
                        ref = drifts[q](tpts[t]) if q < len(drifts) else sy["text"][t].e
                if aniso and i >= ncond and variant == "universal":
                    g, _n = passes.reduced_eq_goal(lift(kv_all[i, t]), ref)
                    out.append(prove(f"{base}/rhs[{i},{t}]==textbook (drift at original coordinates)", C, g, T, witness_vars=wv, replay=rb, pairwise=False))
                else:
                    out.append(prove(f"{base}/rhs[{i},{t}]==textbook", C, lift(kv_all[i, t]) == ref, T, witness_vars=wv, replay=rb, pairwise=False, extra=hints))
        # ---- (b') every chunk of the chunked call is handed the same right-hand side column (and the same data vector)
        nfull = 1
        chunks = vecs[nfull : int(captured["n_vecs_c1"])]
        if len(chunks) != ntar or any(c_[0].shape[1] != 1 for c_ in chunks):
            out.append(rec(base + "/chunk_size=1 gives one kernel call per target", "sat", witness={}, replay={"kind": "system", "inputs": rb[1]({})}, detail=f"{[c_[0].shape for c_ in chunks]}"))
        else:
            for t in range(ntar):
                for i in range(size):
                    out.append(prove(f"{base}/chunk[{t}] rhs[{i}]==unchunked rhs[{i},{t}]", C, lift(chunks[t][0][i, 0]) == lift(kv_all[i, t]), T, witness_vars=wv, replay=rb, pairwise=False))
                    out.append(prove(f"{base}/chunk[{t}] data[{i}]==unchunked data[{i}]", C, lift(chunks[t][1][i]) == lift(cond_vec[i]), T, witness_vars=wv, replay=rb, pairwise=False))
        # ---- (f) prepared data
        for i in range(size):
            if i < ncond:
                tr = sy["TR"](*cpts[i]) if variant in ("detrended", "general") else z3.RealVal(0)
                mean = sy["mean"].e if variant in ("simple", "general") else z3.RealVal(0)
                ref = sy["cval"][i].e - tr
                if variant == "general":
                    ref = theory.UF["log"](ref)
                ref = ref - mean
            else:
                ref = z3.RealVal(0)
            out.append(prove(f"{base}/cond[{i}]==normalize(val-trend)-mean, zero padded", C, lift(cond_vec[i]) == ref, T, witness_vars=wv, replay=rb, pairwise=False))
        # ---- (c) estimate and variance in terms of M (the inverse the library computed), textbook rhs and data
        Mz = [[lift(M[i, j]) for j in range(size)] for i in range(size)]
        for t in range(ntar):
            kz = [lift(kv_all[i, t]) for i in range(size)]
            cz = [lift(cond_vec[i]) for i in range(size)]
            est = z3.Sum([cz[i] * Mz[i][j] * kz[j] for i in range(size) for j in range(size)])
            qf = z3.Sum([kz[i] * Mz[i][j] * kz[j] for i in range(size) for j in range(size)])
            tr = sy["TR"](*tpts[t]) if variant in ("detrended", "general") else z3.RealVal(0)
            mean = sy["mean"].e if variant in ("simple", "general") else z3.RealVal(0)
            if variant == "general":
                out.append(prove(f"{base}/estimate[{t}]==trend+denormalize(mean+z^T M k)", C, lift(fld[t]) == tr + theory.UF["exp"](mean + est), T, witness_vars=wv, replay=rb, pairwise=False))
            else:
                out.append(prove(f"{base}/estimate[{t}]==trend+mean+z^T M k", C, lift(fld[t]) == tr + mean + est, T, witness_vars=wv, replay=rb, pairwise=False))
            sill = sy["var"].e + sy["nug"].e
            out.append(prove(f"{base}/variance[{t}]==max(sill-k^T M k,0)", C, lift(var[t]) == z3.If(sill - qf >= 0, sill - qf, z3.RealVal(0)), T, witness_vars=wv, replay=rb, pairwise=False))
            out.append(prove(f"{base}/chunked estimate[{t}]==unchunked", C, lift(fld_c[t]) == lift(fld[t]), T, witness_vars=wv, replay=rb, pairwise=False))
            out.append(prove(f"{base}/estimate[{t}] with return_var=False == estimate with the variance", C, lift(fld_only[t]) == lift(fld[t]), T, witness_vars=wv, replay=rb, pairwise=False))
            if "fld_c2" in captured:
                for nm_, a_, b_ in (("estimate", captured["fld_c2"][t], fld[t]), ("variance", captured["var_c2"][t], var[t])):
                    if a_ is None or (isinstance(a_, float) and a_ != a_):
                        out.append(prove(f"{base}/chunk_size=2: {nm_}[{t}] evaluated (not left uninitialised)", C, z3.BoolVal(False), T, witness_vars=wv, replay=rb, pairwise=False, vacuity=False))
                    else:
                        out.append(prove(f"{base}/chunk_size=2: {nm_}[{t}]==unchunked", C, lift(a_) == lift(b_), T, witness_vars=wv, replay=rb, pairwise=False))
            out.append(prove(f"{base}/chunked variance[{t}]==unchunked", C, lift(var_c[t]) == lift(var[t]), T, witness_vars=wv, replay=rb, pairwise=False))
        if ninv != 1:
            out.append(rec(base + "/matrix inverted once per set_condition", "sat", witness={}, replay={"kind": "system", "inputs": rb[1]({})}, detail=f"{ninv} inversions"))
    if not n_ok:
        out.append(rec(tag + "/reach", "vacuous"))
    return out, {"variant": variant, "paths": len(paths)}


def job_unbiased(variant, dim, ncond, tier):
    """with M K = K M = I: constants (ordinary) and drift monomials (universal) are reproduced; linear in the data"""
    gs, kb = _setup()
    T = core.tier_timeout(tier)
    ntar = 1
    sy = symbols(dim, ncond, ntar)
    wv = wvars(sy)
    c0, c1, lam = real("c0"), real("c1"), real("lam")
    wv.update(c0=c0, c1=c1, lam=lam)
    rb = ("unbiased", lambda v: {"variant": variant, "dim": dim, "ncond": ncond, "values": v})
    tag = f"C05/{variant}/d{dim}c{ncond}/unbiasedness"
    out = []

    def run():
        kstub.reset()
        for s in (sy["var"], sy["len"]):
            sym.assume(s > 0)
        sym.assume(sy["nug"] >= 0)
        if variant == "ordinary":
            sy["cval"] = [c0] * ncond
        else:
            # data that follow a linear drift exactly: z = c0 + c1 * x_0
            sy["cval"] = [c0 + c1 * sy["cpos"][0][i] for i in range(ncond)]
        k, model = build(gs, variant, dim, ncond, sy)
        fld, var = k([list(r) for r in sy["tpos"]], return_var=True)
        mean_est = k.get_mean(post_process=False) if variant == "ordinary" else None
        mean_fld = k([list(r) for r in sy["tpos"]], only_mean=True) if variant == "ordinary" else None
        K, M = kstub.INV_LOG[0]
        return K, M, fld, mean_est, mean_fld

    for pi, p in enumerate(explore(run, max_paths=32)):
        base = f"{tag}/path{pi}"
        if p.exc is not None:
            out.append(rec(base, "error", detail=f"{p.exc!r} {p.tb}"))
            continue
        K, M, fld, mean_est, mean_fld = p.out
        inv = kstub.inverse_axioms(K, M)
        if variant == "ordinary":
            out.append(prove(base + "/constant data are reproduced at every target", p.conds + inv, lift(fld[0]) == c0.e, T, witness_vars=wv, replay=rb, pairwise=False))
            out.append(prove(base + "/get_mean(constant data)==constant", p.conds + inv, lift(mean_est) == c0.e, T, witness_vars=wv, replay=rb, pairwise=False))
            out.append(prove(base + "/only_mean field==get_mean(post_process=False)", p.conds, lift(mean_fld[0]) == lift(mean_est), T, witness_vars=wv, replay=rb, pairwise=False))
        else:
            want = c0.e + c1.e * sy["tpos"][0][0].e
            # consequences of K M = I applied to the right-hand side k (w := M k  =>  K w = k), pre-multiplied
            # by the drift coefficients: they make the goal a linear combination of monomials
            n = K.shape[0]
            kv = [ref_cov(sy, dist_term([sy["cpos"][a][i].e for a in range(dim)], [sy["tpos"][a][0].e for a in range(dim)])) for i in range(ncond)] + [z3.RealVal(1)] + [sy["tpos"][a][0].e for a in range(dim)]
            w = [z3.Sum([lift(M[i, j]) * kv[j] for j in range(n)]) for i in range(n)]
            hints = []
            for r_ in range(ncond, n):
                row = z3.Sum([lift(K[r_, l]) * w[l] for l in range(n)])
                hints += [row == kv[r_], c0.e * row == c0.e * kv[r_], c1.e * row == c1.e * kv[r_]]
            out.append(prove(base + "/data on a linear drift are reproduced", p.conds + inv, lift(fld[0]) == want, T, witness_vars=wv, replay=rb, pairwise=False, extra=hints, note="hints: rows of K(Mk)=k (consequences of the inverse axioms)"))
    return out


def job_linearity(variant, dim, ncond, tier):
    gs, kb = _setup()
    T = core.tier_timeout(tier)
    sy = symbols(dim, ncond, 1)
    z2 = [real(f"y{i}") for i in range(ncond)]
    lam = real("lam")
    wv = wvars(sy)
    wv.update({str(s.e): s for s in z2 + [lam]})
    rb = ("linearity", lambda v: {"variant": variant, "dim": dim, "ncond": ncond, "values": v})
    out = []

    def run():
        kstub.reset()
        for s in (sy["var"], sy["len"]):
            sym.assume(s > 0)
        sym.assume(sy["nug"] >= 0)
        res = []
        z1 = list(sy["cval"])
        mu = sy["mean"] if variant == "simple" else 0.0
        # linear in the (detrended, mean-free) data: data = mean + deviation
        for data in ([mu + a for a in z1], [mu + b for b in z2], [mu + lam * a + b for a, b in zip(z1, z2)]):
            sy["cval"] = data
            k, model = build(gs, variant, dim, ncond, sy)
            res.append(k([list(r) for r in sy["tpos"]], return_var=False)[0])
        sy["cval"] = z1
        Ms = [m for _, m in kstub.INV_LOG]
        return res, Ms

    for pi, p in enumerate(explore(run, max_paths=32)):
        base = f"C05/{variant}/d{dim}c{ncond}/linearity/path{pi}"
        if p.exc is not None:
            out.append(rec(base, "error", detail=f"{p.exc!r} {p.tb}"))
            continue
        res, Ms = p.out
        # the three objects invert the same matrix: identify their inverses (same function of the same K)
        same = []
        for M2 in Ms[1:]:
            n = M2.shape[0]
            same += [lift(M2[i, j]) == lift(Ms[0][i, j]) for i in range(n) for j in range(n)]
        off = sy["mean"].e if variant == "simple" else z3.RealVal(0)
        goal = (lift(res[2]) - off) == lam.e * (lift(res[0]) - off) + (lift(res[1]) - off)
        out.append(prove(base + "/estimate(lam z1+z2)-mean==lam(estimate z1-mean)+(estimate z2-mean)", p.conds + same, goal, T, witness_vars=wv, replay=rb, pairwise=False))
    return out


def job_chunks(tier):
    """the chunk slices (i*c, min(n,(i+1)c)), i < ceil(n/c) partition [0,n) -- unbounded LIA"""
    T = core.tier_timeout(tier)
    n, c, i, j, x = z3.Ints("n c i j x")
    k = z3.Int("chunk_no")
    pre = [n >= 1, c >= 1, k * c >= n, (k - 1) * c < n]  # k = ceil(n/c)
    lo = lambda t: t * c
    hi = lambda t: z3.If(n <= (t + 1) * c, n, (t + 1) * c)
    out = []
    rb = ("chunks", lambda v: {"values": v})
    wv = {"n": z3.ToReal(n), "c": z3.ToReal(c)}
    # cover: every x in [0,n) lies in the chunk with index x div c, which is < k
    q = z3.Int("q")
    out.append(prove("C05/chunks/cover: every target index lies in some chunk", pre + [x >= 0, x < n, q * c <= x, x < (q + 1) * c], z3.And(q >= 0, q < k, lo(q) <= x, x < hi(q)), T, witness_vars=wv, replay=rb, instantiate=False))
    out.append(prove("C05/chunks/disjoint: chunks do not overlap", pre + [i >= 0, j >= 0, i < j, j < k, x >= lo(i), x < hi(i)], z3.Not(z3.And(x >= lo(j), x < hi(j))), T, witness_vars=wv, replay=rb, instantiate=False))
    out.append(prove("C05/chunks/within range and non-empty", pre + [i >= 0, i < k], z3.And(lo(i) >= 0, hi(i) <= n, lo(i) < hi(i)), T, witness_vars=wv, replay=rb, instantiate=False))
    # the library computes chunk_no = int(ceil(n / c)) in double arithmetic: exact for n, c < 2^53 when the quotient
    # is representable; checked concretely on boundary values
    import math

    bad = []
    for nn in (1, 2, 3, 7, 10, 999983, 2**31 - 1, 2**40 + 1):
        for cc in (1, 2, 3, 7, 10, 4096, nn, nn + 1, max(nn - 1, 1)):
            if int(math.ceil(nn / cc)) != -(-nn // cc):
                bad.append((nn, cc))
    out.append(rec("C05/chunks/int(ceil(n/c)) in doubles == integer ceiling on boundary values", "unsat" if not bad else "sat", vacuity="sat", witness={}, replay={"kind": "chunks", "inputs": {"values": {}}}, detail=str(bad)))
    return out


def jobs(tier, seed):
    big = tier == "thorough"
    js = []
    dims = (1, 2, 3) if big else (1, 2)
    js.append(Job("system-general-d1", job_system, "general", 1, 2, 1, False, "nugget", False, tier))
    if big:
        js.append(Job("system-general-d2", job_system, "general", 2, 2, 1, False, "nugget", False, tier))
        js.append(Job("system-general-exact", job_system, "general", 1, 2, 1, True, "nugget", False, tier))
    for variant in VARIANTS[:5]:
        for dim in dims:
            nc = 3 if (big or (variant == "ordinary" and dim == 1)) else 2
            js.append(Job(f"system-{variant}-d{dim}", job_system, variant, dim, nc, 3 if big else 2, False, "nugget", False, tier))
        js.append(Job(f"system-{variant}-exact", job_system, variant, 1, 2, 2, True, "nugget", False, tier))
    js.append(Job("system-simple-chunk2", job_system, "simple", 1, 2, 3, False, "nugget", False, tier))
    js.append(Job("system-ordinary-errscalar", job_system, "ordinary", 1, 2, 2, False, "scalar", False, tier))
    js.append(Job("system-simple-errvector", job_system, "simple", 2, 2, 2, False, "vector", False, tier))
    js.append(Job("system-universal-aniso", job_system, "universal", 2, 2, 2, False, "nugget", True, tier))
    js.append(Job("system-simple-aniso", job_system, "simple", 2, 2, 2, False, "nugget", True, tier))
    js.append(Job("unbiased-ordinary-d1", job_unbiased, "ordinary", 1, 2, tier))
    js.append(Job("unbiased-ordinary-d2", job_unbiased, "ordinary", 2, 2, tier))
    js.append(Job("unbiased-universal-d1", job_unbiased, "universal", 1, 2, tier))
    for variant in ("simple", "ordinary", "universal"):
        js.append(Job(f"linearity-{variant}", job_linearity, variant, 1, 2, tier))
    js.append(Job("chunks", job_chunks, tier))
    return js


# --------------------------------------------------------------------------
# replay: compare the library with a direct solve of the textbook system


def _val(v, k, d):
    x = v.get(k)
    return float(x) if x is not None else d


def _concrete(inputs, ntar=None):
    import numpy as np

    v = inputs.get("values") or {}
    dim, ncond = int(inputs["dim"]), int(inputs["ncond"])
    ntar = int(inputs.get("ntar", ntar or 1))
    cp = np.array([[_val(v, f"c{a}_{i}", 0.8 * i + 0.35 * a * (i + 1)) for i in range(ncond)] for a in range(dim)])
    cv = np.array([_val(v, f"z{i}", 0.6 * i * i - 0.4) for i in range(ncond)])
    tp = np.array([[_val(v, f"t{a}_{i}", 0.37 + 0.9 * i - 0.21 * a) for i in range(ntar)] for a in range(dim)])
    par = dict(var=abs(_val(v, "var", 1.4)) or 1.4, len_scale=abs(_val(v, "len", 1.7)) or 1.7, nugget=abs(_val(v, "nug", 0.15)))
    # a witness leaves the variables its obligation does not mention at arbitrary (often equal) values:
    # coincident conditioning points (a singular system, outside the property) are replaced by generic ones
    if len({tuple(np.round(cp[:, i], 9)) for i in range(ncond)}) < ncond:
        cp = np.array([[0.8 * i + 0.35 * a * (i + 1) for i in range(ncond)] for a in range(dim)])
    if np.allclose(cv, cv[0]):
        cv = np.array([0.6 * i * i - 0.4 for i in range(ncond)])
    return v, dim, ncond, ntar, cp, cv, tp, par


def replay_system(inputs):
    import warnings

    import numpy as np

    warnings.simplefilter("ignore")
    import gstools as gs

    v, dim, ncond, ntar, cp, cv, tp, par = _concrete(inputs)
    variant, exact, errmode, aniso = inputs["variant"], bool(inputs["exact"]), inputs["errmode"], bool(inputs["aniso"])
    if len({tuple(np.round(cp[:, i], 9)) for i in range(ncond)}) < ncond:
        return True, "precondition (coincident conditioning points: singular system)"
    kw = {}
    if aniso and dim > 1:
        kw["anis"] = [abs(_val(v, f"an{i}", 0.6)) or 0.6 for i in range(dim - 1)]
        kw["angles"] = [_val(v, f"ang{i}", 0.5) for i in range(dim * (dim - 1) // 2)]
    model = gs.Exponential(dim=dim, **par, **kw)
    err = [abs(_val(v, f"err{i}", 0.1 + 0.05 * i)) for i in range(ncond)]
    cond_err = "nugget" if errmode == "nugget" else (err[0] if errmode == "scalar" else err)
    if exact and errmode != "nugget":
        return True, "precondition"
    mean = _val(v, "mean", 0.3)
    cext = np.array([_val(v, f"ce{i}", 0.5 + 0.3 * i) for i in range(ncond)])
    text = np.array([_val(v, f"te{i}", 0.2 + 0.7 * i) for i in range(ntar)])
    trend = lambda *p: 0.3 + 0.2 * sum(np.asarray(a) for a in p)
    common = dict(exact=exact, cond_err=cond_err)
    if variant == "simple":
        k = gs.krige.Simple(model, cp, cv, mean=mean, **common)
    elif variant == "ordinary":
        k = gs.krige.Ordinary(model, cp, cv, **common)
    elif variant == "universal":
        k = gs.krige.Universal(model, cp, cv, "linear", **common)
    elif variant == "extdrift":
        k = gs.krige.ExtDrift(model, cp, cv, cext, **common)
    elif variant == "general":
        cv = trend(*cp) + np.abs(cv) + 0.1
        k = gs.krige.Krige(model, cp, cv, mean=mean, trend=trend, normalizer=gs.normalizer.LogNormal(), unbiased=False, **common)
    else:
        k = gs.krige.Detrended(model, cp, cv, trend, **common)
    kw2 = {"ext_drift": text} if variant == "extdrift" else {}
    fld, var = k(tp, return_var=True, **kw2)
    fld_c, var_c = k(tp, return_var=True, chunk_size=1, **kw2)
    # direct solve of the textbook system
    ic, it = model.isometrize(cp), model.isometrize(tp)
    D = np.linalg.norm(ic[:, :, None] - ic[:, None, :], axis=0)
    unbiased = variant in ("ordinary", "universal", "extdrift")
    rows = []
    if unbiased:
        rows.append((np.ones(ncond), np.ones(ntar)))
    if variant == "universal":
        for a in range(dim):
            rows.append((cp[a], tp[a]))
    if variant == "extdrift":
        rows.append((cext, text))
    size = ncond + len(rows)
    K = np.zeros((size, size))
    ev = np.full(ncond, model.nugget) if errmode == "nugget" else (np.full(ncond, err[0]) if errmode == "scalar" else np.array(err))
    K[:ncond, :ncond] = model.covariance(D) + np.diag(ev)
    for r, (fc, ft) in enumerate(rows):
        K[ncond + r, :ncond] = fc
        K[:ncond, ncond + r] = fc
    # assembly level first (also meaningful for singular systems): matrix and right-hand sides of the library
    bad = []
    cap = []
    k._inv = lambda mat: (cap.append(np.array(mat, dtype=float).copy()), np.linalg.pinv(mat))[1]
    k.set_condition()
    if not np.allclose(cap[0], K, rtol=1e-9, atol=1e-11):
        bad.append(f"assembled matrix {cap[0].tolist()} != textbook {K.tolist()}")
    ext_arg = k._pre_ext_drift(ntar, text if variant == "extdrift" else None)
    kv_lib = k._get_krige_vecs(it, (0, ntar), ext_arg, False)
    for t in range(ntar):
        d0 = np.linalg.norm(ic - it[:, t : t + 1], axis=0)
        c0 = model.cov_nugget(d0) if exact else model.covariance(d0)
        kvec = np.concatenate([c0, [ft[t] for _, ft in rows]])
        if not np.allclose(kv_lib[:, t], kvec, rtol=1e-9, atol=1e-11):
            bad.append(f"rhs[{t}] library={kv_lib[:, t].tolist()} textbook={kvec.tolist()}")
        kv_chunk = k._get_krige_vecs(it, (t, t + 1), ext_arg, False)
        if kv_chunk.shape != (size, 1) or not np.allclose(kv_chunk[:, 0], kv_lib[:, t], rtol=1e-12, atol=1e-14):
            bad.append(f"rhs of chunk ({t},{t + 1}) = {kv_chunk[:, 0].tolist()} != column {t} of the unchunked rhs {kv_lib[:, t].tolist()}")
    if bad:
        return False, f"variant={variant} cond_pos={cp.tolist()} targets={tp.tolist()} {par} {kw} failing={bad}"
    if np.linalg.cond(K) > 1e10:
        return True, "assembly agrees; system numerically singular (solution not compared)"
    tr_c = trend(*cp) if variant in ("detrended", "general") else 0.0
    tr_t = trend(*tp) if variant in ("detrended", "general") else 0.0
    mu = mean if variant in ("simple", "general") else 0.0
    z = np.concatenate([(np.log(cv - tr_c) if variant == "general" else cv - tr_c) - mu, np.zeros(len(rows))])
    if not np.allclose(k._krige_cond, z, rtol=1e-9, atol=1e-11):
        bad.append(f"prepared data {k._krige_cond.tolist()} != normalize(val-trend)-mean {z.tolist()}")
    for t in range(ntar):
        d0 = np.linalg.norm(ic - it[:, t : t + 1], axis=0)
        c0 = model.cov_nugget(d0) if exact else model.covariance(d0)
        kvec = np.concatenate([c0, [ft[t] for _, ft in rows]])
        w = np.linalg.solve(K, kvec)
        est = (tr_t[t] + np.exp(mu + z @ w)) if variant == "general" else ((tr_t[t] if variant == "detrended" else 0.0) + mu + z @ w)
        va = max(model.sill - kvec @ w, 0.0)
        if not np.isclose(fld[t], est, rtol=1e-6, atol=1e-8):
            bad.append(f"estimate[{t}] library={fld[t]} direct solve={est}")
        if not np.isclose(var[t], va, rtol=1e-6, atol=1e-8):
            bad.append(f"variance[{t}] library={var[t]} direct solve={va}")
    if not (np.allclose(fld, fld_c, rtol=1e-9, atol=1e-11) and np.allclose(var, var_c, rtol=1e-9, atol=1e-11)):
        bad.append("chunked != unchunked")
    if ntar >= 3:
        cols = []
        orig_sum = k._summate

        def spy_sum(field, krige_var, c_slice, k_vec, return_var):
            cols.append(k_vec.shape[1])
            return orig_sum(field, krige_var, c_slice, k_vec, return_var)

        k._summate = spy_sum
        f2, v2 = k(tp, return_var=True, chunk_size=2, **kw2)
        k._summate = orig_sum
        if sum(cols) != ntar:
            bad.append(f"chunk_size=2 on {ntar} targets evaluated {sum(cols)} of them (chunks {cols})")
        elif not (np.allclose(f2, fld, rtol=1e-9, atol=1e-11) and np.allclose(v2, var, rtol=1e-9, atol=1e-11)):
            bad.append("chunk_size=2 != unchunked")
    fld_only = k(tp, return_var=False, **kw2)
    if not np.allclose(fld_only, fld, rtol=1e-9, atol=1e-11):
        bad.append(f"return_var=False gives {np.asarray(fld_only).tolist()} but {np.asarray(fld).tolist()} with the variance")
    return (not bad), f"variant={variant} cond_pos={cp.tolist()} cond_val={cv.tolist()} targets={tp.tolist()} {par} {kw} failing={bad}"


def replay_unbiased(inputs):
    import warnings

    import numpy as np

    warnings.simplefilter("ignore")
    import gstools as gs

    v, dim, ncond, ntar, cp, cv, tp, par = _concrete(inputs, 1)
    if len({tuple(np.round(cp[:, i], 9)) for i in range(ncond)}) < ncond:
        return True, "precondition"
    model = gs.Exponential(dim=dim, **par)
    c0, c1 = _val(v, "c0", 2.5), _val(v, "c1", -0.7)
    bad = []
    if inputs["variant"] == "ordinary":
        k = gs.krige.Ordinary(model, cp, np.full(ncond, c0))
        f, _ = k(tp)
        if not np.allclose(f, c0, rtol=1e-7, atol=1e-9):
            bad.append(f"constant {c0} -> {f}")
        if not np.isclose(k.get_mean(post_process=False), c0, rtol=1e-7, atol=1e-9):
            bad.append("get_mean")
        if not np.allclose(k(tp, only_mean=True), k.get_mean(post_process=False)):
            bad.append("only_mean")
    else:
        k = gs.krige.Universal(model, cp, c0 + c1 * cp[0], "linear")
        f, _ = k(tp)
        if not np.allclose(f, c0 + c1 * tp[0], rtol=1e-6, atol=1e-8):
            bad.append(f"drift not reproduced {f} vs {c0 + c1 * tp[0]}")
    return (not bad), f"{inputs['variant']} cond_pos={cp.tolist()} targets={tp.tolist()} failing={bad}"


def replay_linearity(inputs):
    import warnings

    import numpy as np

    warnings.simplefilter("ignore")
    import gstools as gs

    v, dim, ncond, ntar, cp, cv, tp, par = _concrete(inputs, 1)
    if len({tuple(np.round(cp[:, i], 9)) for i in range(ncond)}) < ncond:
        return True, "precondition"
    model = gs.Exponential(dim=dim, **par)
    z2 = np.array([_val(v, f"y{i}", 1.1 - 0.3 * i) for i in range(ncond)])
    lam = _val(v, "lam", -1.3)
    mean = _val(v, "mean", 0.3)
    mk = {"simple": lambda z: gs.krige.Simple(model, cp, z, mean=mean), "ordinary": lambda z: gs.krige.Ordinary(model, cp, z), "universal": lambda z: gs.krige.Universal(model, cp, z, "linear")}[inputs["variant"]]
    off = mean if inputs["variant"] == "simple" else 0.0
    e1, e2, e3 = (mk(z)(tp, return_var=False)[0] for z in (off + cv, off + z2, off + lam * cv + z2))
    ok = np.isclose(e3 - off, lam * (e1 - off) + (e2 - off), rtol=1e-7, atol=1e-9)
    return bool(ok), f"{inputs['variant']} e1={e1} e2={e2} e3={e3} lam={lam}"


def replay_chunks(inputs):
    return False, f"chunk partition fails for {inputs}"


REPLAY = {"system": replay_system, "unbiased": replay_unbiased, "linearity": replay_linearity, "chunks": replay_chunks}

"""C08  Empirical variogram estimates equal their mathematical definition."""
import itertools
import math

import numpy as rnp
import z3

from .. import core, kernel, sym, theory, vario
from ..core import Job, prove, rec
from ..sym import Sym, explore, lift, real
from . import c15

FILES = ["src/gstools/variogram/estimator.pyx", "src/gstools/variogram/variogram.py", "src/gstools/variogram/binning.py", "src/gstools/tools/geometric.py"]

SPEC = {
    "level": "model_checking",
    "engine": "E2 (kernels) + E1 (vario_estimate / vario_estimate_axis wrappers with the kernels interpreted from source)",
    "files": FILES,
    "functions": [
        "estimator.pyx: unstructured, directional, structured, ma_structured, dist_euclid, dist_haversine, dir_test, estimator_*, normalization_*",
        "gstools.variogram.variogram.vario_estimate",
        "gstools.variogram.variogram.vario_estimate_axis",
        "gstools.variogram.variogram._set_estimator/_separate_dirs_test",
        "gstools.tools.geometric.ang2dir/generate_grid/format_*_pos_shape",
    ],
    "bounds": {
        "quick": {"kernels": "<=4 points, <=3 bins, <=2 fields (symbolic values, symbolic NaN flags), dim 1-3, 2 directions, grids <=4x2", "wrappers": "3 points, 2 bins, 1-2 fields; mask / NaN / no_data patterns enumerated concretely"},
        "thorough": {"kernels": "as quick plus 5 points per bin for the isotropic kernel", "wrappers": "as quick plus 3-D and two directions"},
    },
    "stubs": ["sqrt/acos/atan2/sin/cos uninterpreted (shared symbols)", "compiled kernels replaced by the symbolic interpretation of their .pyx source inside the wrappers"],
    "oracle": "pair enumeration with half-open bins [b_i, b_{i+1}); Matheron: sum (dz)^2 / (2N); Cressie-Hawkins: (sum |dz|^0.5 / N)^4 / (2 (0.457 + 0.494/N + 0.045/N^2)); empty bins -> 0; "
    "direction test: angle to the (normalised) direction < tolerance and distance to the direction line < bandwidth; ISO 80000-2 spherical angles",
    "outside": ["more than 5 points (the loop nest is uniform)", "rounding of sqrt/acos", "fit_normalizer=True", "automatic binning (standard_bins) values"],
    "assumptions": ["floats read as reals; NaN handled as a separate flag with IEEE comparison semantics", "bin edges increasing"],
}

JOB_TIMEOUT = {"quick": 400, "thorough": 3000}


def _rename(res):
    recs, meta = res if isinstance(res, tuple) else (res, {})
    for r in recs:
        r["id"] = r["id"].replace("C15/", "C08/kernel/", 1)
    return recs, meta


def job_kernel(fn, *args):
    return _rename(getattr(c15, fn)(*args))


# --------------------------------------------------------------------------
# wrapper level


def _setup():
    from .. import npx

    npx.install()
    import gstools as gs  # noqa

    vario.install_variogram_stubs()
    from gstools.variogram import variogram as vv

    return vv


class Recorder:
    def __init__(self):
        self.calls = []

    def wrap(self, name, fn):
        def f(*a, **k):
            self.calls.append((name, a, k))
            return fn(*a, **k)

        return f


def _pairs_ref(pos_cols, fvals, edges, et, dist="e", R=None):
    """reference on the ORIGINAL inputs: pos_cols = list of points (tuples of z3 terms), fvals[m][i] = z3 term or None (missing)"""
    sq = theory.UF["sqrt"]
    n = len(pos_cols)
    nb = len(edges) - 1

    def d(j, k):
        if dist == "e":
            return sq(c15.seqsum([(pos_cols[j][a] - pos_cols[k][a]) * (pos_cols[j][a] - pos_cols[k][a]) for a in range(len(pos_cols[j]))]))
        PI = theory.PI
        sin, cos, at2 = theory.UF["sin"], theory.UF["cos"], theory.UF["arctan2"]
        d2r = PI / 180
        dlat = (pos_cols[k][0] - pos_cols[j][0]) * d2r
        dlon = (pos_cols[k][1] - pos_cols[j][1]) * d2r
        a = sin(dlat / 2) * sin(dlat / 2) + cos(pos_cols[j][0] * d2r) * cos(pos_cols[k][0] * d2r) * sin(dlon / 2) * sin(dlon / 2)
        return 2 * at2(sq(a), sq(1 - a))

    out = []
    for i in range(nb):
        terms, cnt = [], []
        for j in range(n):
            for k in range(j + 1, n):
                inb = z3.And(edges[i] <= d(j, k), d(j, k) < edges[i + 1])
                for m in range(len(fvals)):
                    a, b = fvals[m][j], fvals[m][k]
                    if a is None or b is None:
                        continue
                    df = b - a
                    e = df * df if et == "m" else sq(z3.If(df >= 0, df, -df))
                    terms.append(z3.If(inb, e, z3.RealVal(0)))
                    cnt.append(z3.If(inb, z3.IntVal(1), z3.IntVal(0)))
        S = z3.Sum(terms) if terms else z3.RealVal(0)
        C = z3.Sum(cnt) if cnt else z3.IntVal(0)
        out.append((c15.ref_normalise(S, C, et), C))
    return out


def job_wrapper_iso(dim, n, nf, et, variant, tier):
    """vario_estimate end to end == definition on the original inputs; `variant` selects preprocessing"""
    vv = _setup()
    T = core.tier_timeout(tier)
    out = []
    X = [[real(f"x{a}_{i}") for i in range(n)] for a in range(dim)]
    F = [[real(f"f{m}_{i}") for i in range(n)] for m in range(nf)]
    B = [real(f"b{i}") for i in range(3)]
    wv = {}
    for row in X + F:
        for s in row:
            wv[str(s.e)] = s
    for b in B:
        wv[str(b.e)] = b
    rb = ("wrapper", lambda v: {"dim": dim, "n": n, "nf": nf, "et": et, "variant": variant, "values": v})
    estimator = "matheron" if et == "m" else "cressie"
    miss = 1  # index of the missing point in the variants that drop one
    ND = -999.0

    def run():
        sym.assume(B[0] < B[1])
        sym.assume(B[1] < B[2])
        sym.assume(B[0] >= 0)
        pos = [list(r) for r in X]
        fld = [list(r) for r in F]
        kw = {}
        if variant == "nan":
            fld[0][miss] = math.nan
        elif variant == "no_data":
            fld[0][miss] = ND
            kw["no_data"] = ND
            for m in range(nf):
                for i in range(n):
                    if isinstance(fld[m][i], Sym):
                        sym.assume(abs(fld[m][i] - ND) > 1e-8 + 1e-5 * abs(ND))  # genuine data are not the no-data value
        elif variant == "mask":
            kw["mask"] = rnp.array([i == miss for i in range(n)])
        elif variant == "masked_array":
            fld = rnp.ma.array(rnp.array(fld, dtype=object), mask=[[i == miss for i in range(n)]] * nf)
        elif variant == "masked_mixed":
            # different masks per field: a point masked in one field only stays in the point set and is skipped for that field
            fld = rnp.ma.array(rnp.array(fld, dtype=object), mask=[[i == (miss + m) % n for i in range(n)] for m in range(nf)])
        f_in = fld if nf > 1 or variant == "masked_array" else fld[0]
        if variant == "masked_array" and nf == 1:
            f_in = fld[0]
        bc, est, cnt = vv.vario_estimate(pos if dim > 1 else [pos[0]], f_in, list(B), estimator=estimator, return_counts=True, **kw)
        return bc, est, cnt

    paths = explore(run, max_paths=50)
    ok = [p for p in paths if p.exc is None]
    tag = f"C08/vario_estimate[{variant},{et}]/d{dim}n{n}f{nf}"
    if not ok:
        return [rec(tag, "error", detail=f"{[repr(p.exc) for p in paths]} {paths[0].tb if paths else ''}")]
    for pi, p in enumerate(paths):
        if p.exc is not None:
            out.append(rec(f"{tag}/path{pi}", "error", detail=f"{p.exc!r} {p.tb}"))
            continue
        bc, est, cnt = p.out
        pts = [tuple(X[a][i].e for a in range(dim)) for i in range(n)]
        fv = [[F[m][i].e for i in range(n)] for m in range(nf)]
        if variant in ("nan", "no_data"):
            fv[0][miss] = None
        if variant in ("mask", "masked_array"):
            for m in range(nf):
                fv[m][miss] = None
        if variant == "masked_mixed":
            for m in range(nf):
                fv[m][(miss + m) % n] = None
        ref = _pairs_ref(pts, fv, [b.e for b in B], et)
        for i in range(2):
            out.append(prove(f"{tag}/path{pi}/bin{i}/estimate==definition", p.conds, lift(est[i]) == ref[i][0], T, witness_vars=wv, replay=rb))
            out.append(prove(f"{tag}/path{pi}/bin{i}/count==definition", p.conds, lift(cnt[i]) == z3.ToReal(ref[i][1]), T, witness_vars=wv, replay=rb))
            out.append(prove(f"{tag}/path{pi}/bin{i}/center", p.conds, lift(bc[i]) == (B[i].e + B[i + 1].e) / 2, T, witness_vars=wv, replay=rb))
    return out


def job_wrapper_args(tier):
    """what vario_estimate hands to the kernels: normalised directions, ISO angles, bandwidth default,
    separated-directions flag, great-circle edges, grid expansion, estimator codes"""
    vv = _setup()
    from gstools.tools import geometric as geo

    T = core.tier_timeout(tier)
    out = []
    recd = Recorder()
    vv.directional_c = recd.wrap("directional", vario.directional)
    vv.unstructured_c = recd.wrap("unstructured", vario.unstructured)
    n = 3
    X = [[real(f"x{a}_{i}") for i in range(n)] for a in range(2)]
    F = [real(f"f{i}") for i in range(n)]
    B = [real("b0"), real("b1")]
    u = [[real("u0"), real("u1")], [real("w0"), real("w1")]]
    tol, ang, R = real("tol"), real("ang"), real("R")
    wv = {str(s.e): s for row in X for s in row}
    wv.update({str(s.e): s for s in F + B + u[0] + u[1] + [tol, ang, R]})
    rb = ("args", lambda v: {"values": v})
    sq = theory.UF["sqrt"]

    # --- unnormalised direction vectors
    sep_args = []
    real_sep = vv._separate_dirs_test

    def sep_spy(direction, angles_tol):
        sep_args.append((rnp.array(direction, dtype=object).copy(), angles_tol))
        return real_sep(direction, angles_tol)

    vv._separate_dirs_test = sep_spy

    def run_dir():
        del recd.calls[:]
        del sep_args[:]
        sym.assume(B[0] < B[1])
        sym.assume(tol > 0)
        for vec in u:
            sym.assume(vec[0] * vec[0] + vec[1] * vec[1] > 1e-6)
        vv.vario_estimate([list(r) for r in X], list(F), list(B), direction=[list(u[0]), list(u[1])], angles_tol=tol)
        return recd.calls[-1] + (list(sep_args),)

    for pi, p in enumerate(explore(run_dir, max_paths=40)):
        if p.exc is not None:
            out.append(rec(f"C08/args/direction/path{pi}", "error", detail=f"{p.exc!r} {p.tb}"))
            continue
        name, a, k, seps = p.out
        field, edges, pos, direction, angles_tol, bandwidth, sep, etc = a[0], a[1], a[2], a[3], a[4], a[5], a[6], a[7]
        # the separated-directions decision is taken on the normalised directions and the given tolerance
        if len(seps) != 1:
            out.append(rec(f"C08/args/direction/path{pi}/separation test called once", "error", detail=str(len(seps))))
        else:
            sd, st = seps[0]
            # stated division-free, entry by entry: seen * |u| == u  (the same form as the obligation on the kernel's directions below)
            for d_ in range(2):
                nrm_ = sq(u[d_][0].e * u[d_][0].e + u[d_][1].e * u[d_][1].e)
                for e_ in range(2):
                    out.append(prove(f"C08/args/direction/path{pi}/separation test sees the normalised directions [{d_},{e_}]", p.conds, lift(sd[d_, e_]) * nrm_ == u[d_][e_].e, T, witness_vars=wv, replay=rb))
            out.append(prove(f"C08/args/direction/path{pi}/separation test sees the caller's tolerance", p.conds, lift(st) == tol.e, T, witness_vars=wv, replay=rb))
        for d in range(2):
            nrm = sq(u[d][0].e * u[d][0].e + u[d][1].e * u[d][1].e)
            for e in range(2):
                out.append(prove(f"C08/args/direction/path{pi}/dir{d}[{e}]==u/|u|", p.conds, lift(direction[d, e]) * nrm == u[d][e].e, T, witness_vars=wv, replay=rb))
        out.append(rec(f"C08/args/direction/path{pi}/bandwidth default -1, estimator 'm'", "unsat" if (bandwidth == -1.0 and etc == "m" and name == "directional") else "error", vacuity="sat", detail=f"{bandwidth} {etc} {name}"))
        # separated flag <=> arccos|<d0,d1>| >= 2 tol  (for the normalised directions)
        dot = lift(direction[0, 0]) * lift(direction[1, 0]) + lift(direction[0, 1]) * lift(direction[1, 1])
        ad = z3.If(dot >= 0, dot, -dot)
        adm = z3.If(ad <= 1, ad, z3.RealVal(1))
        want = theory.UF["arccos"](adm) >= 2 * tol.e
        out.append(prove(f"C08/args/direction/path{pi}/separate_dirs<=>angle between directions>=2*tol", p.conds, want if sep else z3.Not(want), T, witness_vars=wv, replay=rb))

    vv._separate_dirs_test = real_sep

    # --- angles -> direction (2-D: (cos a, sin a))
    def run_ang():
        del recd.calls[:]
        sym.assume(B[0] < B[1])
        vv.vario_estimate([list(r) for r in X], list(F), list(B), angles=ang, angles_tol=0.3, bandwidth=1.5)
        return recd.calls[-1]

    for pi, p in enumerate(explore(run_ang, max_paths=20)):
        if p.exc is not None:
            out.append(rec(f"C08/args/angles/path{pi}", "error", detail=f"{p.exc!r} {p.tb}"))
            continue
        name, a, k = p.out
        direction, bandwidth = a[3], a[5]
        c, s = theory.UF["cos"](ang.e), theory.UF["sin"](ang.e)
        out.append(prove(f"C08/args/angles/path{pi}/direction==(cos a, sin a)", p.conds, z3.And(lift(direction[0, 0]) == c, lift(direction[0, 1]) == s), T, witness_vars=wv, replay=rb))
        out.append(rec(f"C08/args/angles/path{pi}/bandwidth passed", "unsat" if bandwidth == 1.5 else "error", vacuity="sat", detail=str(bandwidth)))

    # --- lat-lon: edges divided by geo_scale, haversine distance, caller's edges kept
    def run_ll():
        del recd.calls[:]
        sym.assume(B[0] < B[1])
        sym.assume(R > 0)
        vv.vario_estimate([list(r) for r in X], list(F), list(B), latlon=True, geo_scale=R)
        return recd.calls[-1]

    for pi, p in enumerate(explore(run_ll, max_paths=20)):
        if p.exc is not None:
            out.append(rec(f"C08/args/latlon/path{pi}", "error", detail=f"{p.exc!r} {p.tb}"))
            continue
        name, a, k = p.out
        edges = a[1]
        out.append(prove(f"C08/args/latlon/path{pi}/edges==bin_edges/geo_scale", p.conds, z3.And([lift(edges[i]) == B[i].e / R.e for i in range(2)]), T, witness_vars=wv, replay=rb))
        out.append(rec(f"C08/args/latlon/path{pi}/haversine distance", "unsat" if (a[4] == "h" and name == "unstructured") else "error", vacuity="sat"))

    # --- structured mesh == generate_grid point list
    gx, gy = [real("gx0"), real("gx1")], [real("gy0"), real("gy1"), real("gy2")]
    G = [[real(f"g{i}{j}") for j in range(3)] for i in range(2)]

    def run_st():
        del recd.calls[:]
        sym.assume(B[0] < B[1])
        vv.vario_estimate((list(gx), list(gy)), rnp.array(G, dtype=object), list(B), mesh_type="structured")
        return recd.calls[-1]

    for pi, p in enumerate(explore(run_st, max_paths=20)):
        if p.exc is not None:
            out.append(rec(f"C08/args/structured/path{pi}", "error", detail=f"{p.exc!r} {p.tb}"))
            continue
        name, a, k = p.out
        field, pos = a[0], a[2]
        goals = []
        for i in range(2):
            for j in range(3):
                q = i * 3 + j
                goals += [lift(pos[0, q]) == gx[i].e, lift(pos[1, q]) == gy[j].e, lift(field[0, q]) == G[i][j].e]
        out.append(prove(f"C08/args/structured/path{pi}/points and values == grid expansion (ij order)", p.conds, z3.And(goals), T, witness_vars={**{str(s.e): s for s in gx + gy}, **{str(s.e): s for r in G for s in r}}, replay=rb))
    # --- Cressie: the estimator code and unchanged data reach the kernel (the kernel itself: kernel-level jobs;
    #     the end-to-end 4th-power identity is not decidable as one query)
    def run_c():
        del recd.calls[:]
        sym.assume(B[0] < B[1])
        vv.vario_estimate([list(r) for r in X], list(F), list(B), estimator="cressie")
        return recd.calls[-1]

    for pi, p in enumerate(explore(run_c, max_paths=20)):
        if p.exc is not None:
            out.append(rec(f"C08/args/cressie/path{pi}", "error", detail=f"{p.exc!r} {p.tb}"))
            continue
        name, a, k = p.out
        field, edges, pos = a[0], a[1], a[2]
        goals = [lift(field[0, i]) == F[i].e for i in range(n)] + [lift(pos[a_, i]) == X[a_][i].e for a_ in range(2) for i in range(n)] + [lift(edges[i]) == B[i].e for i in range(2)]
        out.append(prove(f"C08/args/cressie/path{pi}/kernel receives the caller's data", p.conds, z3.And(goals), T, witness_vars=wv, replay=rb))
        out.append(rec(f"C08/args/cressie/path{pi}/estimator code 'c'", "unsat" if a[3] == "c" else "error", vacuity="sat"))
    vario.install_variogram_stubs()
    # estimator names
    ok = vv._set_estimator("Matheron") == "m" and vv._set_estimator("CRESSIE") == "c"
    try:
        vv._set_estimator("foo")
        ok = False
    except ValueError:
        pass
    out.append(rec("C08/args/_set_estimator", "unsat" if ok else "error", vacuity="sat"))
    return out


def job_axis(direction, masked, et, tier):
    vv = _setup()
    T = core.tier_timeout(tier)
    out = []
    nx, ny = 3, 2
    G = [[real(f"g{i}_{j}") for j in range(ny)] for i in range(nx)]
    wv = {str(s.e): s for r in G for s in r}
    rb = ("axis", lambda v: {"direction": direction, "masked": masked, "et": et, "values": v})
    miss = (1, 0)
    estimator = "matheron" if et == "m" else "cressie"

    def run():
        g = rnp.array(G, dtype=object)
        if masked == "nan":
            g[miss] = math.nan
        elif masked == "ma":
            mk = rnp.zeros((nx, ny), dtype=bool)
            mk[miss] = True
            g = rnp.ma.array(g, mask=mk)
        return vv.vario_estimate_axis(g, direction=direction, estimator=estimator)

    paths = explore(run, max_paths=20)
    tag = f"C08/vario_estimate_axis[{direction},{masked},{et}]"
    sq = theory.UF["sqrt"]
    for pi, p in enumerate(paths):
        if p.exc is not None:
            out.append(rec(f"{tag}/path{pi}", "error", detail=f"{p.exc!r} {p.tb}"))
            continue
        res = p.out
        ax = 0 if direction == "x" else 1
        L = (nx, ny)[ax]
        other = (ny, nx)[ax]
        if len(res) != L:
            out.append(rec(f"{tag}/path{pi}/length", "sat", witness={}, replay={"kind": "axis", "inputs": {"direction": direction, "masked": masked, "et": et, "values": {}}}, detail=f"len {len(res)} != {L}"))
            continue
        for k in range(L):
            terms, cnt = [], 0
            for i in range(L - k):
                for j in range(other):
                    a = (i, j) if ax == 0 else (j, i)
                    b = (i + k, j) if ax == 0 else (j, i + k)
                    if k == 0:
                        continue
                    if masked != "no" and (a == miss or b == miss):
                        continue
                    df = G[a[0]][a[1]].e - G[b[0]][b[1]].e
                    terms.append(df * df if et == "m" else sq(z3.If(df >= 0, df, -df)))
                    cnt += 1
            S = z3.Sum(terms) if terms else z3.RealVal(0)
            ref = c15.ref_normalise(S, z3.IntVal(cnt), et)
            out.append(prove(f"{tag}/path{pi}/lag{k}==mean over grid pairs at lag k along the axis", p.conds, lift(res[k]) == ref, T, witness_vars=wv, replay=rb, vacuity=False))
    return out


def job_ang2dir(dim, ndir, tier):
    """geometric.ang2dir on symbolic angles: every direction is the spherical-coordinate unit vector of its own angles
    (azimuth, polar, ...), independently of the other directions handed over in the same call"""
    vv = _setup()
    from gstools.tools import geometric as geo

    T = core.tier_timeout(tier)
    out = []
    A = [[real(f"ang{j}_{i}") for i in range(dim - 1)] for j in range(ndir)]
    wv = {str(s.e): s for r in A for s in r}
    rb = ("ang2dir", lambda v: {"dim": dim, "ndir": ndir, "values": v})
    sin, cos = theory.UF["sin"], theory.UF["cos"]

    def run():
        arr = rnp.array([[a for a in row] for row in A], dtype=object)
        return geo.ang2dir(arr, dtype=object, dim=dim) if False else geo.ang2dir(arr, dim=dim)

    for pi, p in enumerate(explore(run, max_paths=8)):
        base = f"C08/ang2dir/d{dim}n{ndir}/path{pi}"
        if p.exc is not None:
            out.append(rec(base, "error", detail=f"{p.exc!r} {p.tb}"))
            continue
        vec = rnp.asarray(p.out, dtype=object)
        for j in range(ndir):
            a = [x.e for x in A[j]]
            if dim == 2:
                ref = [cos(a[0]), sin(a[0])]
            else:
                ref = [cos(a[0]) * sin(a[1]), sin(a[0]) * sin(a[1]), cos(a[1])]
            for k in range(dim):
                out.append(prove(f"{base}/direction {j}[{k}] == spherical unit vector of its own angles", p.conds, lift(vec[j, k]) == ref[k], T, witness_vars=wv, replay=rb, pairwise=False))
    return out



def jobs(tier, seed):
    big = tier == "thorough"
    js = []
    # kernel level (shared harnesses with C15, larger bounds)
    for dim in (1, 2, 3):
        for et in ("m", "c"):
            js.append(Job(f"kernel-unstructured-d{dim}-{et}", job_kernel, "job_estimator_unstructured", dim, 4 if dim == 2 or big else 3, 3, 2, et, "e", tier))
    js.append(Job("kernel-unstructured-haversine", job_kernel, "job_estimator_unstructured", 2, 3, 2, 2, "m", "h", tier))
    if big:
        js.append(Job("kernel-unstructured-5pts", job_kernel, "job_estimator_unstructured", 2, 5, 2, 1, "m", "e", tier))
    for dim in (2, 3):
        for sep in (False, True):
            for bw in (False, True):
                js.append(Job(f"kernel-directional-d{dim}-sep{int(sep)}-bw{int(bw)}", job_kernel, "job_estimator_directional", dim, 3, 2, 2, sep, bw, "m", tier))
    js.append(Job("kernel-directional-cressie", job_kernel, "job_estimator_directional", 2, 3, 2, 2, True, True, "c", tier))
    for et in ("m", "c"):
        js.append(Job(f"kernel-structured-{et}", job_kernel, "job_estimator_structured", 4, 2, False, et, tier))
        js.append(Job(f"kernel-ma_structured-{et}", job_kernel, "job_estimator_structured", 4, 2, True, et, tier))
    # wrapper level
    for variant in ("plain", "nan", "no_data", "mask", "masked_array"):
        js.append(Job(f"wrapper-{variant}-d2-f1", job_wrapper_iso, 2, 3, 1, "m", variant, tier))
        js.append(Job(f"wrapper-{variant}-d1-f2", job_wrapper_iso, 1, 3, 2, "m", variant, tier))
    js.append(Job("wrapper-masked_mixed-d1-f2", job_wrapper_iso, 1, 3, 2, "m", "masked_mixed", tier))
    js.append(Job("wrapper-masked_mixed-d2-f2", job_wrapper_iso, 2, 3, 2, "m", "masked_mixed", tier))
    if big:
        js.append(Job("wrapper-plain-d3", job_wrapper_iso, 3, 3, 2, "m", "plain", tier))
    js.append(Job("wrapper-args", job_wrapper_args, tier))
    for dim_, nd_ in ((2, 2), (3, 1), (3, 2), (3, 3)):
        js.append(Job(f"ang2dir-d{dim_}-n{nd_}", job_ang2dir, dim_, nd_, tier))
    for direction in ("x", "y"):
        for masked in ("no", "nan", "ma"):
            js.append(Job(f"axis-{direction}-{masked}", job_axis, direction, masked, "m", tier))
    js.append(Job("axis-x-cressie", job_axis, "x", "no", "c", tier))
    return js


# --------------------------------------------------------------------------
# replays


def _val(v, k, d):
    x = v.get(k)
    return float(x) if x is not None else d


def _brute(pos, F, be, et):
    import numpy as np

    return c15._brute_unstructured(np.asarray(F, dtype=float), np.asarray(be, dtype=float), np.asarray(pos, dtype=float), et, "e")


def replay_wrapper(inputs):
    import numpy as np
    import gstools as gs

    dim, n, nf, et, variant, v = inputs["dim"], inputs["n"], inputs["nf"], inputs["et"], inputs["variant"], inputs["values"]
    X = np.array([[_val(v, f"x{a}_{i}", 0.9 * i + 0.4 * a * i * i) for i in range(n)] for a in range(dim)])
    F = np.array([[_val(v, f"f{m}_{i}", 0.5 * i * i - m) for i in range(n)] for m in range(nf)])
    B = sorted(_val(v, f"b{i}", 0.6 * i + 0.1) for i in range(3))
    if B[0] < 0 or B[0] >= B[1] or B[1] >= B[2]:
        return True, "precondition"
    miss, ND = 1, -999.0
    kw = {}
    Fin = F.copy()
    Fref = F.copy()
    if variant == "nan":
        Fin[0, miss] = np.nan
        Fref[0, miss] = np.nan
    elif variant == "no_data":
        if np.any(np.isclose(F, ND)):
            return True, "precondition"
        Fin[0, miss] = ND
        Fref[0, miss] = np.nan
        kw["no_data"] = ND
    elif variant == "mask":
        kw["mask"] = np.array([i == miss for i in range(n)])
        Fref[:, miss] = np.nan
    elif variant == "masked_array":
        Fin = np.ma.array(Fin, mask=[[i == miss for i in range(n)]] * nf)
        Fref[:, miss] = np.nan
    elif variant == "masked_mixed":
        Fin = np.ma.array(Fin, mask=[[i == (miss + m) % n for i in range(n)] for m in range(nf)])
        for m in range(nf):
            Fref[m, (miss + m) % n] = np.nan
    f_in = Fin if nf > 1 else Fin[0]
    bc, est, cnt = gs.vario_estimate(X if dim > 1 else [X[0]], f_in, list(B), estimator="matheron" if et == "m" else "cressie", return_counts=True, **kw)
    ref, rc = _brute(X, Fref, B, et)
    ok = np.allclose(est, ref, rtol=1e-9, atol=1e-12) and list(cnt) == list(rc) and np.allclose(bc, [(B[i] + B[i + 1]) / 2 for i in range(2)])
    return bool(ok), f"variant={variant} X={X.tolist()} F={F.tolist()} B={B} est={np.asarray(est).tolist()} cnt={list(cnt)} definition={ref.tolist()} {list(rc)}"


def replay_args(inputs):
    import numpy as np
    import gstools as gs
    from gstools.variogram import variogram as vv

    v = inputs["values"]
    calls = []
    orig_d, orig_u = vv.directional_c, vv.unstructured_c
    vv.directional_c = lambda *a, **k: (calls.append(("d", a, k)), orig_d(*a, **k))[1]
    vv.unstructured_c = lambda *a, **k: (calls.append(("u", a, k)), orig_u(*a, **k))[1]
    bad = []
    try:
        n = 3
        X = np.array([[_val(v, f"x{a}_{i}", 0.9 * i + 0.4 * a * i * i) for i in range(n)] for a in range(2)])
        F = np.array([_val(v, f"f{i}", 0.5 * i * i) for i in range(n)])
        B = sorted([_val(v, "b0", 0.1), _val(v, "b1", 2.0)])
        u = np.array([[_val(v, "u0", 2.0), _val(v, "u1", 0.5)], [_val(v, "w0", -0.3), _val(v, "w1", 1.5)]])
        tol = abs(_val(v, "tol", 0.4)) or 0.4
        if B[0] < B[1] and np.all(np.linalg.norm(u, axis=1) > 1e-3):
            gs.vario_estimate(X, F, B, direction=u, angles_tol=tol)
            a, k = calls[-1][1], calls[-1][2]
            d = a[3]
            if not np.allclose(d, u / np.linalg.norm(u, axis=1)[:, None], rtol=1e-12):
                bad.append("direction not normalised")
            ang = math.acos(min(abs(float(d[0] @ d[1])), 1.0))
            if abs(ang - 2 * tol) > 1e-9 and bool(a[6]) != (ang >= 2 * tol):
                bad.append(f"separate_dirs={a[6]} angle={ang} tol={tol}")
            if a[5] != -1.0:
                bad.append("bandwidth default")
            # the solver's witness fixes arbitrary arccos values; confirm on a small neighbourhood of direction
            # pairs (lengths below, at and above 1; several enclosed angles and tolerances)
            for n1 in (0.4, 1.0, 2.5):
                for n2 in (0.5, 1.0, 3.0):
                    for enc in (0.3, 0.7, 1.2):
                        for tl in (0.2, 0.5):
                            uu = np.array([[n1, 0.0], [n2 * math.cos(enc), n2 * math.sin(enc)]])
                            del calls[:]
                            gs.vario_estimate(X, F, B, direction=uu, angles_tol=tl)
                            flag = bool(calls[-1][1][6])
                            if abs(enc - 2 * tl) > 1e-9 and flag != (enc >= 2 * tl):
                                bad.append(f"separate_dirs={flag} for directions {uu.tolist()} (enclosed angle {enc}, tol {tl})")
        ang = _val(v, "ang", 0.7)
        if B[0] < B[1]:
            gs.vario_estimate(X, F, B, angles=ang, angles_tol=0.3, bandwidth=1.5)
            a = calls[-1][1]
            if not np.allclose(a[3], [[math.cos(ang), math.sin(ang)]], atol=1e-12):
                bad.append(f"angles->direction {a[3]}")
            R = abs(_val(v, "R", 3.0)) or 3.0
            LL = np.array([[10.0, 20.0, -5.0], [3.0, 50.0, 100.0]])
            b_in = np.array(B, dtype=float)
            gs.vario_estimate(LL, F, b_in.copy(), latlon=True, geo_scale=R)
            a, k = calls[-1][1], calls[-1][2]
            if not np.allclose(a[1], b_in / R, rtol=1e-12) or a[4] != "h":
                bad.append("latlon edges / distance type")
            gx, gy = [_val(v, "gx0", 0.0), _val(v, "gx1", 1.5)], [_val(v, "gy0", 0.3), _val(v, "gy1", 2.0), _val(v, "gy2", 3.1)]
            G = np.array([[_val(v, f"g{i}{j}", i + 0.5 * j) for j in range(3)] for i in range(2)])
            gs.vario_estimate((gx, gy), G, B, mesh_type="structured")
            a = calls[-1][1]
            P = np.array([[gx[i], gy[j]] for i in range(2) for j in range(3)]).T
            if not (np.allclose(a[2], P) and np.allclose(a[0], G.reshape(1, -1))):
                bad.append("grid expansion")
    finally:
        vv.directional_c, vv.unstructured_c = orig_d, orig_u
    return (not bad), f"{v} failing={bad}"


def replay_axis(inputs):
    import numpy as np
    import gstools as gs

    direction, masked, et, v = inputs["direction"], inputs["masked"], inputs["et"], inputs["values"]
    nx, ny = 3, 2
    G = np.array([[_val(v, f"g{i}_{j}", 0.4 * i * i - 0.7 * j + 0.1 * i * j) for j in range(ny)] for i in range(nx)])
    miss = (1, 0)
    g = G.copy()
    if masked == "nan":
        g[miss] = np.nan
    elif masked == "ma":
        mk = np.zeros((nx, ny), dtype=bool)
        mk[miss] = True
        g = np.ma.array(g, mask=mk)
    res = gs.vario_estimate_axis(g, direction=direction, estimator="matheron" if et == "m" else "cressie")
    ax = 0 if direction == "x" else 1
    L, other = (nx, ny)[ax], (ny, nx)[ax]
    ref = np.zeros(L)
    for k in range(1, L):
        S, C = 0.0, 0
        for i in range(L - k):
            for j in range(other):
                a = (i, j) if ax == 0 else (j, i)
                b = (i + k, j) if ax == 0 else (j, i + k)
                if masked != "no" and (a == miss or b == miss):
                    continue
                df = G[a] - G[b]
                S += df * df if et == "m" else math.sqrt(abs(df))
                C += 1
        Cn = max(C, 1)
        ref[k] = S / (2 * Cn) if et == "m" else 0.5 * (S / Cn) ** 4 / (0.457 + 0.494 / Cn + 0.045 / Cn**2)
    ok = len(res) == L and np.allclose(res, ref, rtol=1e-9, atol=1e-12)
    return bool(ok), f"G={G.tolist()} res={np.asarray(res).tolist()} definition={ref.tolist()}"


def replay_ang2dir(inputs):
    import numpy as np
    from gstools.tools import geometric as geo

    dim, ndir, v = int(inputs["dim"]), int(inputs["ndir"]), inputs.get("values") or {}
    A = np.array([[_val(v, f"ang{j}_{i}", 0.4 + 0.7 * j + 0.5 * i) for i in range(dim - 1)] for j in range(ndir)])
    got = geo.ang2dir(A, dim=dim)
    want = np.array([[np.cos(a[0]), np.sin(a[0])] if dim == 2 else [np.cos(a[0]) * np.sin(a[1]), np.sin(a[0]) * np.sin(a[1]), np.cos(a[1])] for a in A])
    ok = np.allclose(got, want, rtol=1e-12, atol=1e-14)
    return bool(ok), f"angles={A.tolist()} ang2dir={np.asarray(got).tolist()} spherical unit vectors={want.tolist()}"


REPLAY = dict(c15.REPLAY)
REPLAY.update({"ang2dir": replay_ang2dir, "wrapper": replay_wrapper, "args": replay_args, "axis": replay_axis})

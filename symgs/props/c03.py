"""C03  Model functions are mutually consistent and match their documented closed forms."""
import math

import numpy as rnp
import z3

from .. import core, sym, theory
from ..core import Job, prove, rec
from ..sym import Sym, explore, fn1, fn2, lift, real

FILES = ["src/gstools/covmodel/base.py", "src/gstools/covmodel/tools.py", "src/gstools/covmodel/models.py", "src/gstools/covmodel/tpl_models.py", "src/gstools/tools/special.py"]

SPEC = {
    "level": "model_checking",
    "engine": "E1",
    "files": FILES,
    "functions": [
        "gstools.covmodel.tools._init_subclass (derived variogram/covariance/correlation/cor)",
        "cor / correlation of the 17 shipped model classes",
        "CovModel.vario_nugget/cov_nugget/vario_axis/cov_axis/cor_axis/vario_spatial/cov_spatial/cor_spatial",
        "calc_integral_scale overrides (Gaussian, Exponential, Stable, Matern, Integral, Rational)",
        "CovModel.integral_scale setter, CovModel.percentile_scale / tools.percentile_scale",
        "gstools.tools.special.tplstable_cor",
    ],
    "bounds": {"quick": {"dim": "1..3", "lag": "one symbolic lag r >= 0 (all real values) per obligation, all parameter values inside the model bounds"}, "thorough": {"dim": "1..3 (+ anisotropic axis functions in 2-D and 3-D)"}},
    "stubs": [
        "special functions (kv, jv, hyp2f1, gamma, loggamma, beta, erf) uninterpreted: the same symbol on both sides",
        "gstools.tools.special.exp_int replaced by the uninterpreted generalised exponential integral E_s(x) (its internal switches are outside)",
        "scipy.integrate.quad -> uninterpreted integral (models without closed-form integral scale)",
        "scipy.optimize.root -> returns an exact root x (curve(x)=0)",
    ],
    "oracle": "documented closed-form correlation functions (class docstrings: Webster & Oliver 2007, Rasmussen 2003, Chiles & Delfiner 2009, Mueller et al.) "
    "and the closed-form integral of the correlation that each branch actually uses",
    "outside": ["closed forms of the truncated-power-law correlations (only their identities are checked)", "that the quad-based integral scales equal the integral", "accuracy of scipy special functions", "asymptotic switches inside exp_int / inc_gamma"],
    "assumptions": ["floats read as reals", "parameters inside the model's bounds; rescale > 0"],
}


def _setup():
    from .. import npx

    npx.install()
    import gstools as gs
    import gstools.covmodel.models as mm
    import gstools.covmodel.tpl_models as tm
    import gstools.covmodel.base as cb
    import gstools.covmodel.tools as ct
    import gstools.tools.special as sp

    EI = z3.Function("expint_E", z3.RealSort(), z3.RealSort(), z3.RealSort())

    def exp_int(s, x):
        f = rnp.frompyfunc(lambda a, b: Sym(EI(lift(a), lift(b))), 2, 1)
        return f(s, x)

    for mod in (mm, sp):
        mod.__dict__["exp_int"] = exp_int

    QI = z3.Function("quad_integral", z3.RealSort(), z3.RealSort(), z3.RealSort(), z3.RealSort())

    def integral(f, a, b):
        # opaque integral of the model's correlation: a function of the model identity only
        return (Sym(z3.Real("INT_COR")), 0.0)

    cb.__dict__["integral"] = integral

    def root(curve, x0):
        X = real("root_x")
        sym.assume(X >= 0)
        sym.assume(core.eq(curve(X), 0.0))
        return {"x": [X]}

    ct.__dict__["root"] = root
    return gs, EI


# ---- reference closed forms cor(h) (h = s*r/l >= 0), written from the class docstrings
def _e(x):
    return fn1("exp", x)


def ref_cor(name, h, o, d, EI):
    """returns a list of (condition z3 Bool, value) branches"""
    H = lift(h)
    if name == "Gaussian":
        return [(True, _e(-(h * h)))]
    if name == "Exponential":
        return [(True, _e(-h))]
    if name == "Stable":
        return [(True, _e(-fn2("pow", h, o["alpha"])))]
    if name == "Matern":
        nu = o["nu"]
        x = fn1("sqrt", nu) * h
        mat = fn2("pow", 2.0, 1.0 - nu) / fn1("gamma", nu) * fn2("pow", x, nu) * fn2("kv", nu, x)
        return [(lift(nu) > 20, _e(-((h / 2.0) * (h / 2.0)))), (z3.And(lift(nu) <= 20, H > 0), mat), (z3.And(lift(nu) <= 20, H == 0), 1.0)]
    if name == "Integral":
        nu = o["nu"]
        return [(True, nu / 2.0 * Sym(EI(lift(1.0 + nu / 2.0), lift(h * h))))]
    if name == "Rational":
        a = o["alpha"]
        return [(True, fn2("pow", 1.0 + h * h / a, -a))]
    if name == "Cubic":
        return [(H < 1, 1.0 - 7.0 * h**2 + (35.0 / 4.0) * h**3 - (7.0 / 2.0) * h**5 + (3.0 / 4.0) * h**7), (H >= 1, 0.0)]
    if name == "Linear":
        return [(H < 1, 1.0 - h), (H >= 1, 0.0)]
    if name == "Circular":
        from ..npx import PI

        return [(H < 1, 2.0 / PI * (fn1("arccos", h) - h * fn1("sqrt", 1.0 - h * h))), (H >= 1, 0.0)]
    if name == "Spherical":
        return [(H < 1, 1.0 - 1.5 * h + 0.5 * h**3), (H >= 1, 0.0)]
    if name in ("HyperSpherical", "SuperSpherical"):
        nu = (d - 1.0) / 2.0 if name == "HyperSpherical" else o["nu"]
        from ..npx import SPS

        hyp = lambda z: SPS.hyp2f1(0.5, -nu, 1.5, z)  # numeric when all arguments are concrete, as in the library
        norm = hyp(1.0)
        if isinstance(norm, Sym):
            return [(H < 1, 1.0 - h * hyp(h * h) / norm), (H >= 1, 0.0)]
        # concrete normalisation constant: fold it the way double arithmetic does (constant folding is outside the claim)
        return [(H < 1, 1.0 - h * (1.0 / float(norm)) * hyp(h * h)), (H >= 1, 0.0)]
    if name == "JBessel":
        nu = o["nu"]
        return [(H > 1e-8, fn1("gamma", nu + 1.0) * fn2("jv", nu, h) / fn2("pow", h / 2.0, nu)), (H == 0, 1.0)]
    if name == "TPLSimple":
        return [(H < 1, fn2("pow", 1.0 - h, o["nu"])), (H >= 1, 0.0)]
    return None


def _tpl_cor(r, ell, hurst, alpha, EI):
    """tplstable_cor reference: 2H/alpha * E_{1+2H/alpha}((r/ell)^alpha), 1 at r=0"""
    x = r / ell
    a = alpha
    if isinstance(alpha, (int, float)) and float(alpha) == int(alpha):
        xa = x ** int(alpha)
    else:
        xa = fn2("pow", x, alpha)
    return 2.0 * hurst / a * Sym(EI(lift(1.0 + 2.0 * hurst / a), lift(xa)))


MODELS = {
    "Gaussian": {},
    "Exponential": {},
    "Stable": {"alpha": (0.0, 2.0, "oc")},
    "Matern": {"nu": (0.2, 30.0, "cc")},
    "Integral": {"nu": (0.0, 50.0, "oc")},
    "Rational": {"alpha": (0.5, 50.0, "cc")},
    "Cubic": {},
    "Linear": {},
    "Circular": {},
    "Spherical": {},
    "HyperSpherical": {},
    "SuperSpherical": {"nu": ("(d-1)/2", 50.0, "cc")},
    "JBessel": {"nu": ("d/2-1", 50.0, "cc")},
    "TPLSimple": {"nu": ("(d+1)/2", 50.0, "cc")},
    # hurst is concrete (0.5; thorough also 0.25): with a symbolic hurst every feasibility query needs
    # monotonicity of x^(2H) and the exploration does not finish
    "TPLGaussian": {"len_low": (0.0, None, "co")},
    "TPLExponential": {"len_low": (0.0, None, "co")},
    "TPLStable": {"alpha": (0.0, 2.0, "oc"), "len_low": (0.0, None, "co")},
}
TPL = ("TPLGaussian", "TPLExponential", "TPLStable")

INT_SCALE = {
    # integral of the correlation branch actually used, in units of l' = len_scale / rescale
    "Gaussian": lambda o: [(True, fn1("sqrt", _pi()) / 2.0)],
    "Exponential": lambda o: [(True, 1.0)],
    "Stable": lambda o: [(True, fn1("gamma", 1.0 + 1.0 / o["alpha"]))],
    "Matern": lambda o: [(lift(o["nu"]) <= 20, _pi() / fn1("sqrt", o["nu"]) / fn2("beta", o["nu"], 0.5)), (lift(o["nu"]) > 20, fn1("sqrt", _pi()))],
    "Integral": lambda o: [(True, o["nu"] * fn1("sqrt", _pi()) / (2.0 * o["nu"] + 2.0))],
    "Rational": lambda o: [(True, fn1("sqrt", _pi() * o["alpha"]) * fn1("gamma", o["alpha"] - 0.5) / fn1("gamma", o["alpha"]) / 2.0)],
}


def _pi():
    from ..npx import PI

    return PI


def _lo(b, d):
    lo = b[0]
    if isinstance(lo, str):
        lo = {"(d-1)/2": (d - 1) / 2, "d/2-1": d / 2 - 1, "(d+1)/2": (d + 1) / 2}[lo]
    return lo


def _assume_bounds(v, b, d):
    lo, hi, typ = _lo(b, d), b[1], b[2]
    if lo is not None:
        sym.assume(v >= lo if typ[0] == "c" else v > lo)
    if hi is not None:
        sym.assume(v <= hi if typ[1] == "c" else v < hi)


def job_model(name, d, tier, hurst=0.5):
    gs, EI = _setup()
    from ..npx import NPX

    T = core.tier_timeout(tier)
    out = []
    v, l, n, s, r = sym.reals("var len nug resc r")
    opt = {k: real(k) for k in MODELS[name]}
    wv = dict(var=v, len=l, nug=n, resc=s, r=r, **opt)
    fixed = {"hurst": hurst} if name in TPL else {}
    rb = ("model", lambda vals: {"model": name, "dim": d, "values": vals, "fixed": fixed})
    tag = f"C03/{name}/d{d}" + (f"/hurst={hurst}" if name in TPL else "")
    opt_all = dict(opt, **fixed)

    def run():
        for x in (v, l, s):
            sym.assume(x > 0)
        sym.assume(n >= 0)
        sym.assume(r >= 0)
        for k, b in MODELS[name].items():
            _assume_bounds(opt[k], b, d)
        # library tolerance bands are treated as exact (the documented limiting formula is used inside them)
        if bool(NPX.isclose(r, 0.0)) or bool(NPX.isclose(r * s / l, 0.0)) or bool(NPX.isclose(r / (l / s), 0.0)):
            sym.assume(r == 0)
        if "len_low" in opt and bool(NPX.isclose(opt["len_low"] / s, 0.0)):
            sym.assume(opt["len_low"] == 0)
        m = getattr(gs, name)(dim=d, var=v, len_scale=l, nugget=n, rescale=s, **opt_all)
        R = lambda: rnp.array([r], dtype=object)
        h = r * s / l
        res = {
            "variogram": m.variogram(R())[0],
            "covariance": m.covariance(R())[0],
            "correlation": m.correlation(R())[0],
            "cor(h)": m.cor(rnp.array([h], dtype=object))[0],
            "vario_nugget": m.vario_nugget(R())[0],
            "cov_nugget": m.cov_nugget(R())[0],
        }
        if d > 1:
            e = real("anis_probe")
            sym.assume(e > 0)
            m2 = getattr(gs, name)(dim=d, var=v, len_scale=l, nugget=n, rescale=s, anis=[e] * (d - 1), **opt_all)
            res["vario_axis1"] = m2.vario_axis(R(), axis=1)[0]
            res["vario(r/anis)"] = m2.variogram(rnp.array([r / e], dtype=object))[0]
            res["cov_axis1"] = m2.cov_axis(R(), axis=1)[0]
            res["cov(r/anis)"] = m2.covariance(rnp.array([r / e], dtype=object))[0]
            res["cor_axis1"] = m2.cor_axis(R(), axis=1)[0]
            res["cor(r/anis)"] = m2.correlation(rnp.array([r / e], dtype=object))[0]
            res["vario_axis0"] = m2.vario_axis(R(), axis=0)[0]
        return res, h

    paths = explore(run, max_paths=600)
    n_ok = 0
    for i, p in enumerate(paths):
        base = f"{tag}/path{i}"
        if p.exc is not None:
            out.append(rec(base, "error", detail=f"{p.exc!r} {p.tb}"))
            continue
        res, h = p.out
        n_ok += 1
        C = p.conds
        g = lambda k: lift(res[k])
        out.append(prove(base + "/variogram==var+nugget-covariance", C, g("variogram") == v.e + n.e - g("covariance"), T, witness_vars=wv, replay=rb))
        out.append(prove(base + "/covariance==var*correlation", C, g("covariance") == v.e * g("correlation"), T, witness_vars=wv, replay=rb))
        hint = [r.e / (l.e / s.e) == r.e * s.e / l.e]  # (trivial; lets congruence closure see equal arguments)
        # (truncated power law models define cor() as the len_low = 0 correlation: for len_low > 0 the
        #  identity does not hold in the library -- listed in known_findings.jsonl and replayed concretely)
        Cc = C + ([lift(opt["len_low"]) == 0] if name in TPL else [])
        if name not in TPL or str(core.Query.satisfiable(Cc, 5)[0]) != "unsat":
            out.append(prove(base + "/correlation(r)==cor(rescale*r/len_scale)", Cc, g("correlation") == g("cor(h)"), T, witness_vars=wv, replay=rb, extra=hint))
        # nugget-aware variants differ only at r = 0
        out.append(prove(base + "/vario_nugget", C, g("vario_nugget") == z3.If(r.e == 0, z3.RealVal(0), g("variogram")), T, witness_vars=wv, replay=rb))
        out.append(prove(base + "/cov_nugget", C, g("cov_nugget") == z3.If(r.e == 0, v.e + n.e, g("covariance")), T, witness_vars=wv, replay=rb))
        if d > 1:
            out.append(prove(base + "/vario_axis(r,1)==variogram(r/anis)", C, g("vario_axis1") == g("vario(r/anis)"), T, witness_vars=wv, replay=rb))
            out.append(prove(base + "/cov_axis(r,1)==covariance(r/anis)", C, g("cov_axis1") == g("cov(r/anis)"), T, witness_vars=wv, replay=rb))
            out.append(prove(base + "/cor_axis(r,1)==correlation(r/anis)", C, g("cor_axis1") == g("cor(r/anis)"), T, witness_vars=wv, replay=rb))
            out.append(prove(base + "/vario_axis(r,0)==variogram(r)", C, g("vario_axis0") == g("variogram"), T, witness_vars=wv, replay=rb))
        # documented closed form
        ref = ref_cor(name, h, opt, d, EI)
        extra_m = []
        if name == "Matern":
            nu = opt["nu"]
            x = fn1("sqrt", nu) * h
            lhs = fn2("pow", 2.0, 1.0 - nu) / fn1("gamma", nu) * fn2("pow", x, nu)
            rhs = _e((1.0 - nu) * Sym(theory.UF["log"](z3.RealVal(2))) - fn1("loggamma", nu) + nu * fn1("log", x))
            lem = z3.Implies(z3.And(lift(nu) > 0, lift(x) > 0), lift(lhs) == lift(rhs))
            if not any("lemma" in o_["id"] for o_ in out):
                out.append(prove(tag + "/lemma: 2^(1-nu)/Gamma(nu) x^nu == exp((1-nu)log2 - loggamma(nu) + nu log x)", [], lem, T, witness_vars=wv, replay=rb, vacuity=False, deep_gen=2, pairwise=False))
            x2 = fn1("sqrt", nu) * (r / (l / s))
            lhs2 = fn2("pow", 2.0, 1.0 - nu) / fn1("gamma", nu) * fn2("pow", x2, nu)
            rhs2 = _e((1.0 - nu) * Sym(theory.UF["log"](z3.RealVal(2))) - fn1("loggamma", nu) + nu * fn1("log", x2))
            # the same lemma instantiated at the argument form the library uses (x := sqrt(nu) * r/(l/s))
            extra_m = [lem, z3.Implies(z3.And(lift(nu) > 0, lift(x2) > 0), lift(lhs2) == lift(rhs2)), lift(x2) == lift(x)]
        if ref is not None:
            cover = z3.Or([c if not isinstance(c, bool) else z3.BoolVal(c) for c, _ in ref])
            out.append(prove(base + "/closed_form_branches_cover", C, cover, T, witness_vars=wv, replay=rb))
            for bi, (cnd, val) in enumerate(ref):
                cnd = z3.BoolVal(cnd) if isinstance(cnd, bool) else cnd
                chk, _ = core.Query.satisfiable(C + [cnd], 5)
                if chk == "unsat":
                    continue
                out.append(prove(base + f"/correlation==documented_closed_form[branch{bi}]", C + [cnd], g("correlation") == lift(val), T, witness_vars=wv, replay=rb, extra=extra_m + hint, pairwise=(name != "Matern")))
    if not n_ok:
        out.append(rec(tag + "/reach", "vacuous"))
    return out, {"model": name, "dim": d, "paths": len(paths)}


def job_scales(name, tier):
    gs, EI = _setup()
    T = core.tier_timeout(tier)
    out = []
    d = 2
    v, l, n, s, I, per = sym.reals("var len nug resc I per")
    opt = {k: real(k) for k in MODELS[name]}
    wv = dict(var=v, len=l, nug=n, resc=s, I=I, per=per, **opt)
    rb = ("scales", lambda vals: {"model": name, "values": vals})
    tag = f"C03/{name}/scales"

    def run():
        for x in (v, l, s, I):
            sym.assume(x > 0)
        sym.assume(n >= 0)
        sym.assume(per > 0)
        sym.assume(per < 1)
        for k, b in MODELS[name].items():
            _assume_bounds(opt[k], b, d)
        if name == "Rational":
            sym.assume(opt["alpha"] > 0.5)  # at alpha = 1/2 the integral of the correlation diverges
        fx = {"hurst": 0.5} if name in TPL else {}
        m = getattr(gs, name)(dim=d, var=v, len_scale=l, nugget=n, rescale=s, **opt, **fx)
        isc = m.integral_scale
        m2 = getattr(gs, name)(dim=d, var=v, len_scale=l, nugget=n, rescale=s, **opt, **fx)
        m2.integral_scale = I
        ps = m.percentile_scale(per)
        vg = m.variogram(rnp.array([ps], dtype=object))[0]
        return isc, m2.len_scale, m2.integral_scale, ps, vg

    for i, p in enumerate(explore(run, max_paths=200)):
        base = f"{tag}/path{i}"
        if p.exc is not None:
            # models without closed-form integral scale go through the opaque integral; a failure to
            # *set* the integral scale there is the documented ValueError, not part of the claim
            if name not in INT_SCALE and isinstance(p.exc, ValueError):
                continue
            out.append(rec(base, "error", detail=f"{p.exc!r} {p.tb}"))
            continue
        isc, l2, isc2, ps, vg = p.out
        C = p.conds
        if name in INT_SCALE:
            for bi, (cnd, unit) in enumerate(INT_SCALE[name](opt)):
                cnd = z3.BoolVal(cnd) if isinstance(cnd, bool) else cnd
                chk, _ = core.Query.satisfiable(C + [cnd], 5)
                if chk == "unsat":
                    continue
                out.append(prove(base + f"/integral_scale==closed_form_integral_of_used_correlation[branch{bi}]", C + [cnd], lift(isc) == l.e / s.e * lift(unit), T, witness_vars=wv, replay=rb))
                if name == "Matern" and bi == 1:
                    # the listed finding, pinned: for nu > 20 the library reports the exact-Matern scale (and nothing else)
                    kn = INT_SCALE[name](opt)[0][1]
                    out.append(prove(base + "/pinned known deviation: integral_scale(nu>20)==exact-Matern formula", C + [cnd], lift(isc) == l.e / s.e * lift(kn), T, witness_vars=wv, replay=rb))
            out.append(prove(base + "/after integral_scale=I: reported scale==I", C, lift(isc2) == I.e, T, witness_vars=wv, replay=rb))
            out.append(prove(base + "/after integral_scale=I: len_scale*unit==I", C, lift(l2) * lift(isc) == I.e * l.e, T, witness_vars=wv, replay=rb))
        out.append(prove(base + "/percentile_scale: (variogram(x)-nugget)/var==per", C, (lift(vg) - n.e) / v.e == per.e, T, witness_vars=wv, replay=rb))
    return out


def job_user_defined(kind, tier):
    """a user model given by one of the four defining functions yields the same derived functions"""
    gs, EI = _setup()
    T = core.tier_timeout(tier)
    out = []
    F = z3.Function("user_F", z3.RealSort(), z3.RealSort())
    Fa = lambda x: rnp.frompyfunc(lambda t: Sym(F(lift(t))), 1, 1)(rnp.asarray(x, dtype=object))
    v, l, n, s, r = sym.reals("var len nug resc r")
    wv = dict(var=v, len=l, nug=n, resc=s, r=r)
    rb = ("user", lambda vals: {"kind": kind, "values": vals})

    if kind == "cor":

        class U(gs.CovModel):
            def cor(self, h):
                return Fa(h)

    elif kind == "correlation":

        class U(gs.CovModel):
            def correlation(self, r):
                return Fa(rnp.asarray(r, dtype=object) / self.len_rescaled)

    elif kind == "covariance":

        class U(gs.CovModel):
            def covariance(self, r):
                return self.var * Fa(rnp.asarray(r, dtype=object) / self.len_rescaled)

    else:

        class U(gs.CovModel):
            def variogram(self, r):
                return self.var * (1.0 - Fa(rnp.asarray(r, dtype=object) / self.len_rescaled)) + self.nugget

    def run():
        for x in (v, l, s):
            sym.assume(x > 0)
        sym.assume(n >= 0)
        sym.assume(r >= 0)
        m = U(dim=2, var=v, len_scale=l, nugget=n, rescale=s)
        R = lambda: rnp.array([r], dtype=object)
        h = r * s / l
        return m.variogram(R())[0], m.covariance(R())[0], m.correlation(R())[0], m.cor(rnp.array([h], dtype=object))[0], h

    for i, p in enumerate(explore(run)):
        base = f"C03/user_defined[{kind}]/path{i}"
        if p.exc is not None:
            out.append(rec(base, "error", detail=f"{p.exc!r} {p.tb}"))
            continue
        vg, cv, cr, co, h = p.out
        fh = F(lift(h))
        C = p.conds
        out.append(prove(base + "/correlation==F(h)", C, lift(cr) == fh, T, witness_vars=wv, replay=rb))
        out.append(prove(base + "/cor(h)==F(h)", C, lift(co) == fh, T, witness_vars=wv, replay=rb))
        out.append(prove(base + "/covariance==var*F(h)", C, lift(cv) == v.e * fh, T, witness_vars=wv, replay=rb))
        out.append(prove(base + "/variogram==var*(1-F(h))+nugget", C, lift(vg) == v.e * (1 - fh) + n.e, T, witness_vars=wv, replay=rb))
    return out


def _ref_inc_gamma(sv, x):
    """upper incomplete gamma function Gamma(s, x), x > 0, by the textbook relations: Gamma(s) Q(s, x) for s > 0, E_1(x) for
    s = 0, x^s E_{1-s}(x) for negative integers and the recurrence Gamma(s+1, x) = s Gamma(s, x) + x^s exp(-x) otherwise
    (orders are dyadic rationals: float arithmetic on them is exact; Gamma(s) of a concrete order is the constant scipy returns)"""
    from ..npx import SPS

    sv = float(sv)
    if sv > 0:
        return SPS.gamma(sv) * Sym(theory.UF["gammaincc"](lift(sv), lift(x)))
    if sv == 0:
        return Sym(theory.UF["exp1"](lift(x)))
    if sv == int(sv):
        return sym.sym_pow(x, sv) * Sym(theory.UF["expn"](lift(1 - sv), lift(x)))
    return (_ref_inc_gamma(sv + 1, x) - sym.sym_pow(x, sv) * _e(-x)) / sv


def job_special(fname, sv, tier):
    """the special functions behind the Integral and truncated-power-law models (real code of gstools.tools.special,
    symbolic argument, concrete order) against the textbook relations"""
    from .. import npx

    npx.install()  # (this job runs the real special-function code: the exp_int stub of the model jobs is not installed)
    import gstools.tools.special as sp

    T = core.tier_timeout(tier)
    out = []
    x = real("x")
    wv = {"x": x}
    rb = ("special", lambda v: {"fn": fname, "s": sv, "values": v})
    tag = f"C03/special/{fname}(s={sv})"

    def run():
        sym.assume(x > 0)
        if fname == "exp_int":
            # the finite branch (the library switches to asymptotic forms for x ~ 0 and x > max(30, -s/2))
            sym.assume(x > 0.001)
            sym.assume(x <= 30)
        X = rnp.array([x], dtype=object)
        return getattr(sp, fname)(sv, X)[0]

    for pi, p in enumerate(explore(run, max_paths=40)):
        base = f"{tag}/path{pi}"
        if p.exc is not None:
            out.append(rec(base, "error", detail=f"{p.exc!r} {p.tb}"))
            continue
        val = p.out
        if fname == "inc_gamma":
            ref = _ref_inc_gamma(sv, x)
            what = "Gamma(s,x) by the recurrence Gamma(s+1,x) = s Gamma(s,x) + x^s exp(-x)"
        elif fname == "inc_gamma_low":
            from ..npx import SPS

            ref = SPS.gamma(float(sv)) * Sym(theory.UF["gammainc"](lift(float(sv)), x.e))
            what = "gamma(s,x) = Gamma(s) P(s,x)"
        else:
            fs = float(sv)
            if fs == 1:
                ref = Sym(theory.UF["exp1"](x.e))
            elif fs == int(fs) and fs > 0:
                ref = Sym(theory.UF["expn"](lift(fs), x.e))
            else:
                ref = _ref_inc_gamma(1 - fs, x) * sym.sym_pow(x, fs - 1)
            what = "E_s(x) = x^(s-1) Gamma(1-s, x)"
        out.append(prove(base + f"/== {what}", p.conds, lift(val) == lift(ref), T, witness_vars=wv, replay=rb, pairwise=False))
    return out


def jobs(tier, seed):
    js = []
    for name in MODELS:
        for d in (1, 2, 3):
            if name in TPL and tier == "quick" and (d != 2 or name == "TPLStable"):
                continue  # (non-linear feasibility queries: minutes per job; thorough tier only)
            js.append(Job(f"model-{name}-d{d}", job_model, name, d, tier))
            if tier == "thorough" and name in TPL:
                js.append(Job(f"model-{name}-d{d}-h0.25", job_model, name, d, tier, 0.25))
        if not (name == "TPLStable" and tier == "quick"):
            js.append(Job(f"scales-{name}", job_scales, name, tier))
    for kind in ("cor", "correlation", "covariance", "variogram"):
        js.append(Job(f"user-{kind}", job_user_defined, kind, tier))
    for sv in (-2.5, -1.5, -0.5, -3.25, 0.5, 1.5, 0.0, -1.0, -2.0):
        js.append(Job(f"special-inc_gamma-{sv}", job_special, "inc_gamma", sv, tier))
    for sv in (0.5, 1.5, 2.5, 3.5, 1.75, 2.75, 4.25, 1.0, 2.0, 3.0):
        js.append(Job(f"special-exp_int-{sv}", job_special, "exp_int", sv, tier))
    for sv in (0.5, 1.5, 2.25):
        js.append(Job(f"special-inc_gamma_low-{sv}", job_special, "inc_gamma_low", sv, tier))
    return js


# --------------------------------------------------------------------------
# replay with mpmath / scipy references


def _g(v, k, d):
    return float(v[k]) if v.get(k) is not None else d


def _ref_cor_num(name, h, o, d):
    import mpmath as mp
    import numpy as np
    from scipy import special as sps

    if name == "Gaussian":
        return math.exp(-h * h)
    if name == "Exponential":
        return math.exp(-h)
    if name == "Stable":
        return math.exp(-(h ** o["alpha"]))
    if name == "Matern":
        nu = o["nu"]
        if nu > 20:
            return math.exp(-((h / 2) ** 2))
        if h == 0:
            return 1.0
        x = math.sqrt(nu) * h
        return float(mp.mpf(2) ** (1 - nu) / mp.gamma(nu) * mp.mpf(x) ** nu * mp.besselk(nu, x))
    if name == "Integral":
        nu = o["nu"]
        return float(nu / 2 * mp.expint(1 + nu / 2, h * h)) if h > 0 else 1.0
    if name == "Rational":
        return (1 + h * h / o["alpha"]) ** (-o["alpha"])
    if name == "Cubic":
        return 1 - 7 * h**2 + 8.75 * h**3 - 3.5 * h**5 + 0.75 * h**7 if h < 1 else 0.0
    if name == "Linear":
        return max(1 - h, 0.0)
    if name == "Circular":
        return 2 / math.pi * (math.acos(h) - h * math.sqrt(1 - h * h)) if h < 1 else 0.0
    if name == "Spherical":
        return 1 - 1.5 * h + 0.5 * h**3 if h < 1 else 0.0
    if name in ("HyperSpherical", "SuperSpherical"):
        nu = (d - 1) / 2 if name == "HyperSpherical" else o["nu"]
        return float(1 - h * mp.hyp2f1(0.5, -nu, 1.5, h * h) / mp.hyp2f1(0.5, -nu, 1.5, 1)) if h < 1 else 0.0
    if name == "JBessel":
        nu = o["nu"]
        return float(mp.gamma(nu + 1) * mp.besselj(nu, h) / (mp.mpf(h) / 2) ** nu) if h > 1e-8 else 1.0
    if name == "TPLSimple":
        return max(1 - h, 0.0) ** o["nu"]
    return None


def replay_model(inputs):
    import warnings

    import numpy as np

    warnings.simplefilter("ignore")
    import gstools as gs

    name, d, v = inputs["model"], int(inputs["dim"]), inputs["values"]
    var, l, n, s = abs(_g(v, "var", 1.3)) or 1.3, abs(_g(v, "len", 2.1)) or 2.1, abs(_g(v, "nug", 0.2)), abs(_g(v, "resc", 1.4)) or 1.4
    r = abs(_g(v, "r", 0.8))
    opt = {}
    for k, b in MODELS[name].items():
        lo = _lo(b, d)
        dflt = (lo if lo is not None else 0.0) + 0.7 if b[1] is None else ((lo + b[1]) / 2)
        opt[k] = _g(v, k, dflt)
    opt.update(inputs.get("fixed") or {})
    try:
        m = getattr(gs, name)(dim=d, var=var, len_scale=l, nugget=n, rescale=s, **opt)
    except ValueError as e:
        return True, f"precondition: {e}"
    R = np.array([r])
    vg, cv, cr = m.variogram(R)[0], m.covariance(R)[0], m.correlation(R)[0]
    h = r * s / l
    bad = []
    tol = dict(rtol=1e-7, atol=1e-10)
    if not np.isclose(vg, var + n - cv, **tol):
        bad.append("variogram")
    if not np.isclose(cv, var * cr, **tol):
        bad.append("covariance")
    if not np.isclose(cr, m.cor(np.array([h]))[0], **tol):
        bad.append("cor")
    if not np.isclose(m.vario_nugget(R)[0], 0.0 if np.isclose(r, 0) else vg, **tol):
        bad.append("vario_nugget")
    if not np.isclose(m.cov_nugget(R)[0], var + n if np.isclose(r, 0) else cv, **tol):
        bad.append("cov_nugget")
    if d > 1:
        e = abs(_g(v, "anis_probe", 0.6)) or 0.6
        m2 = getattr(gs, name)(dim=d, var=var, len_scale=l, nugget=n, rescale=s, anis=[e] * (d - 1), **opt)
        if not np.isclose(m2.vario_axis(R, axis=1)[0], m2.variogram(R / e)[0], **tol):
            bad.append("vario_axis")
        if not np.isclose(m2.cov_axis(R, axis=1)[0], m2.covariance(R / e)[0], **tol):
            bad.append("cov_axis")
        if not np.isclose(m2.cor_axis(R, axis=1)[0], m2.correlation(R / e)[0], **tol):
            bad.append("cor_axis")
    ref = _ref_cor_num(name, h, opt, d)
    if ref is not None and not np.isclose(cr, ref, rtol=1e-6, atol=1e-9):
        bad.append(f"closed form: library={cr} documented={ref}")
    return (not bad), f"{name} d={d} var={var} len={l} nug={n} resc={s} r={r} opt={opt} failing={bad}"


def replay_scales(inputs):
    import warnings

    import numpy as np
    from scipy.integrate import quad

    warnings.simplefilter("ignore")
    import gstools as gs

    name, v = inputs["model"], inputs["values"]
    d = 2
    var, l, n, s = abs(_g(v, "var", 1.3)) or 1.3, abs(_g(v, "len", 2.1)) or 2.1, abs(_g(v, "nug", 0.2)), abs(_g(v, "resc", 1.4)) or 1.4
    I, per = abs(_g(v, "I", 1.7)) or 1.7, min(max(_g(v, "per", 0.6), 0.01), 0.99)
    opt = {}
    for k, b in MODELS[name].items():
        lo = _lo(b, d)
        dflt = (lo if lo is not None else 0.0) + 0.7 if b[1] is None else ((lo + b[1]) / 2)
        opt[k] = _g(v, k, dflt)
    try:
        m = getattr(gs, name)(dim=d, var=var, len_scale=l, nugget=n, rescale=s, **opt)
    except ValueError as e:
        return True, f"precondition: {e}"
    bad = []
    num = quad(lambda x: float(m.correlation(x)), 0, np.inf, limit=200)[0]
    if name in INT_SCALE and not np.isclose(m.integral_scale, num, rtol=2e-4):
        bad.append(f"integral_scale reported={m.integral_scale} integral of correlation={num}")
    if name in INT_SCALE:
        m2 = getattr(gs, name)(dim=d, var=var, len_scale=l, nugget=n, rescale=s, **opt)
        m2.integral_scale = I
        if not np.isclose(m2.integral_scale, I, rtol=1e-8):
            bad.append("set integral_scale")
    ps = m.percentile_scale(per)
    if not np.isclose((m.variogram(ps) - n) / var, per, rtol=1e-5, atol=1e-7):
        bad.append("percentile_scale")
    return (not bad), f"{name} var={var} len={l} resc={s} opt={opt} failing={bad}"


def replay_user(inputs):
    return True, "user-defined derivation: symbolic only (uninterpreted F); replay not applicable"


def replay_special(inputs):
    import numpy as np
    from scipy import integrate

    import gstools.tools.special as sp

    fname, sv, v = inputs["fn"], float(inputs["s"]), inputs.get("values") or {}
    bad = []
    for x in [abs(_g(v, "x", 0.7)) or 0.7, 0.05, 0.7, 2.3, 9.0]:
        if fname == "exp_int" and not (0.001 < x <= 30):
            continue
        got = float(np.asarray(getattr(sp, fname)(sv, np.array([x])))[0])
        if fname == "inc_gamma":
            want = integrate.quad(lambda t: t ** (sv - 1) * np.exp(-t), x, np.inf, limit=400)[0]
        elif fname == "inc_gamma_low":
            want = integrate.quad(lambda t: t ** (sv - 1) * np.exp(-t), 0, x, limit=400)[0]
        else:
            want = integrate.quad(lambda t: np.exp(-x * t) / t**sv, 1, np.inf, limit=400)[0]
        if not np.isclose(got, want, rtol=1e-6, atol=1e-12):
            bad.append(f"{fname}({sv}, {x}) = {got} but the defining integral is {want}")
    return (not bad), f"{bad[:3]}"


REPLAY = {"model": replay_model, "scales": replay_scales, "user": replay_user, "special": replay_special}

"""C14  Model parameters form a consistent state independent of how it was reached."""
import itertools

import numpy as rnp
import z3

from .. import core, sym
from ..core import Job, prove, rec
from ..sym import Sym, explore, lift, real

FILES = ["src/gstools/covmodel/base.py", "src/gstools/covmodel/tools.py", "src/gstools/covmodel/tpl_models.py", "src/gstools/covmodel/models.py", "src/gstools/tools/geometric.py"]

SPEC = {
    "level": "model_checking",
    "engine": "E1",
    "files": FILES,
    "functions": [
        "gstools.covmodel.base.CovModel.__init__",
        "CovModel.var/var_raw/len_scale/anis/angles/nugget/rescale/dim/integral_scale setters",
        "CovModel.__setattr__ (optional arguments)",
        "CovModel.sill/len_scale_vec/field_dim/spatial_dim",
        "gstools.covmodel.tools.set_len_anis",
        "gstools.covmodel.tools.set_model_angles",
        "gstools.covmodel.tools.set_dim",
        "gstools.covmodel.tools.set_arg_bounds",
        "gstools.covmodel.tools.check_arg_bounds",
        "gstools.covmodel.tools.check_arg_in_bounds",
        "gstools.covmodel.tools.default_arg_from_bounds",
        "gstools.covmodel.tpl_models.TPLCovModel.var_factor",
        "gstools.tools.geometric.set_anis/set_angles",
    ],
    "bounds": {
        "quick": {"history_length": "every single assignment in all 9 configurations; all ordered pairs in plain d=2, lat-lon+temporal and Stable; pairs of var_factor setters for TPLGaussian", "configs": "plain d=1,2,3; temporal d=3; latlon; latlon+temporal; Stable (opt arg); Exponential; TPLGaussian (var_factor)", "values": "symbolic (every real value, in and out of bounds)"},
        "thorough": {"history_length": "all ordered pairs in all configurations; <= 3 for the interacting setters (len_scale scalar/list, anis, dim, var, var_raw, integral_scale, opt arg), <= 2 for all", "configs": "as quick"},
    },
    "stubs": ["hankel.SymmetricFourierTransform constructed concretely (dimension only)", "warnings ignored"],
    "oracle": "reference transition function of the documented setter semantics (docstring of CovModel: list of length scales redefines anis, "
    "too few anis are front-filled with 1, too few angles back-filled with 0, TPL variance follows intensity, lat-lon keeps space isotropic "
    "and never touches the time ratio, temporal models zero the space-time angles) and a freshly constructed model with the resulting values",
    "outside": ["a truncated-power-law variance leaving user-set bounds through rescale= (derived change)", "state after a rejected assignment (no rollback is documented)", "histories longer than the bound", "bounds given as symbolic values"],
    "assumptions": ["floats read as reals", "initial state is any constructible model (parameters inside default bounds)"],
}

JOB_TIMEOUT = {"quick": 900, "thorough": 3000}


def _setup():
    from .. import npx

    npx.install()
    import gstools as gs

    return gs


# --------------------------------------------------------------------------
# configurations

CONFIGS = {
    "plain1": dict(cls="Gaussian", dim=1),
    "plain2": dict(cls="Gaussian", dim=2),
    "plain3": dict(cls="Gaussian", dim=3),
    "temporal3": dict(cls="Gaussian", dim=3, temporal=True),
    "latlon": dict(cls="Gaussian", dim=3, latlon=True),
    "latlon_t": dict(cls="Gaussian", dim=4, latlon=True, temporal=True),
    "stable2": dict(cls="Stable", dim=2, opt=["alpha"]),
    # hurst is fixed to 1/4 (2*hurst = 1/2: var_factor is a difference of square roots);
    # with a symbolic hurst every feasibility query needs monotonicity of x^(2h) and times out
    "tplgau2": dict(cls="TPLGaussian", dim=2, opt=["len_low"], fixed_opt={"hurst": 0.25}),
    "expo2": dict(cls="Exponential", dim=2),
}

OPT_BOUNDS = {
    ("Stable", "alpha"): (0.0, 2.0, "oc"),
    ("TPLGaussian", "hurst"): (0.1, 1.0, "oo"),
    ("TPLGaussian", "len_low"): (0.0, None, "co"),
}


def n_angles(d):
    return d * (d - 1) // 2


# admissibility conditions are lists of (lhs, relation, rhs) so that the same
# reference runs symbolically (z3) and concretely (replay)
def cz3(conds):
    out = []
    for a, r, b in conds:
        a, b = lift(a), lift(b)
        out.append({">": a > b, ">=": a >= b, "<": a < b, "<=": a <= b, "!=": a != b}[r])
    return z3.And(out) if out else z3.BoolVal(True)


def cholds(conds):
    import operator

    ops = {">": operator.gt, ">=": operator.ge, "<": operator.lt, "<=": operator.le, "!=": operator.ne}
    return all(ops[r](float(a), float(b)) for a, r, b in conds)


def in_bounds(val, bnd):
    lo, hi, typ = bnd
    cs = []
    if lo is not None:
        cs.append((val, ">=" if typ[0] == "c" else ">", lo))
    if hi is not None:
        cs.append((val, "<=" if typ[1] == "c" else "<", hi))
    return cs


class RefState:
    """Reference (specification) state of a model; values are Sym terms or floats."""

    def __init__(self, cfg, vals, fns):
        self.cfg = cfg
        self.fns = fns  # dict: sqrt_pi, gamma  (symbolic or concrete)
        self.cls = cfg["cls"]
        self.latlon = bool(cfg.get("latlon"))
        self.temporal = bool(cfg.get("temporal"))
        self.dim = cfg["dim"]
        self.var_raw = None
        self.len_scale = vals["l"]
        self.nugget = vals["n"]
        self.rescale = vals["r"]
        self.anis = self._fix_anis(list(vals["anis"]))
        self.angles = self._fix_angles(list(vals["angles"]))
        self.opt = {k: vals[k] for k in cfg.get("opt", [])}
        self.opt.update(cfg.get("fixed_opt", {}))
        self.bounds = {"var": (0.0, None, "oo"), "len_scale": (0.0, None, "oo"), "nugget": (0.0, None, "co"), "anis": (0.0, None, "oo")}
        for k in self.opt:
            self.bounds[k] = OPT_BOUNDS[(self.cls, k)]
        self.fixed = set(cfg.get("fixed_opt", {}))
        self.set_var(vals["v"])

    # --- documented normalisations
    def _fix_anis(self, anis):
        """too few ratios are front-filled with 1, lat-lon keeps space isotropic"""
        d = self.dim
        anis = list(anis)[: d - 1]
        anis = [1.0] * (d - 1 - len(anis)) + anis
        if self.latlon:
            for i in range(min(2, len(anis))):
                anis[i] = 1.0
        return anis

    def _ratios_from_lengths(self, ls):
        """a list of length scales: ratios to the first, the last one repeated"""
        d = self.dim
        ls = list(ls)[:d]
        ls = ls + [ls[-1]] * (d - len(ls))
        return [ls[i] / ls[0] for i in range(1, d)]

    def _fix_angles(self, angles):
        d = self.dim
        if self.latlon:
            return [0.0] * n_angles(d)
        angles = list(angles)[: n_angles(d)]
        angles = angles + [0.0] * (n_angles(d) - len(angles))
        if self.temporal:
            for i in range(n_angles(d - 1), n_angles(d)):
                angles[i] = 0.0
        return angles

    def var_factor(self):
        if self.cls == "TPLGaussian":
            h, ll = self.opt["hurst"], self.opt["len_low"]
            up = (ll + self.len_scale) / self.rescale
            lo = ll / self.rescale
            return (up ** (2 * h) - lo ** (2 * h)) / (2 * h)
        return 1.0

    @property
    def var(self):
        return self.var_raw * self.var_factor()

    def set_var(self, v):
        self.var_raw = v / self.var_factor()

    def int_scale_unit(self):
        """calc_integral_scale() at len_scale = 1 (closed forms of the docs)."""
        if self.cls == "Gaussian":
            return (1.0 / self.rescale) * self.fns["sqrt_pi"] / 2.0
        if self.cls == "Exponential":
            return 1.0 / self.rescale
        if self.cls == "Stable":
            return (1.0 / self.rescale) * self.fns["gamma"](1.0 + 1.0 / self.opt["alpha"])
        return None

    def all_in_bounds(self):
        """what check_arg_bounds enforces after every assignment"""
        cs = in_bounds(self.var, self.bounds["var"]) + in_bounds(self.len_scale, self.bounds["len_scale"]) + in_bounds(self.nugget, self.bounds["nugget"])
        for a in self.anis:
            if not isinstance(a, float) or a != 1.0:
                cs += in_bounds(a, self.bounds["anis"])
        for k, v in self.opt.items():
            if k not in self.fixed:
                cs += in_bounds(v, self.bounds[k])
        return cs

    def valid(self):
        return cz3(self.all_in_bounds())


def sym_fns():
    from ..npx import NPX, SPS

    return {"sqrt_pi": NPX.sqrt(NPX.pi), "gamma": SPS.gamma}


def conc_fns():
    import math

    return {"sqrt_pi": math.sqrt(math.pi), "gamma": math.gamma}


# --------------------------------------------------------------------------
# operations.  Each returns (names of fresh values, do(model, values), spec(ref, values))
# spec mutates the reference state and returns the admissibility conditions of the
# assignment: it must be accepted iff they hold (given all earlier steps were accepted).


def make_ops(cfg):
    d = cfg["dim"]
    ops = {}

    def op(name, valnames):
        def deco(fs):
            do, spec = fs()
            ops[name] = (valnames, do, spec)
            return fs

        return deco

    @op("var", ["var"])
    def _():
        def do(m, x):
            m.var = x["var"]

        def spec(ref, x):
            ref.set_var(x["var"])
            return ref.all_in_bounds()

        return do, spec

    @op("var_raw", ["vraw"])
    def _():
        def do(m, x):
            m.var_raw = x["vraw"]

        def spec(ref, x):
            ref.var_raw = x["vraw"]
            return ref.all_in_bounds()

        return do, spec

    @op("nugget", ["nug"])
    def _():
        def do(m, x):
            m.nugget = x["nug"]

        def spec(ref, x):
            ref.nugget = x["nug"]
            return ref.all_in_bounds()

        return do, spec

    @op("len_scale", ["len"])
    def _():
        def do(m, x):
            m.len_scale = x["len"]

        def spec(ref, x):
            # anisotropy ratios (incl. the time ratio of lat-lon models) are documented to stay
            ref.len_scale = x["len"]
            return ref.all_in_bounds()

        return do, spec

    if d >= 2 and not cfg.get("latlon"):

        @op("len_scale_list", [f"len{i}" for i in range(d)])
        def _():
            def do(m, x):
                m.len_scale = [x[f"len{i}"] for i in range(d)]

            def spec(ref, x):
                vs = [x[f"len{i}"] for i in range(d)]
                ref.len_scale = vs[0]
                if ref.dim > 1 and len(vs[: ref.dim]) > 1:
                    ref.anis = ref._ratios_from_lengths(vs)
                return ref.all_in_bounds()

            return do, spec

    if d >= 3 and not cfg.get("latlon"):

        @op("len_scale_list2", ["lenb0", "lenb1"])
        def _():
            def do(m, x):
                m.len_scale = [x["lenb0"], x["lenb1"]]

            def spec(ref, x):
                vs = [x["lenb0"], x["lenb1"]]
                ref.len_scale = vs[0]
                if ref.dim > 1:
                    ref.anis = ref._ratios_from_lengths(vs)
                return ref.all_in_bounds()

            return do, spec

    if d >= 2:

        @op("anis_list", [f"an{i}" for i in range(d - 1)])
        def _():
            def do(m, x):
                m.anis = [x[f"an{i}"] for i in range(d - 1)]

            def spec(ref, x):
                vs = [x[f"an{i}"] for i in range(d - 1)]
                kept = vs[: max(ref.dim - 1, 0)]
                ref.anis = ref._fix_anis(vs)
                # the given ratios that are used must be > 0 (checked before lat-lon overwrites them)
                return [(a, ">", 0.0) for a in kept] + ref.all_in_bounds()

            return do, spec

        @op("anis_scalar", ["ans"])
        def _():
            def do(m, x):
                m.anis = x["ans"]

            def spec(ref, x):
                kept = [x["ans"]][: max(ref.dim - 1, 0)]
                ref.anis = ref._fix_anis([x["ans"]])
                return [(a, ">", 0.0) for a in kept] + ref.all_in_bounds()

            return do, spec

        @op("angles_list", [f"ang{i}" for i in range(n_angles(d))])
        def _():
            def do(m, x):
                m.angles = [x[f"ang{i}"] for i in range(n_angles(d))]

            def spec(ref, x):
                ref.angles = ref._fix_angles([x[f"ang{i}"] for i in range(n_angles(d))])
                return ref.all_in_bounds()

            return do, spec

        @op("angles_scalar", ["angs"])
        def _():
            def do(m, x):
                m.angles = x["angs"]

            def spec(ref, x):
                ref.angles = ref._fix_angles([x["angs"]])
                return ref.all_in_bounds()

            return do, spec

    @op("rescale", ["resc"])
    def _():
        def do(m, x):
            m.rescale = x["resc"]

        def spec(ref, x):
            ref.rescale = abs(x["resc"])
            return []  # rescale has no bounds and triggers no check

        return do, spec

    for k in cfg.get("opt", []):

        def mk(k=k):
            def do(m, x):
                setattr(m, k, x[k])

            def spec(ref, x):
                ref.opt[k] = x[k]
                return ref.all_in_bounds()

            return do, spec

        ops["opt_" + k] = ([k],) + mk()

    if not cfg.get("latlon"):
        for nd in (d - 1, d + 1):
            lo = 2 if cfg.get("temporal") else 1
            if nd < lo or nd > 4:
                continue

            def mkd(nd=nd):
                def do(m, x):
                    m.dim = nd

                def spec(ref, x):
                    ref.dim = nd
                    ref.anis = ref._fix_anis(ref.anis)
                    ref.angles = ref._fix_angles(ref.angles)
                    return ref.all_in_bounds()

                return do, spec

            ops[f"dim{nd}"] = ([],) + mkd()

    if cfg["cls"] in ("Gaussian", "Exponential", "Stable"):

        @op("integral_scale", ["isc"])
        def _():
            def do(m, x):
                m.integral_scale = x["isc"]

            def spec(ref, x):
                ref.len_scale = x["isc"] / ref.int_scale_unit()
                # the setter first assigns the value itself as length scale (so the value has to be an admissible length scale),
                # then the resulting length scale is checked like any other assignment
                return in_bounds(x["isc"], ref.bounds["len_scale"]) + ref.all_in_bounds()

            return do, spec

    @op("bounds_var", [])
    def _():
        lo, hi = 0.5, 2.0

        def do(m, x):
            m.set_arg_bounds(var=[lo, hi, "cc"])

        def spec(ref, x):
            # documented: a value outside the new bounds is replaced by the default (midpoint)
            ref.bounds["var"] = (lo, hi, "cc")
            ref.pending_default = (in_bounds(ref.var, ref.bounds["var"]), lambda r_: r_.set_var((lo + hi) / 2.0))
            return []

        return do, spec

    # (not for the truncated-power-law configuration: replacing an out-of-bounds length scale by the default changes the derived
    #  variance, which the library then checks against the variance bounds -- consistent, but outside this reference)
    @op("bounds_len", [])
    def _():
        llo, lhi = 0.25, 4.0

        def do(m, x):
            m.set_arg_bounds(len_scale=[llo, lhi])  # two-element bounds: closed interval

        def spec(ref, x):
            ref.bounds["len_scale"] = (llo, lhi, "cc")

            def dflt(r_):
                r_.len_scale = (llo + lhi) / 2.0

            ref.pending_default = (in_bounds(ref.len_scale, ref.bounds["len_scale"]), dflt)
            return []

        return do, spec

    if d >= 2 and not cfg.get("latlon"):

        @op("bounds_anis", [])
        def _():
            alo, ahi = 0.25, 4.0

            def do(m, x):
                m.set_arg_bounds(anis=[alo, ahi])  # two-element bounds: closed interval

            def spec(ref, x):
                # documented: if any ratio is outside the new bounds, all ratios are replaced by the default (midpoint)
                ref.bounds["anis"] = (alo, ahi, "cc")
                inb = []
                for a in ref.anis:
                    inb += in_bounds(a, ref.bounds["anis"])

                def dflt(r_):
                    r_.anis = r_._fix_anis([(alo + ahi) / 2.0] * (r_.dim - 1))

                ref.pending_default = (inb, dflt)
                return []

            return do, spec

    if cfg["cls"].startswith("TPL"):
        ops.pop("bounds_len", None)
    return ops


def public_state(m):
    st = {
        "dim": m.dim,
        "var": m.var,
        "var_raw": m.var_raw,
        "len_scale": m.len_scale,
        "nugget": m.nugget,
        "rescale": m.rescale,
        "sill": m.sill,
        "field_dim": m.field_dim,
        "spatial_dim": m.spatial_dim,
        "anis": list(m.anis),
        "angles": list(m.angles),
        "len_scale_vec": list(m.len_scale_vec),
        "opt": {k: getattr(m, k) for k in m.opt_arg},
    }
    return st


def ref_public(ref):
    d = ref.dim
    lv = [ref.len_scale] + [ref.len_scale * a for a in ref.anis]
    return {
        "dim": d,
        "var": ref.var,
        "var_raw": ref.var_raw,
        "len_scale": ref.len_scale,
        "nugget": ref.nugget,
        "rescale": ref.rescale,
        "sill": ref.var + ref.nugget,
        "field_dim": (2 + int(ref.temporal)) if ref.latlon else d,
        "spatial_dim": 2 if ref.latlon else d - int(ref.temporal),
        "anis": list(ref.anis),
        "angles": list(ref.angles),
        "len_scale_vec": lv,
        "opt": dict(ref.opt),
    }


def flat(st):
    out = {}
    for k, v in st.items():
        if isinstance(v, dict):
            for kk, vv in v.items():
                out[f"{k}.{kk}"] = vv
        elif isinstance(v, list):
            out[f"len({k})"] = len(v)
            for i, vv in enumerate(v):
                out[f"{k}[{i}]"] = vv
        else:
            out[k] = v
    return out


def construct(gs, cfg, vals, ref=None):
    cls = getattr(gs, cfg["cls"])
    kw = {}
    if cfg.get("latlon"):
        kw["latlon"] = True
    if cfg.get("temporal"):
        kw["temporal"] = True
    for k in cfg.get("opt", []):
        kw[k] = vals[k]
    kw.update(cfg.get("fixed_opt", {}))
    return cls(dim=cfg["dim"], var=vals["v"], len_scale=vals["l"], nugget=vals["n"], anis=list(vals["anis"]) if vals["anis"] else 1.0, angles=list(vals["angles"]) if vals["angles"] else 0.0, rescale=vals["r"], **kw)


def init_vals(cfg):
    d = cfg["dim"]
    vals = {"v": real("v0"), "l": real("l0"), "n": real("n0"), "r": real("r0"), "anis": [real(f"a0_{i}") for i in range(d - 1)], "angles": [real(f"g0_{i}") for i in range(n_angles(d))]}
    for k in cfg.get("opt", []):
        vals[k] = real(f"o0_{k}")
    return vals


def witness_vars(vals, extra):
    w = {"v0": vals["v"], "l0": vals["l"], "n0": vals["n"], "r0": vals["r"]}
    for i, a in enumerate(vals["anis"]):
        w[f"a0_{i}"] = a
    for i, a in enumerate(vals["angles"]):
        w[f"g0_{i}"] = a
    for k in vals:
        if k not in ("v", "l", "n", "r", "anis", "angles"):
            w[f"o0_{k}"] = vals[k]
    w.update(extra)
    return w


def step_values(ops, seq, mk):
    """fresh values per step: {step: {name: value}} using mk(step, name)"""
    return [{n: mk(k, n) for n in ops[name][0]} for k, name in enumerate(seq)]


def run_reference(cfg, seq, vals, xs, fns, decide):
    """Reference run: returns (ref, admissibility list per step).  ``decide`` resolves the
    documented default-replacement of set_arg_bounds (symbolic: forks; concrete: evaluates)."""
    ops = make_ops(cfg)
    ref = RefState(cfg, vals, fns)
    adm = []
    for k, name in enumerate(seq):
        ref.pending_default = None
        adm.append(ops[name][2](ref, xs[k]))
        if ref.pending_default is not None:
            inb, dflt = ref.pending_default
            if not decide(inb):
                dflt(ref)
    return ref, adm


def job_history(cfgname, seq, tier):
    gs = _setup()
    cfg = CONFIGS[cfgname]
    T = core.tier_timeout(tier)
    ops = make_ops(cfg)
    hid = f"C14/{cfgname}/" + ">".join(seq)
    vals = init_vals(cfg)
    xs = step_values(ops, seq, lambda k, n: real(f"s{k}_{n}"))
    wv = {}
    for k, x in enumerate(xs):
        for n, v in x.items():
            wv[f"s{k}_{n}"] = v
    wvars = witness_vars(vals, wv)
    rb = ("history", lambda v: {"config": cfgname, "seq": list(seq), "values": v})
    fns = sym_fns()

    def run():
        # arbitrary valid initial state
        ref0 = RefState(cfg, vals, fns)
        sym.assume(ref0.valid())
        sym.assume(lift(vals["r"]) > 0)
        for a in vals["anis"]:
            sym.assume(a > 0)
        for k, name in enumerate(seq):
            if name == "rescale":
                sym.assume(xs[k]["resc"] != 0)  # documented use: a factor to divide by
        m = construct(gs, cfg, vals)
        ref = RefState(cfg, vals, fns)
        admissible = []
        for k, name in enumerate(seq):
            _, do, spec = ops[name]
            ref.pending_default = None
            adm = cz3(spec(ref, xs[k]))
            pend = ref.pending_default
            try:
                do(m, xs[k])
            except ValueError as e:
                return ("rejected", k, adm, admissible, str(e)[:80])
            if pend is not None:
                inb, dflt = pend
                if not bool(sym.SymBool(cz3(inb))):
                    dflt(ref)
            admissible.append(adm)
        st = public_state(m)
        # fresh model constructed directly with the resulting (reference) values
        rp = ref_public(ref)
        cfg2 = dict(cfg, dim=ref.dim)
        v2 = {"v": rp["var"], "l": rp["len_scale"], "n": rp["nugget"], "r": rp["rescale"], "anis": rp["anis"], "angles": rp["angles"]}
        v2.update(rp["opt"])
        try:
            m2 = construct(gs, cfg2, v2)
            if ref.bounds["var"][1] is not None:
                # (a truncated-power-law variance can leave user-set bounds through rescale= -- a derived change, no assignment
                #  is involved and none is rejected; then the bounds are not re-applied to the fresh model: outside the claim)
                inb_ = cz3(in_bounds(rp["var"], ref.bounds["var"]))
                if isinstance(inb_, bool) and inb_ or (not isinstance(inb_, bool) and bool(sym.SymBool(inb_))):
                    m2.set_arg_bounds(var=[ref.bounds["var"][0], ref.bounds["var"][1], "cc"])
            st2 = public_state(m2)
        except ValueError as e:
            st2 = ("fresh construction rejected", str(e)[:80])
        return ("ok", st, rp, st2, admissible)

    paths = explore(run, max_paths=400)
    out = []
    n_ok = 0
    for pi, p in enumerate(paths):
        if p.exc is not None:
            out.append(rec(f"{hid}/path{pi}", "error", detail=f"{p.exc!r} {p.tb}"))
            continue
        o = p.out
        if o[0] == "rejected":
            _, k, adm, admissible, msg = o
            # a rejection must only happen for an inadmissible value at that step
            out.append(prove(f"{hid}/reject_only_out_of_bounds@{k}", p.conds, z3.Not(adm), T, witness_vars=wvars, replay=rb, note=msg))
            continue
        _, st, rp, st2, admissible = o
        n_ok += 1
        # accepted => every step admissible (out-of-bounds values are always rejected)
        out.append(prove(f"{hid}/accept_only_in_bounds", p.conds, z3.And(admissible) if admissible else z3.BoolVal(True), T, witness_vars=wvars, replay=rb))
        fs, fr = flat(st), flat(rp)
        keys = sorted(set(fs) | set(fr))
        goals = []
        bad_struct = []
        for k in keys:
            if k not in fs or k not in fr:
                bad_struct.append(k)
                continue
            a, b = fs[k], fr[k]
            if isinstance(a, (int, str)) and isinstance(b, (int, str)) and not isinstance(a, bool):
                if a != b:
                    bad_struct.append(f"{k}:{a}!={b}")
                continue
            goals.append((k, core.eq(a, b)))
        if bad_struct:
            out.append(rec(f"{hid}/structure", "sat", witness={}, replay={"kind": "history", "inputs": {"config": cfgname, "seq": list(seq), "values": {}}}, detail=str(bad_struct)))
        for k, g in goals:
            out.append(prove(f"{hid}/state[{k}]==spec", p.conds, g, T, witness_vars=wvars, replay=rb))
        if isinstance(st2, tuple):
            out.append(rec(f"{hid}/fresh_constructible", "sat", witness={}, replay={"kind": "history", "inputs": {"config": cfgname, "seq": list(seq), "values": {}}}, detail=str(st2)))
        else:
            f2 = flat(st2)
            g2 = []
            for k in keys:
                if k in fs and k in f2 and not isinstance(fs[k], (int, str)):
                    g2.append((k, core.eq(fs[k], f2[k])))
                elif k in fs and k in f2 and fs[k] != f2[k]:
                    g2.append((k, z3.BoolVal(False)))
            if cfg["cls"].startswith("TPL"):
                # (non-linear var_factor terms: entry by entry instead of one conjunction)
                for k, g_ in g2:
                    out.append(prove(f"{hid}/state[{k}]==fresh_model", p.conds, g_, T, witness_vars=wvars, replay=rb))
            else:
                out.append(prove(f"{hid}/state==fresh_model", p.conds, z3.And([g_ for _k, g_ in g2]), T, witness_vars=wvars, replay=rb))
    if n_ok == 0:
        out.append(rec(f"{hid}/reachability", "vacuous", detail="no accepting path"))
    return out, {"history": hid, "paths": len(paths), "accepting": n_ok}


INTERACTING = ["len_scale", "len_scale_list", "anis_list", "var", "var_raw", "integral_scale", "opt_hurst", "opt_len_low", "opt_alpha", "dim1", "dim2", "dim3", "dim4", "rescale"]


FACTOR_OPS = ["len_scale", "len_scale_list", "opt_len_low", "rescale", "var", "var_raw"]


QUICK_PAIR_CONFIGS = ("plain2", "latlon_t", "stable2")


JOBS_PER_PROCESS = 12  # hundreds of sub-second jobs: fixed batches of consecutive jobs share one process


def jobs(tier, seed):
    js = []
    for cfgname, cfg in CONFIGS.items():
        names = list(make_ops(cfg).keys())
        seqs = [(a,) for a in names]
        if tier == "quick":
            # quick: every single assignment in every configuration; all ordered pairs in four
            # representative configurations; pairs among the var_factor setters for the TPL model
            if cfgname == "tplgau2":
                seqs += list(itertools.product([n for n in names if n in ("len_scale", "opt_len_low", "var")], repeat=2))
            elif cfgname in QUICK_PAIR_CONFIGS:
                seqs += list(itertools.product([n for n in names if n not in ("bounds_anis", "bounds_len")], repeat=2))
            # length-scale bounds against every way of changing the length scale (direct, list, integral scale, rescale)
            if cfgname != "tplgau2":
                seqs += [("bounds_len", n) for n in names if n in ("len_scale", "len_scale_list", "len_scale_list2", "integral_scale", "rescale")] + [(n, "bounds_len") for n in names if n in ("len_scale", "integral_scale")]
            if "bounds_anis" in names:
                # list-valued parameter against finite closed bounds (several ratios, only some outside)
                seqs += [("bounds_anis", n) for n in names if n in ("anis_list", "anis_scalar", "len_scale_list", "len_scale_list2", "len_scale")] + [(n, "bounds_anis") for n in names if n in ("anis_list", "len_scale_list")]
        else:
            seqs += list(itertools.product(names, repeat=2))
            if cfgname != "tplgau2":
                inter = [n for n in names if n in INTERACTING]
                seqs += [s for s in itertools.product(inter, repeat=3) if len(set(s)) > 1]
        for s in seqs:
            js.append(Job(f"{cfgname}:{'>'.join(s)}", job_history, cfgname, s, tier))
    return js


def make_ops_names(cfg):
    class _D:
        pass

    return make_ops(cfg).keys()


# --------------------------------------------------------------------------
# replay: run the history concretely on the unpatched library and compare with
# a model constructed directly from the documented resulting values


def replay_history(inputs):
    import warnings

    import numpy as np

    warnings.simplefilter("ignore")
    import gstools as gs

    cfg = CONFIGS[inputs["config"]]
    seq = list(inputs["seq"])
    v = inputs.get("values") or {}
    d = cfg["dim"]
    ops = make_ops(cfg)

    def g(k, dflt):
        x = v.get(k)
        return float(x) if x is not None else dflt

    optd = {"alpha": 1.5, "hurst": 0.5, "len_low": 0.3}
    vals = {"v": g("v0", 1.3), "l": g("l0", 2.0), "n": g("n0", 0.1), "r": g("r0", 1.0), "anis": [g(f"a0_{i}", 0.5 + 0.25 * i) for i in range(d - 1)], "angles": [g(f"g0_{i}", 0.1 * (i + 1)) for i in range(n_angles(d))]}
    for k in cfg.get("opt", []):
        vals[k] = g(f"o0_{k}", optd[k])
    dfl = {"var": 0.7, "vraw": 0.7, "nug": 0.2, "len": 3.0, "ans": 0.6, "angs": 0.3, "resc": 2.0, "isc": 1.7, "alpha": 1.2, "hurst": 0.4, "len_low": 0.2, "lenb0": 2.0, "lenb1": 3.0}
    xs = step_values(ops, seq, lambda k, n: g(f"s{k}_{n}", dfl.get(n, 0.4 + 0.3 * (int(n[-1]) if n[-1].isdigit() else 0) + (2.0 if n.startswith("len") else 0.0))))
    for k, name in enumerate(seq):
        if name == "rescale" and xs[k]["resc"] == 0:
            return True, "rescale = 0 is outside the precondition"
    try:
        m = construct(gs, cfg, vals)
    except ValueError as e:
        return True, f"initial state not constructible (outside precondition): {e}"
    fns = conc_fns()
    ref = RefState(cfg, vals, fns)
    try:
        for k, name in enumerate(seq):
            _, do, spec = ops[name]
            ref.pending_default = None
            adm = cholds(spec(ref, xs[k]))
            pend = ref.pending_default
            try:
                do(m, xs[k])
            except ValueError as e:
                if adm:
                    return False, f"step {k} ({name}={xs[k]}) rejected an admissible value: {e}"
                return True, f"step {k} ({name}) correctly rejected"
            if not adm:
                return False, f"step {k} ({name}={xs[k]}) accepted an inadmissible value; var={m.var} len_scale={m.len_scale} anis={m.anis} nugget={m.nugget}"
            if pend is not None and not cholds(pend[0]):
                pend[1](ref)
    except ZeroDivisionError:
        return True, "division by zero in the witness (outside the reals reading)"
    problems = []
    fs, fr = flat(public_state(m)), flat(ref_public(ref))
    for k in sorted(set(fs) | set(fr)):
        if k not in fs or k not in fr:
            problems.append(f"{k}: missing")
            continue
        a, b = fs[k], fr[k]
        if not np.isclose(float(a), float(b), rtol=1e-9, atol=1e-12):
            problems.append(f"{k}: model={a} documented={b}")
    if not problems:
        rp = ref_public(ref)
        v2 = {"v": rp["var"], "l": rp["len_scale"], "n": rp["nugget"], "r": rp["rescale"], "anis": rp["anis"], "angles": rp["angles"]}
        v2.update(rp["opt"])
        try:
            m2 = construct(gs, dict(cfg, dim=ref.dim), v2)
            f2 = flat(public_state(m2))
            for k in fs:
                if not np.isclose(float(fs[k]), float(f2.get(k, float("nan"))), rtol=1e-9, atol=1e-12):
                    problems.append(f"{k}: model={fs[k]} fresh={f2.get(k)}")
        except ValueError as e:
            problems.append(f"fresh construction failed: {e}")
    return (not problems), f"config={inputs['config']} seq={seq} init={vals} steps={xs} problems={problems}"


REPLAY = {"history": replay_history}

"""C09  Variogram estimation respects its invariances and preprocessing semantics."""
import math

import numpy as rnp
import z3

from .. import core, kernel, sym, theory, vario
from ..core import Job, prove, rec
from ..sym import Sym, explore, lift, real
from . import c08, c15

FILES = ["src/gstools/variogram/variogram.py", "src/gstools/variogram/estimator.pyx", "src/gstools/variogram/binning.py", "src/gstools/tools/geometric.py", "src/gstools/normalizer/tools.py"]

SPEC = {
    "level": "model_checking",
    "engine": "E1 (vario_estimate) with E2 (kernels interpreted from source): relational obligations between two symbolic runs",
    "files": FILES,
    "functions": ["gstools.variogram.variogram.vario_estimate", "estimator.pyx: unstructured, directional", "gstools.normalizer.tools.remove_trend_norm_mean", "gstools.tools.geometric.generate_grid/ang2dir", "gstools.variogram.binning.standard_bins"],
    "bounds": {"quick": {"points": "3 symbolic points (2-D), 2 bins, 1 field (2 for the mask relation); symbolic shift vector, rotation (c,s with c^2+s^2=1), factor, constant, geo_scale"}, "thorough": {"points": "as quick + 4 points for permutation/shift/scale and 3-D shift"}},
    "stubs": ["numpy.random.RandomState(seed).choice -> returns a harness-chosen index vector and records the replace flag", "sqrt/acos/atan2 uninterpreted (shared symbols)"],
    "oracle": "relational: the estimate on transformed inputs equals the (transformed) estimate on the original inputs",
    "outside": ["fit_normalizer=True", "more than 4 points", "rounding"],
    "assumptions": ["floats read as reals", "bin edges increasing"],
}

JOB_TIMEOUT = {"quick": 400, "thorough": 3000}


def _setup():
    return c08._setup()


def _syms(n, dim=2, nf=1, tagp="x", tagf="f"):
    X = [[real(f"{tagp}{a}_{i}") for i in range(n)] for a in range(dim)]
    F = [[real(f"{tagf}{m}_{i}") for i in range(n)] for m in range(nf)]
    return X, F


def _wv(*groups):
    w = {}
    for g in groups:
        for s in g:
            if isinstance(s, (list, tuple)):
                for t in s:
                    w[str(t.e)] = t
            else:
                w[str(s.e)] = s
    return w


def _edges():
    return [real("b0"), real("b1"), real("b2")]


def _assume_edges(B):
    sym.assume(B[0] >= 0)
    sym.assume(B[0] < B[1])
    sym.assume(B[1] < B[2])


def _relate(tag, run, T, wv, rb, scale=None, hints_fn=None, max_paths=60):
    """run() returns (res_a, res_b) each = (centers, estimates, counts); obligation: equal per bin"""
    out = []
    paths = explore(run, max_paths=max_paths)
    ok = 0
    for pi, p in enumerate(paths):
        if p.exc is not None:
            out.append(rec(f"{tag}/path{pi}", "error", detail=f"{p.exc!r} {p.tb}"))
            continue
        ok += 1
        ra, rb_ = p.out[0], p.out[1]
        hints = list(p.out[2]) if len(p.out) > 2 else []
        for i in range(len(ra[1])):
            ea, eb = lift(ra[1][i]), lift(rb_[1][i])
            if scale is not None:
                eb = eb * scale
            out.append(prove(f"{tag}/path{pi}/bin{i}/estimate", p.conds, ea == eb, T, witness_vars=wv, replay=rb, extra=hints))
            out.append(prove(f"{tag}/path{pi}/bin{i}/count", p.conds, lift(ra[2][i]) == lift(rb_[2][i]), T, witness_vars=wv, replay=rb, extra=hints))
    if not ok:
        out.append(rec(tag + "/reach", "vacuous"))
    return out


def job_relation(kind, n, tier):
    vv = _setup()
    T = core.tier_timeout(tier)
    dim = 2
    X, F = _syms(n, dim, 2 if kind in ("mask", "nan", "no_data") else 1)
    B = _edges()
    t = [real("t0"), real("t1")]
    c, s, lam, cst, R = real("c"), real("s"), real("lam"), real("cst"), real("R")
    wv = _wv(X, F, B, t, [c, s, lam, cst, R])
    rb = ("relation", lambda v: {"kind": kind, "n": n, "values": v})
    tag = f"C09/{kind}/n{n}"
    est = lambda pos, fld, **kw: vv.vario_estimate(pos, fld, list(B), return_counts=True, **kw)
    P0 = lambda: [list(r) for r in X]
    F0 = lambda: list(F[0])
    scale = None
    sq = theory.UF["sqrt"]

    if kind == "permutation":
        perm = list(range(1, n)) + [0]

        def run():
            _assume_edges(B)
            return est(P0(), F0()), est([[X[a][i] for i in perm] for a in range(dim)], [F[0][i] for i in perm])

    elif kind == "translation":

        def run():
            _assume_edges(B)
            return est(P0(), F0()), est([[X[a][i] + t[a] for i in range(n)] for a in range(dim)], F0())

    elif kind == "rotation":

        def run():
            _assume_edges(B)
            sym.assume(c * c + s * s == 1)
            rot = [[c * X[0][i] - s * X[1][i] for i in range(n)], [s * X[0][i] + c * X[1][i] for i in range(n)]]
            hints = []
            for j in range(n):
                for k in range(j + 1, n):
                    a0 = c15.seqsum([(X[a][j].e - X[a][k].e) * (X[a][j].e - X[a][k].e) for a in range(dim)])
                    a1 = c15.seqsum([(lift(rot[a][j]) - lift(rot[a][k])) * (lift(rot[a][j]) - lift(rot[a][k])) for a in range(dim)])
                    hints.append(a0 == a1)
            return est(P0(), F0()), est(rot, F0()), hints

    elif kind == "field_shift":

        def run():
            _assume_edges(B)
            return est(P0(), F0()), est(P0(), [f + cst for f in F[0]])

    elif kind.startswith("field_scale"):
        # (a symbolic factor makes the query non-linear in a sum of if-then-else terms and it does not
        #  finish: two concrete factors of either sign are used)
        lamc = -1.5 if kind.endswith("neg") else 2.0
        scale = z3.RealVal(str(lamc * lamc))

        def run():
            _assume_edges(B)
            return est(P0(), [lamc * f for f in F[0]]), est(P0(), F0())

    elif kind in ("mask", "nan", "no_data"):
        miss = 1
        keep = [i for i in range(n) if i != miss]
        ND = -999.0

        def run():
            _assume_edges(B)
            fl = [list(F[0]), list(F[1])]
            kw = {}
            if kind == "mask":
                kw["mask"] = rnp.array([i == miss for i in range(n)])
            elif kind == "nan":
                fl[0][miss] = math.nan
                fl[1][miss] = math.nan
            else:
                fl[0][miss] = ND
                fl[1][miss] = ND
                kw["no_data"] = ND
                for row in F:
                    for f in row:
                        sym.assume(abs(f - ND) > 1e-8 + 1e-5 * abs(ND))
            return est(P0(), fl, **kw), est([[X[a][i] for i in keep] for a in range(dim)], [[F[m][i] for i in keep] for m in range(2)])

    elif kind == "mean_trend":
        # constant mean and trend cancel in the increments; a callable trend is removed point-wise
        TR = z3.Function("trend_fn", z3.RealSort(), z3.RealSort(), z3.RealSort())

        def trend(x, y):
            x, y = rnp.asarray(x, dtype=object).reshape(-1), rnp.asarray(y, dtype=object).reshape(-1)
            o = rnp.empty(x.shape, dtype=object)
            for i in range(o.size):
                o[i] = Sym(TR(lift(x[i]), lift(y[i])))
            return o

        def run():
            _assume_edges(B)
            detr = [F[0][i] - Sym(TR(X[0][i].e, X[1][i].e)) for i in range(n)]
            return est(P0(), F0(), mean=cst, trend=trend), est(P0(), detr)

    elif kind == "no_data_trend":
        # no-data entries are recognised on the caller's raw values, before mean / trend are removed
        miss, ND = 1, -999.0
        keep = [i for i in range(n) if i != miss]
        TR = z3.Function("trend_fn", z3.RealSort(), z3.RealSort(), z3.RealSort())

        def trend(x, y):
            x, y = rnp.asarray(x, dtype=object).reshape(-1), rnp.asarray(y, dtype=object).reshape(-1)
            o = rnp.empty(x.shape, dtype=object)
            for i in range(o.size):
                o[i] = Sym(TR(lift(x[i]), lift(y[i])))
            return o

        def run():
            _assume_edges(B)
            fl = list(F[0])
            fl[miss] = ND
            for f in F[0]:
                sym.assume(abs(f - ND) > 1e-8 + 1e-5 * abs(ND))
            detr = [F[0][i] - Sym(TR(X[0][i].e, X[1][i].e)) for i in keep]
            return est(P0(), fl, no_data=ND, mean=cst, trend=trend), est([[X[a][i] for i in keep] for a in range(dim)], detr)

    elif kind == "latlon_autobins":
        # automatic binning with a length unit: standard_bins (stubbed: returns arbitrary increasing edges in geo_scale units)
        # -> the kernel must receive these edges in radians, the caller the mid-points in geo_scale units

        def run():
            _assume_edges(B)
            sym.assume(R > 0)
            recd = c08.Recorder()
            vv.unstructured_c = recd.wrap("unstructured", vario.unstructured)
            seen = []
            orig_sb = vv.standard_bins

            def fake_bins(pos=None, dim=2, latlon=False, mesh_type="unstructured", bin_no=None, max_dist=None, geo_scale=1.0, **kw):
                seen.append((latlon, geo_scale))
                return rnp.array(list(B), dtype=object)

            vv.standard_bins = fake_bins
            try:
                a = vv.vario_estimate(P0(), F0(), latlon=True, geo_scale=R, return_counts=True)
            finally:
                vv.standard_bins = orig_sb
            b = vv.vario_estimate(P0(), F0(), [B[i] / R for i in range(3)], latlon=True, return_counts=True)
            vario.install_variogram_stubs()
            ea, eb = recd.calls[0][1][1], recd.calls[1][1][1]
            if len(seen) != 1 or seen[0][0] is not True or seen[0][1] is not R:
                raise AssertionError(f"standard_bins not called with latlon=True and the caller's geo_scale: {seen}")
            a = (a[0], list(a[1]) + [ea[i] for i in range(3)] + [a[0][i] for i in range(2)], list(a[2]) + [0, 0, 0, 0, 0])
            b = (b[0], list(b[1]) + [eb[i] for i in range(3)] + [(B[i] + B[i + 1]) / 2 for i in range(2)], list(b[2]) + [0, 0, 0, 0, 0])
            return a, b

    elif kind == "latlon_units":

        def run():
            _assume_edges(B)
            sym.assume(R > 0)
            recd = c08.Recorder()
            vv.unstructured_c = recd.wrap("unstructured", vario.unstructured)
            a = vv.vario_estimate(P0(), F0(), rnp.array(list(B), dtype=object), latlon=True, geo_scale=R, return_counts=True)
            b = vv.vario_estimate(P0(), F0(), [B[i] / R for i in range(3)], latlon=True, return_counts=True)
            vario.install_variogram_stubs()
            ea, eb = recd.calls[0][1][1], recd.calls[1][1][1]
            # the edges that reach the kernel are reported as an extra pseudo-bin pair (cheap, decisive)
            a = (a[0], list(a[1]) + [ea[i] for i in range(3)], list(a[2]) + [0, 0, 0])
            b = (b[0], list(b[1]) + [eb[i] for i in range(3)], list(b[2]) + [0, 0, 0])
            return a, b

    elif kind == "structured":
        gx, gy = [real("gx0"), real("gx1")], [real("gy0"), real("gy1"), real("gy2")]
        G = [[real(f"g{i}{j}") for j in range(3)] for i in range(2)]
        wv = _wv([gx, gy], G, B)

        def run():
            _assume_edges(B)
            a = vv.vario_estimate((list(gx), list(gy)), rnp.array(G, dtype=object), list(B), mesh_type="structured", return_counts=True)
            pts = [[gx[i] for i in range(2) for j in range(3)], [gy[j] for i in range(2) for j in range(3)]]
            b = vv.vario_estimate(pts, [G[i][j] for i in range(2) for j in range(3)], list(B), return_counts=True)
            return a, b

    elif kind == "direction_rotation":

        u = [real("u0"), real("u1")]
        tol = real("tol")
        wv.update(_wv([u, [tol]]))

        def run():
            _assume_edges(B)
            sym.assume(c * c + s * s == 1)
            sym.assume(u[0] * u[0] + u[1] * u[1] == 1)
            sym.assume(tol > 0)
            rot = [[c * X[0][i] - s * X[1][i] for i in range(n)], [s * X[0][i] + c * X[1][i] for i in range(n)]]
            ur = [c * u[0] - s * u[1], s * u[0] + c * u[1]]
            recd = c08.Recorder()
            vv.directional_c = recd.wrap("directional", vario.directional)
            a = vv.vario_estimate(P0(), F0(), list(B), direction=[list(u)], angles_tol=tol, return_counts=True)
            b = vv.vario_estimate(rot, F0(), list(B), direction=[ur], angles_tol=tol, return_counts=True)
            vario.install_variogram_stubs()
            dirA, dirB = recd.calls[0][1][3], recd.calls[1][1][3]
            # hints (all consequences of c^2+s^2=1 and |u|=1), stated on the terms the kernel builds
            hints = [theory.UF["sqrt"](u[0].e * u[0].e + u[1].e * u[1].e) == 1, theory.UF["sqrt"](lift(ur[0]) * lift(ur[0]) + lift(ur[1]) * lift(ur[1])) == 1]
            hints += [lift(dirA[0, a_]) == u[a_].e for a_ in range(2)] + [lift(dirB[0, a_]) == lift(ur[a_]) for a_ in range(2)]
            for j in range(n):
                for k in range(j + 1, n):
                    d0 = [X[a_][k].e - X[a_][j].e for a_ in range(2)]
                    d1 = [lift(rot[a_][k]) - lift(rot[a_][j]) for a_ in range(2)]
                    e0 = [X[a_][j].e - X[a_][k].e for a_ in range(2)]
                    e1 = [lift(rot[a_][j]) - lift(rot[a_][k]) for a_ in range(2)]
                    hints.append(c15.seqsum([e0[a_] * e0[a_] for a_ in range(2)]) == c15.seqsum([e1[a_] * e1[a_] for a_ in range(2)]))
                    hints.append(c15.seqsum([d0[a_] * lift(dirA[0, a_]) for a_ in range(2)]) == c15.seqsum([d1[a_] * lift(dirB[0, a_]) for a_ in range(2)]))
            return a, b, hints

    else:
        raise KeyError(kind)
    return _relate(tag, run, T, wv, rb, scale=scale)


def job_dir_test_rotation(bw, tier):
    """the direction test of the kernel is invariant under a common rotation of the pair vector and the
    (unit) direction; together with rotation invariance of the distance (job 'rotation') and the kernel
    == {bins(dist) x dir_test} decomposition proved under C08 this gives: directional variograms rotate
    with the coordinate system"""
    T = core.tier_timeout(tier)
    I = kernel.load(c15.PYX["estimator"])
    out = []
    x = [[z3.Real(f"p{a}_{i}") for i in range(2)] for a in range(2)]
    u = [z3.Real("u0"), z3.Real("u1")]
    c, s, tol, band, dist = z3.Real("c"), z3.Real("s"), z3.Real("tol"), z3.Real("band"), z3.Real("dist")
    pos = kernel.Arr((2, 2), [x[0][0], x[0][1], x[1][0], x[1][1]])
    rot = kernel.Arr((2, 2), [c * x[0][0] - s * x[1][0], c * x[0][1] - s * x[1][1], s * x[0][0] + c * x[1][0], s * x[0][1] + c * x[1][1]])
    d0 = kernel.Arr((1, 2), [u[0], u[1]])
    d1 = kernel.Arr((1, 2), [c * u[0] - s * u[1], s * u[0] + c * u[1]])
    bwv = band if bw else -1.0
    a = I.call("dir_test", [2, pos, dist, d0, tol, bwv, 1, 0, 0])
    b = I.call("dir_test", [2, rot, dist, d1, tol, bwv, 1, 0, 0])
    pre = [c * c + s * s == 1, u[0] * u[0] + u[1] * u[1] == 1, tol > 0, dist >= 0] + ([band > 0] if bw else [])
    # hints: the scalar product and the band distance are rotation invariant (polynomial identities mod c^2+s^2=1)
    dv0 = [x[a_][1] - x[a_][0] for a_ in range(2)]
    dv1 = [rot.get((a_, 1)) - rot.get((a_, 0)) for a_ in range(2)]
    sp0 = c15.seqsum([dv0[a_] * d0.get((0, a_)) for a_ in range(2)])
    sp1 = c15.seqsum([dv1[a_] * d1.get((0, a_)) for a_ in range(2)])
    wv = {str(t): t for t in [c, s, tol, band, dist] + u + x[0] + x[1]}
    rb = ("dir_test_rotation", lambda v: {"bw": bw, "values": v})
    tag = f"C09/dir_test_rotation[{'band' if bw else 'noband'}]"
    out.append(prove(tag + "/lemma: scalar product invariant", pre, sp0 == sp1, T, witness_vars=wv, replay=rb))
    hints = [sp0 == sp1]
    if bw:
        b0 = c15.seqsum([(dv0[a_] - sp0 * d0.get((0, a_))) * (dv0[a_] - sp0 * d0.get((0, a_))) for a_ in range(2)])
        b1 = c15.seqsum([(dv1[a_] - sp1 * d1.get((0, a_))) * (dv1[a_] - sp1 * d1.get((0, a_))) for a_ in range(2)])
        out.append(prove(tag + "/lemma: band distance invariant", pre, b0 == b1, T, witness_vars=wv, replay=rb, extra=hints))
        hints.append(b0 == b1)
    out.append(prove(tag + "/dir_test(R p, R u)==dir_test(p, u)", pre, kernel.tz(a) == kernel.tz(b), T, witness_vars=wv, replay=rb, extra=hints))
    return out


def job_sampling(tier):
    """seeded down-sampling == estimating on that reproducible subset, drawn without replacement"""
    vv = _setup()
    from ..npx import NPX

    T = core.tier_timeout(tier)
    n = 4
    X, F = _syms(n, 2, 1)
    B = _edges()
    wv = _wv(X, F, B)
    out = []
    seen = {}

    class RS:
        def __init__(self, seed=None):
            seen["seed"] = seed

        def choice(self, a, size=None, replace=True, p=None):
            seen["replace"] = replace
            seen["a"] = list(rnp.asarray(a))
            seen["size"] = size
            return rnp.array(seen["idx"])

    class RandomMod:
        RandomState = RS

        def __getattr__(self, nm):
            return getattr(rnp.random, nm)

    old = NPX.random
    NPX.random = RandomMod()
    try:
        for idx in ([2, 0, 3], [1, 3, 2], [3, 1]):
            seen.clear()
            seen["idx"] = idx
            rb = ("sampling", lambda v, idx=idx: {"idx": idx, "values": v})

            def run(idx=idx):
                _assume_edges(B)
                pre = []
                orig_pre = vv.remove_trend_norm_mean

                def spy_pre(*a_, **kw_):
                    fld_ = kw_.get("field", a_[1] if len(a_) > 1 else None)
                    pre.append(rnp.array(fld_, dtype=object).copy())
                    return orig_pre(*a_, **kw_)

                vv.remove_trend_norm_mean = spy_pre
                try:
                    a = vv.vario_estimate([list(r) for r in X], list(F[0]), list(B), sampling_size=len(idx), sampling_seed=1234, return_counts=True)
                finally:
                    vv.remove_trend_norm_mean = orig_pre
                seen["pre"] = pre
                b = vv.vario_estimate([[X[a_][i] for i in idx] for a_ in range(2)], [F[0][i] for i in idx], list(B), return_counts=True)
                return a, b

            out += _relate(f"C09/sampling/idx{idx}", run, T, wv, rb)
            # mean / trend removal, normalisation and a normaliser fit act on the sub-sample (what the estimate is made of)
            pre = seen.get("pre") or []
            okpre = len(pre) == 1 and pre[0].shape[-1] == len(idx) and all(pre[0].reshape(-1)[q] is F[0][i] for q, i in enumerate(idx))
            out.append(rec(f"C09/sampling/idx{idx}/pre-processing (mean, trend, normaliser and its fit) is handed exactly the sub-sampled values", "unsat" if okpre else "sat", vacuity="sat", witness={}, replay={"kind": "sampling", "inputs": {"idx": idx, "values": {}}}, detail=str([p_.shape for p_ in pre])))
            okflag = seen.get("replace") is False and seen.get("seed") == 1234 and seen.get("a") == list(range(n)) and seen.get("size") == len(idx)
            out.append(rec(f"C09/sampling/idx{idx}/drawn without replacement from range(n) with the given seed", "unsat" if okflag else "sat", vacuity="sat", witness={}, replay={"kind": "sampling", "inputs": {"idx": idx, "values": {}}}, detail=str({k: v for k, v in seen.items() if k != "idx"})))
    finally:
        NPX.random = old
    return out


KINDS = ["permutation", "translation", "rotation", "field_shift", "field_scale_pos", "field_scale_neg", "mask", "nan", "no_data", "mean_trend", "no_data_trend", "latlon_units", "latlon_autobins", "structured"]


def jobs(tier, seed):
    js = [Job(f"rel-{k}", job_relation, k, 3, tier) for k in KINDS]
    if tier == "thorough":
        js += [Job(f"rel-{k}-n4", job_relation, k, 4, tier) for k in ("permutation", "translation", "field_shift", "mask", "no_data_trend")]  # (the scaling relation with 4 points is undecided at 180 s: claimed for 3 points only)
    js.append(Job("sampling", job_sampling, tier))
    js.append(Job("dir_test_rotation-noband", job_dir_test_rotation, False, tier))
    js.append(Job("dir_test_rotation-band", job_dir_test_rotation, True, tier))
    return js


# --------------------------------------------------------------------------
# replay


def _val(v, k, d):
    x = v.get(k)
    return float(x) if x is not None else d


def replay_relation(inputs):
    import numpy as np
    import gstools as gs

    kind, n, v = inputs["kind"], int(inputs["n"]), inputs["values"]
    X = np.array([[_val(v, f"x{a}_{i}", 0.9 * i + 0.45 * a * i * i - 0.2 * a) for i in range(n)] for a in range(2)])
    F = np.array([[_val(v, f"f{m}_{i}", 0.5 * i * i - 0.8 * m + 0.1 * i) for i in range(n)] for m in range(2)])
    B = [_val(v, "b0", 0.05), _val(v, "b1", 1.1), _val(v, "b2", 2.6)]
    if not (0 <= B[0] < B[1] < B[2]):
        return True, "precondition"
    est = lambda pos, fld, **kw: gs.vario_estimate(pos, fld, list(B), return_counts=True, **kw)
    tol = dict(rtol=1e-8, atol=1e-11)
    t = np.array([_val(v, "t0", 3.0), _val(v, "t1", -1.5)])
    c, s = _val(v, "c", math.cos(0.7)), _val(v, "s", math.sin(0.7))
    nrm = math.hypot(c, s) or 1.0
    c, s = c / nrm, s / nrm
    Rm = np.array([[c, -s], [s, c]])
    lam, cst, R = _val(v, "lam", -1.7), _val(v, "cst", 4.2), abs(_val(v, "R", 3.3)) or 3.3
    scale = 1.0
    if kind == "permutation":
        perm = list(range(1, n)) + [0]
        a, b = est(X, F[0]), est(X[:, perm], F[0][perm])
    elif kind == "translation":
        a, b = est(X, F[0]), est(X + t[:, None], F[0])
    elif kind == "rotation":
        a, b = est(X, F[0]), est(Rm @ X, F[0])
    elif kind == "field_shift":
        a, b = est(X, F[0]), est(X, F[0] + cst)
    elif kind.startswith("field_scale"):
        lam = -1.5 if kind.endswith("neg") else 2.0
        a, b = est(X, lam * F[0]), est(X, F[0])
        scale = lam * lam
    elif kind in ("mask", "nan", "no_data"):
        miss = 1
        keep = [i for i in range(n) if i != miss]
        fl = F.copy()
        kw = {}
        if kind == "mask":
            kw["mask"] = np.array([i == miss for i in range(n)])
        elif kind == "nan":
            fl[:, miss] = np.nan
        else:
            if np.any(np.isclose(F, -999.0)):
                return True, "precondition"
            fl[:, miss] = -999.0
            kw["no_data"] = -999.0
        a, b = est(X, fl, **kw), est(X[:, keep], F[:, keep])
    elif kind == "mean_trend":
        tr = lambda x, y: 0.3 * x - 0.2 * y * y
        a, b = est(X, F[0], mean=cst, trend=tr), est(X, F[0] - tr(X[0], X[1]))
    elif kind == "no_data_trend":
        miss = 1
        keep = [i for i in range(n) if i != miss]
        if np.any(np.isclose(F, -999.0)):
            return True, "precondition"
        tr = lambda x, y: 0.3 * x - 0.2 * y * y
        bad = []
        # the witness trend values are those of an uninterpreted function: the relation is re-checked with concrete trends,
        # among them one that maps a genuine datum onto the no-data marker after detrending
        for trf in (tr, lambda x, y: np.where(np.arange(len(x)) == 0, F[0][0] + 999.0, 0.1 * x), lambda x, y: 0.0 * x):
            fl = F[0].copy()
            fl[miss] = -999.0
            a, b = est(X, fl, no_data=-999.0, mean=cst, trend=trf), est(X[:, keep], (F[0] - trf(X[0], X[1]))[keep])
            if not (np.allclose(np.asarray(a[1], dtype=float), np.asarray(b[1], dtype=float), **tol) and list(a[2]) == list(b[2])):
                bad.append(f"a={np.asarray(a[1]).tolist()},{list(a[2])} b={np.asarray(b[1]).tolist()},{list(b[2])}")
        return (not bad), f"kind={kind} X={X.tolist()} F={F[0].tolist()} B={B} (no_data + mean + trend) vs (point removed, detrended): {bad}"
    elif kind == "latlon_autobins":
        from gstools.variogram import variogram as vvm

        LL = np.array([[10.0, -35.0, 60.0, 5.0][:n], [20.0, 170.0, -100.0, 75.0][:n]])
        Fg = np.array([0.3, -1.1, 2.0, 0.7][:n])
        bad = []
        for kwb in ({}, {"bin_no": 3}, {"max_dist": 2.0 * R}):
            a = gs.vario_estimate(LL, Fg, latlon=True, geo_scale=R, return_counts=True, **kwb)
            edges = vvm.standard_bins(LL, dim=2, latlon=True, geo_scale=R, **kwb)
            b = gs.vario_estimate(LL, Fg, edges / R, latlon=True, return_counts=True)
            if not (np.allclose(a[1], b[1], **tol) and list(a[2]) == list(b[2]) and np.allclose(a[0], (edges[:-1] + edges[1:]) / 2)):
                bad.append(f"{kwb}: automatic bins {np.asarray(a[1]).tolist()} {list(a[2])} != the same edges given in radians {np.asarray(b[1]).tolist()} {list(b[2])}")
        return (not bad), f"geo_scale={R} {bad}"
    elif kind == "latlon_units":
        # generic, well separated points (the relation is about units, not about the witness geometry);
        # checked for the witness edges and for edges that bracket the actual great-circle distances
        LL = np.array([[10.0, -35.0, 60.0, 5.0][:n], [20.0, 170.0, -100.0, 75.0][:n]])
        Fg = np.array([0.3, -1.1, 2.0, 0.7][:n])
        for Bc in (list(B), [R * 0.05, R * 1.4, R * 2.9]):
            a = gs.vario_estimate(LL, Fg, np.array(Bc, dtype=float), latlon=True, geo_scale=R, return_counts=True)
            b = gs.vario_estimate(LL, Fg, [x / R for x in Bc], latlon=True, return_counts=True)
            if not (np.allclose(a[1], b[1], **tol) and list(a[2]) == list(b[2])):
                return False, f"geo_scale={R} edges={Bc}: estimate with length units {np.asarray(a[1]).tolist()} {list(a[2])} != estimate in radians {np.asarray(b[1]).tolist()} {list(b[2])}"
    elif kind == "structured":
        gx, gy = [_val(v, "gx0", 0.0), _val(v, "gx1", 1.3)], [_val(v, "gy0", 0.2), _val(v, "gy1", 0.9), _val(v, "gy2", 2.4)]
        G = np.array([[_val(v, f"g{i}{j}", 0.7 * i - 0.4 * j * j) for j in range(3)] for i in range(2)])
        a = gs.vario_estimate((gx, gy), G, B, mesh_type="structured", return_counts=True)
        pts = np.array([[gx[i], gy[j]] for i in range(2) for j in range(3)]).T
        b = gs.vario_estimate(pts, G.reshape(-1), B, return_counts=True)
    elif kind == "direction_rotation":
        u = np.array([_val(v, "u0", 0.6), _val(v, "u1", 0.8)])
        u = u / (np.linalg.norm(u) or 1.0)
        tl = abs(_val(v, "tol", 0.5)) or 0.5
        a = gs.vario_estimate(X, F[0], B, direction=[u], angles_tol=tl, return_counts=True)
        b = gs.vario_estimate(Rm @ X, F[0], B, direction=[Rm @ u], angles_tol=tl, return_counts=True)
        # pairs exactly on the angular tolerance / a bin edge flip with rounding: tolerate by re-checking with a perturbed tolerance
        if list(a[2]) != list(b[2]):
            a2 = gs.vario_estimate(X, F[0], B, direction=[u], angles_tol=tl * (1 + 1e-9), return_counts=True)
            a3 = gs.vario_estimate(X, F[0], B, direction=[u], angles_tol=tl * (1 - 1e-9), return_counts=True)
            if list(a2[2]) != list(a3[2]):
                return True, "witness sits on the angular tolerance (rounding)"
    else:
        return True, "unknown kind"
    ok = np.allclose(np.asarray(a[1], dtype=float), scale * np.asarray(b[1], dtype=float), **tol) and list(a[2]) == list(b[2])
    if not ok and kind in ("rotation", "translation", "direction_rotation", "latlon_units"):
        # distance exactly on a bin edge in the witness: rounding decides membership
        D = [np.linalg.norm(X[:, j] - X[:, k]) for j in range(n) for k in range(j + 1, n)]
        if any(abs(d - e) < 1e-9 * max(1, e) for d in D for e in B):
            return True, "witness has a pair distance on a bin edge (rounding)"
    return bool(ok), f"kind={kind} X={X.tolist()} F={F.tolist()} B={B} a={np.asarray(a[1]).tolist()},{list(a[2])} b={np.asarray(b[1]).tolist()},{list(b[2])} scale={scale}"


def replay_sampling(inputs):
    import numpy as np
    import gstools as gs

    v = inputs.get("values") or {}
    n = 4
    X = np.array([[_val(v, f"x{a}_{i}", 0.9 * i + 0.45 * a * i * i) for i in range(n)] for a in range(2)])
    F = np.array([_val(v, f"f0_{i}", 0.5 * i * i + 0.1 * i) for i in range(n)])
    B = [_val(v, "b0", 0.05), _val(v, "b1", 1.1), _val(v, "b2", 2.6)]
    if not (0 <= B[0] < B[1] < B[2]):
        return True, "precondition"
    size = len(inputs["idx"])
    a = gs.vario_estimate(X, F, B, sampling_size=size, sampling_seed=1234, return_counts=True)
    idx = np.random.RandomState(1234).choice(np.arange(n), size, replace=False)
    b = gs.vario_estimate(X[:, idx], F[idx], B, return_counts=True)
    a2 = gs.vario_estimate(X, F, B, sampling_size=size, sampling_seed=1234, return_counts=True)
    ok = np.allclose(a[1], b[1]) and list(a[2]) == list(b[2]) and np.allclose(a[1], a2[1]) and len(set(idx)) == size
    # a fitted normaliser is fitted to the sub-sample: seeded down-sampling == estimating on that subset
    rng = np.random.RandomState(7)
    Xb = rng.uniform(0, 10, (2, 60))
    Fb = np.exp(0.8 * rng.normal(size=60)) + 0.2
    Bb = [0.0, 2.0, 4.0, 6.0]
    det = ""
    for nz in (gs.normalizer.BoxCox, gs.normalizer.YeoJohnson):
        c1 = gs.vario_estimate(Xb, Fb, Bb, sampling_size=25, sampling_seed=99, normalizer=nz, fit_normalizer=True)
        ib = np.random.RandomState(99).choice(np.arange(60), 25, replace=False)
        c2 = gs.vario_estimate(Xb[:, ib], Fb[ib], Bb, normalizer=nz, fit_normalizer=True)
        if not (np.allclose(c1[1], c2[1], rtol=1e-9) and np.isclose(c1[2].lmbda, c2[2].lmbda, rtol=1e-9)):
            ok = False
            det += f" {nz.__name__}: fitted lmbda with sampling {c1[2].lmbda} vs on the subset {c2[2].lmbda}"
    return bool(ok), f"sampled estimate={a[1]} subset estimate={b[1]} idx={idx}{det}"


def replay_dir_test_rotation(inputs):
    import numpy as np

    v = inputs["values"]
    bw = inputs["bw"]
    c, s = _val(v, "c", math.cos(0.7)), _val(v, "s", math.sin(0.7))
    nrm = math.hypot(c, s) or 1.0
    c, s = c / nrm, s / nrm
    u = np.array([_val(v, "u0", 0.6), _val(v, "u1", 0.8)])
    u = u / (np.linalg.norm(u) or 1.0)
    P = np.array([[_val(v, "p0_0", 0.2), _val(v, "p0_1", 1.4)], [_val(v, "p1_0", -0.3), _val(v, "p1_1", 0.9)]])
    tol, band = abs(_val(v, "tol", 0.5)) or 0.5, abs(_val(v, "band", 0.8)) or 0.8
    Rm = np.array([[c, -s], [s, c]])
    dist = float(np.linalg.norm(P[:, 1] - P[:, 0]))
    I = kernel.load(c15.PYX["estimator"], concrete=True)
    A = c15.A
    a = I.call("dir_test", [2, A(P), dist, A(u[None, :]), tol, band if bw else -1.0, 1, 0, 0])
    b = I.call("dir_test", [2, A(Rm @ P), dist, A((Rm @ u)[None, :]), tol, band if bw else -1.0, 1, 0, 0])
    if bool(a) != bool(b):
        a2 = I.call("dir_test", [2, A(P), dist, A(u[None, :]), tol * (1 + 1e-9), (band if bw else -1.0) * (1 + 1e-9), 1, 0, 0])
        a3 = I.call("dir_test", [2, A(P), dist, A(u[None, :]), tol * (1 - 1e-9), (band if bw else -1.0) * (1 - 1e-9), 1, 0, 0])
        if bool(a2) != bool(a3):
            return True, "witness on the tolerance boundary (rounding)"
    return bool(a) == bool(b), f"dir_test original={a} rotated={b} P={P.tolist()} u={u.tolist()} tol={tol}"


REPLAY = {"relation": replay_relation, "sampling": replay_sampling, "dir_test_rotation": replay_dir_test_rotation}

"""C06  Kriging interpolates exactly and its variance is non-negative and bounded."""
import numpy as rnp
import z3

from .. import core, kstub, sym, theory
from ..core import Job, prove, rec
from ..sym import Sym, explore, lift, real
from . import c05

FILES = ["src/gstools/krige/base.py", "src/gstools/krige/methods.py", "src/gstools/covmodel/base.py", "src/gstools/krige/krigesum.pyx", "src/gstools/normalizer/methods.py"]

SPEC = {
    "level": "model_checking",
    "engine": "E1 + E2 (as C05)",
    "files": FILES,
    "functions": ["gstools.krige.base.Krige.__call__/_get_krige_mat/_get_krige_vecs/_krige_cond/post_field", "CovModel.cov_nugget", "krigesum.pyx kernels", "LogNormal normalizer round trip"],
    "bounds": {"quick": {"conditioning points": "2 (exactness, all five variants), 1-2 (variance bound), 2 coincident (pseudo-inverse)", "dim": "1-2", "values": "all symbolic"}, "thorough": {"conditioning points": "3 for exactness; 3x3 duplicate system"}},
    "stubs": ["inverse: symbolic M with M K = K M = I (non-singular systems); pseudo-inverse: symbolic M with the four Penrose equations", "correlation: uninterpreted with cor(0)=1 and |cor|<=1 (decided for the shipped models under C02/C03)"],
    "oracle": "k = K e_i at a conditioning location => estimate = datum, variance = sill - K_ii = 0 without measurement error; Moore-Penrose solution of a duplicated system",
    "outside": ["variance <= sill for more than 2 conditioning points (needs positive definiteness of K, the undecided clause of C02)", "numerical exactness of pinv", "distinct conditioning points closer than the library's np.isclose band in exact mode"],
    "assumptions": ["floats read as reals", "cor(0)=1, |cor(h)|<=1"],
}

JOB_TIMEOUT = {"quick": 400, "thorough": 3000}


def job_exact(variant, dim, mode, norm, tier):
    """zero measurement error (no nugget, or exact mode with nugget): datum reproduced, variance 0 at a conditioning location"""
    gs, kb = c05._setup()
    T = core.tier_timeout(tier)
    ncond = 2
    sy = c05.symbols(dim, ncond, 1)
    wv = c05.wvars(sy)
    rb = ("exact", lambda v: {"variant": variant, "dim": dim, "ncond": ncond, "mode": mode, "norm": norm, "values": v})
    tag = f"C06/exact/{variant}/d{dim}/{mode}/{norm}"
    out = []

    def run():
        kstub.reset()
        for s in (sy["var"], sy["len"]):
            sym.assume(s > 0)
        if mode == "no_nugget":
            sy["nug"] = 0.0
        else:
            sym.assume(sy["nug"] >= 0)
        normalizer = None
        if norm == "lognormal":
            normalizer = gs.normalizer.LogNormal()
            for z in sy["cval"]:
                sym.assume(z > 0)
        if variant == "general":  # trend function + LogNormal normaliser: detrended data in the domain of the log
            for i in range(ncond):
                sym.assume(sy["cval"][i] > Sym(sy["TR"](*[sy["cpos"][a][i].e for a in range(dim)])))
        # conditioning points are distinct beyond the library's isclose band
        d2 = sum(((sy["cpos"][a][0] - sy["cpos"][a][1]) * (sy["cpos"][a][0] - sy["cpos"][a][1]) for a in range(dim)), 0.0)
        sym.assume(d2 > 1e-12)
        sy["tpos"] = [[sy["cpos"][a][0]] for a in range(dim)]  # target = first conditioning location
        sy["text"] = [sy["cext"][0]]
        k, model = c05.build(gs, variant, dim, ncond, sy, exact=(mode == "exact"), normalizer=normalizer)
        kw = {"ext_drift": list(sy["text"])} if variant == "extdrift" else {}
        vecs = []
        orig = kb.calc_field_krige_and_variance_c

        def cap(mat, kv_, cond, num_threads=None):
            vecs.append(rnp.array(kv_, dtype=object).copy())
            vecs.append(rnp.array(cond, dtype=object).copy())
            return orig(mat, kv_, cond, num_threads)

        kb.calc_field_krige_and_variance_c = cap
        try:
            fld, var = k([list(r) for r in sy["tpos"]], return_var=True, **kw)
        finally:
            kb.calc_field_krige_and_variance_c = orig
        K, M = kstub.INV_LOG[0]
        return K, M, fld, var, vecs[0], vecs[1]

    n_ok = 0
    for pi, p in enumerate(explore(run, max_paths=64)):
        base = f"{tag}/path{pi}"
        if p.exc is not None:
            out.append(rec(base, "error", detail=f"{p.exc!r} {p.tb}"))
            continue
        n_ok += 1
        K, M, fld, var = p.out[:4]
        inv = kstub.inverse_axioms(K, M)
        cor0 = [kstub.COR(z3.RealVal(0)) == 1]
        n = K.shape[0]
        # staged: (L1) the right-hand side at the conditioning location is the first column of K;
        # (L2) hence M k = e_0 (left-inverse rows); then k^T M k = k_0 = K_00 = sill
        kv = p.out[4]
        L1 = [lift(kv[j, 0]) == lift(K[j, 0]) for j in range(n)]
        out.append(prove(base + "/lemma: rhs at the conditioning location == first column of K", p.conds + cor0, z3.And(L1), T, witness_vars=wv, replay=rb, pairwise=False))
        Mk = [z3.Sum([lift(M[i, j]) * lift(kv[j, 0]) for j in range(n)]) for i in range(n)]
        L2 = [Mk[i] == (1 if i == 0 else 0) for i in range(n)]
        # staged (substitution of k by the first column of K inside the products, then the inverse axiom (M K)_i0 = delta_i0):
        for i in range(n):
            for j in range(n):
                out.append(prove(base + f"/lemma: M[{i},{j}] k[{j}] == M[{i},{j}] K[{j},0]", [L1[j]], lift(M[i, j]) * lift(kv[j, 0]) == lift(M[i, j]) * lift(K[j, 0]), T, witness_vars=wv, replay=rb, instantiate=False, vacuity=False))
            MKi0 = z3.Sum([lift(M[i, j]) * lift(K[j, 0]) for j in range(n)])
            out.append(prove(base + f"/lemma: (M K)[{i},0] == delta", p.conds + inv, MKi0 == (1 if i == 0 else 0), T, witness_vars=wv, replay=rb, pairwise=False, instantiate=False, vacuity=False))
        ga = [z3.Real(f"lem_a{j}") for j in range(n)]
        gb = [z3.Real(f"lem_b{j}") for j in range(n)]
        gc = z3.Real("lem_c")
        out.append(prove(base + "/lemma: a_j == b_j, sum b == c => sum a == c  (instance: M k == e_0)", [ga[j] == gb[j] for j in range(n)] + [z3.Sum(gb) == gc], z3.Sum(ga) == gc, T, witness_vars={}, replay=rb, instantiate=False, vacuity=False))
        cz = [lift(x) for x in p.out[5]]
        L0 = z3.Sum([cz[i] * lift(M[i, j]) * lift(kv[j, 0]) for i in range(n) for j in range(n)]) == cz[0]
        # staged: (i) polynomial identity z^T M k == sum_i z_i (M k)_i, (ii) z_i (M k)_i == z_i e_0i from L2, (iii) a generic linear
        # lemma on fresh symbols whose instance gives L0
        total = z3.Sum([cz[i] * lift(M[i, j]) * lift(kv[j, 0]) for i in range(n) for j in range(n)])
        parts = [cz[i] * Mk[i] for i in range(n)]
        out.append(prove(base + "/lemma: z^T M k == sum_i z_i (M k)_i (polynomial identity)", [], total == z3.Sum(parts), T, witness_vars=wv, replay=rb, instantiate=False, vacuity=False))
        for i in range(n):
            out.append(prove(base + f"/lemma: z_{i} (M k)_{i} == z_{i} e_0{i}", [L2[i]], parts[i] == (cz[i] if i == 0 else 0), T, witness_vars=wv, replay=rb, instantiate=False, vacuity=False))
        gX = z3.Real("lem_X")
        gt = [z3.Real(f"lem_t{i}") for i in range(n)]
        gc = z3.Real("lem_c")
        out.append(prove(base + "/lemma: X == sum t_i, t_0 == c, t_i == 0 (i>0) => X == c  (instance: z^T M k == z_0, the prepared datum)", [gX == z3.Sum(gt), gt[0] == gc] + [gt[i] == 0 for i in range(1, n)], gX == gc, T, witness_vars={}, replay=rb, instantiate=False, vacuity=False))
        out.append(prove(base + "/estimate at a conditioning location == datum", p.conds + cor0, lift(fld[0]) == sy["cval"][0].e, T, witness_vars=wv, replay=rb, pairwise=(norm != "none" or variant == "general"), extra=[L0], note="uses the lemma z^T M k == z_0"))
        qf = z3.Sum([lift(kv[i, 0]) * Mk[i] for i in range(n)])
        L3 = [qf == lift(kv[0, 0]), lift(kv[0, 0]) == sy["var"].e + lift(sy["nug"])]
        out.append(prove(base + "/lemma: k^T M k == k_0 == sill", p.conds + cor0 + L1 + L2, z3.And(L3), T, witness_vars=wv, replay=rb, pairwise=False))
        out.append(prove(base + "/variance at a conditioning location == 0", p.conds + cor0, lift(var[0]) == 0, T, witness_vars=wv, replay=rb, pairwise=False, extra=L1 + L2 + L3, note="uses lemmas L1-L3 proved above"))
    if not n_ok:
        out.append(rec(tag + "/reach", "vacuous"))
    return out


def job_variance(variant, ncond, tier):
    """variance >= 0 always; <= sill for simple kriging with 1 and 2 conditioning points"""
    gs, kb = c05._setup()
    T = core.tier_timeout(tier)
    dim = 1
    sy = c05.symbols(dim, ncond, 1)
    wv = c05.wvars(sy)
    rb = ("variance", lambda v: {"variant": variant, "dim": dim, "ncond": ncond, "values": v})
    tag = f"C06/variance/{variant}/c{ncond}"
    out = []

    def run():
        kstub.reset()
        for s in (sy["var"], sy["len"]):
            sym.assume(s > 0)
        sym.assume(sy["nug"] >= 0)
        k, model = c05.build(gs, variant, dim, ncond, sy)
        vecs = []
        orig = kb.calc_field_krige_and_variance_c

        def cap(mat, kv_, cond, num_threads=None):
            vecs.append(rnp.array(kv_, dtype=object).copy())
            vecs.append(rnp.array(cond, dtype=object).copy())
            return orig(mat, kv_, cond, num_threads)

        kb.calc_field_krige_and_variance_c = cap
        try:
            fld, var = k([list(r) for r in sy["tpos"]], return_var=True)
        finally:
            kb.calc_field_krige_and_variance_c = orig
        K, M = kstub.INV_LOG[0]
        return K, M, var, vecs[0]

    for pi, p in enumerate(explore(run, max_paths=16)):
        base = f"{tag}/path{pi}"
        if p.exc is not None:
            out.append(rec(base, "error", detail=f"{p.exc!r} {p.tb}"))
            continue
        K, M, var, kv = p.out
        out.append(prove(base + "/variance>=0 (for any matrix returned by the inversion)", p.conds, lift(var[0]) >= 0, T, witness_vars=wv, replay=rb, pairwise=False))
        if variant == "simple":
            # |cor| <= 1 and cor(0) = 1 on every lag that occurs
            from ..theory import collect_apps

            facts = [kstub.COR(z3.RealVal(0)) == 1]
            seen = {}
            stack = [lift(K[i, j]) for i in range(ncond) for j in range(ncond)] + [lift(var[0])]
            apps = []
            while stack:
                t = stack.pop()
                if t.get_id() in seen:
                    continue
                seen[t.get_id()] = t
                if z3.is_app(t) and t.decl().name() == "cor_h":
                    apps.append(t)
                stack.extend(t.children())
            for a in apps:
                facts += [a <= 1, a >= -1]
            # same lag => same correlation; zero distance of a point to itself
            inv = kstub.inverse_axioms(K, M)
            hints = []
            if ncond == 2:
                a, b, c_, d_ = lift(K[0, 0]), lift(K[0, 1]), lift(K[1, 0]), lift(K[1, 1])
                det = a * d_ - b * c_
                nons = [det > 0]  # non-singular (positive definite) 2x2 system
                expl = [lift(M[0, 0]) * det == d_, lift(M[0, 1]) * det == -b, lift(M[1, 0]) * det == -c_, lift(M[1, 1]) * det == a]
                out.append(prove(base + "/lemma: inverse of the 2x2 system == adj/det", p.conds + inv + nons, z3.And(expl), T, witness_vars=wv, replay=rb, pairwise=False))
                k1, k2 = lift(kv[0, 0]), lift(kv[1, 0])
                qf = z3.Sum([lift(kv[i, 0]) * lift(M[i, j]) * lift(kv[j, 0]) for i in range(2) for j in range(2)])
                H1 = [qf * det == d_ * k1 * k1 - (b + c_) * k1 * k2 + a * k2 * k2]
                # staged with an explicit certificate: qf det - Q = sum_ij k_i k_j (M_ij det - adj_ij)  (a polynomial identity),
                # every summand vanishes by the previous lemma
                adj = [[d_, -b], [-c_, a]]
                kk = [k1, k2]
                E = [[lift(M[i, j]) * det - adj[i][j] for j in range(2)] for i in range(2)]
                Tm = [[kk[i] * kk[j] * E[i][j] for j in range(2)] for i in range(2)]
                Qe_ = d_ * k1 * k1 - (b + c_) * k1 * k2 + a * k2 * k2
                cert = qf * det - Qe_ == Tm[0][0] + Tm[0][1] + Tm[1][0] + Tm[1][1]
                out.append(prove(base + "/lemma: certificate qf det - Q == sum k_i k_j (M_ij det - adj_ij) (polynomial identity)", [], cert, T, witness_vars=wv, replay=rb, instantiate=False, vacuity=False))
                zeros = []
                for i in range(2):
                    for j in range(2):
                        zeros.append(Tm[i][j] == 0)
                        out.append(prove(base + f"/lemma: k_{i} k_{j} (M_{i}{j} det - adj_{i}{j}) == 0", [E[i][j] == 0], Tm[i][j] == 0, T, witness_vars=wv, replay=rb, instantiate=False, vacuity=False))
                out.append(prove(base + "/lemma: M_ij det - adj_ij == 0", expl, z3.And([E[i][j] == 0 for i in range(2) for j in range(2)]), T, witness_vars=wv, replay=rb, instantiate=False, vacuity=False))
                # last step as a generic linear lemma on fresh symbols; H1 is its instance X := qf det, Q := adjugate form, t_ij := the summands
                gX, gQ, g0, g1, g2, g3 = z3.Reals("lem_X lem_Qf lem_t00 lem_t01 lem_t10 lem_t11")
                out.append(prove(base + "/lemma: X - Q == t00+t01+t10+t11, t_ij == 0 => X == Q  (instance: k^T M k * det == quadratic form of the adjugate)", [gX - gQ == g0 + g1 + g2 + g3, g0 == 0, g1 == 0, g2 == 0, g3 == 0], gX == gQ, T, witness_vars={}, replay=rb, instantiate=False, vacuity=False))
                H2 = [d_ * k1 * k1 - (b + c_) * k1 * k2 + a * k2 * k2 >= 0]
                out.append(prove(base + "/lemma: adjugate quadratic form >= 0 (|off-diagonal| <= diagonal)", p.conds + facts, z3.And(H2), T, witness_vars=wv, replay=rb, pairwise=False))
                # generic real-arithmetic lemma on fresh symbols, then used as an instance
                q_, d__, Q_ = z3.Reals("lem_q lem_d lem_Q")
                out.append(prove(base + "/lemma: q*d==Q, Q>=0, d>0 => q>=0", [q_ * d__ == Q_, Q_ >= 0, d__ > 0], q_ >= 0, T, witness_vars={}, replay=rb, instantiate=False))
                Qe = d_ * k1 * k1 - (b + c_) * k1 * k2 + a * k2 * k2
                inst = z3.Implies(z3.And(qf * det == Qe, Qe >= 0, det > 0), qf >= 0)
                hints = nons + H1 + H2 + [inst]
            out.append(prove(base + "/variance<=sill", p.conds + inv + facts + hints, lift(var[0]) <= sy["var"].e + sy["nug"].e, T, witness_vars=wv, replay=rb, pairwise=False))
    return out


def job_duplicates(tier):
    """coincident conditioning points solved with the pseudo-inverse act as one point carrying their mean value"""
    gs, kb = c05._setup()
    T = core.tier_timeout(tier)
    dim = 1
    sy = c05.symbols(dim, 2, 1)
    wv = c05.wvars(sy)
    rb = ("duplicates", lambda v: {"values": v})
    out = []

    def run():
        kstub.reset()
        for s in (sy["var"], sy["len"]):
            sym.assume(s > 0)
        sy["nug"] = 0.0
        sy["cpos"] = [[sy["cpos"][0][0], sy["cpos"][0][0]]]  # the same location twice
        k, model = c05.build(gs, "simple", dim, 2, sy)
        fld, var = k([list(r) for r in sy["tpos"]], return_var=True)
        K, M = kstub.INV_LOG[0]
        return K, M, fld, var

    for pi, p in enumerate(explore(run, max_paths=16)):
        base = f"C06/duplicates/simple/path{pi}"
        if p.exc is not None:
            out.append(rec(base, "error", detail=f"{p.exc!r} {p.tb}"))
            continue
        K, M, fld, var = p.out
        pen = kstub.penrose_axioms(K, M)
        cor0 = [kstub.COR(z3.RealVal(0)) == 1]
        # single point with the mean value: estimate = mean + (zbar - mean) * c(t)/c(0)
        c0 = sy["var"].e  # cov(0) with cor(0)=1
        d = c05.dist_term([sy["cpos"][0][0].e], [sy["tpos"][0][0].e])
        ct = c05.ref_cov(sy, d)
        # the duplicated system has four equal entries var*cor(0) = var and two equal right-hand sides
        dup = [lift(K[i, j]) == sy["var"].e for i in range(2) for j in range(2)]
        out.append(prove(base + "/lemma: duplicated system has equal entries", p.conds + cor0, z3.And(dup), T, witness_vars=wv, replay=rb, pairwise=False))
        # Penrose equations for a rank-one matrix a*[[1,1],[1,1]] force M = [[1,1],[1,1]]/(4a)
        pm = [4 * sy["var"].e * lift(M[i, j]) == 1 for i in range(2) for j in range(2)]
        out.append(prove(base + "/lemma: pseudo-inverse of the duplicated system == ones/(4 var)", p.conds + pen + cor0 + dup, z3.And(pm), T, witness_vars=wv, replay=rb, pairwise=False))
        pen = pen + dup + pm
        zbar = (sy["cval"][0].e + sy["cval"][1].e) / 2
        want = sy["mean"].e + (zbar - sy["mean"].e) * ct / c0
        out.append(prove(base + "/estimate == single point carrying the mean of the duplicates", p.conds + pen + cor0, lift(fld[0]) == want, T, witness_vars=wv, replay=rb, pairwise=False))
        wantv = sy["var"].e - ct * ct / c0
        out.append(prove(base + "/variance == single-point variance (clipped at 0)", p.conds + pen + cor0, lift(var[0]) == z3.If(wantv >= 0, wantv, z3.RealVal(0)), T, witness_vars=wv, replay=rb, pairwise=False))
    return out


def jobs(tier, seed):
    js = []
    for variant in c05.VARIANTS:
        js.append(Job(f"exact-{variant}-no_nugget", job_exact, variant, 1, "no_nugget", "none", tier))
        js.append(Job(f"exact-{variant}-exactmode", job_exact, variant, 1, "exact", "none", tier))
    js.append(Job("exact-ordinary-d2", job_exact, "ordinary", 2, "exact", "none", tier))
    js.append(Job("exact-simple-lognormal", job_exact, "simple", 1, "exact", "lognormal", tier))
    js.append(Job("exact-ordinary-lognormal", job_exact, "ordinary", 1, "no_nugget", "lognormal", tier))
    for variant in ("simple", "ordinary"):
        for nc in (1, 2):
            js.append(Job(f"variance-{variant}-c{nc}", job_variance, variant, nc, tier))
    js.append(Job("duplicates", job_duplicates, tier))
    return js


# --------------------------------------------------------------------------


def _val(v, k, d):
    x = v.get(k)
    return float(x) if x is not None else d


def replay_exact(inputs):
    import warnings

    import numpy as np

    warnings.simplefilter("ignore")
    import gstools as gs

    v, dim, ncond, ntar, cp, cv, tp, par = c05._concrete(inputs, 1)
    variant, mode, norm = inputs["variant"], inputs["mode"], inputs["norm"]
    if mode == "no_nugget":
        par["nugget"] = 0.0
    elif par["nugget"] == 0:
        par["nugget"] = 0.2
    model = gs.Exponential(dim=dim, **par)
    normalizer = gs.normalizer.LogNormal() if norm == "lognormal" else None
    if norm == "lognormal":
        cv = np.abs(cv) + 0.3
    mean = _val(v, "mean", 0.3)
    cext = np.array([_val(v, f"ce{i}", 0.5 + 0.3 * i) for i in range(ncond)])
    trend = lambda *p: 0.3 + 0.2 * sum(np.asarray(a) for a in p)
    common = dict(exact=(mode == "exact"))
    if variant == "simple":
        k = gs.krige.Simple(model, cp, cv, mean=mean, normalizer=normalizer, **common)
    elif variant == "ordinary":
        k = gs.krige.Ordinary(model, cp, cv, normalizer=normalizer, **common)
    elif variant == "universal":
        k = gs.krige.Universal(model, cp, cv, "linear", normalizer=normalizer, **common)
    elif variant == "extdrift":
        k = gs.krige.ExtDrift(model, cp, cv, cext, normalizer=normalizer, **common)
    elif variant == "general":
        cv = trend(*cp) + np.abs(cv) + 0.1
        k = gs.krige.Krige(model, cp, cv, mean=mean, trend=trend, normalizer=gs.normalizer.LogNormal(), unbiased=False, **common)
    else:
        k = gs.krige.Detrended(model, cp, cv, trend, **common)
    kw = {"ext_drift": cext} if variant == "extdrift" else {}
    fld, var = k(cp, return_var=True, **kw)
    ok = np.allclose(fld, cv, rtol=1e-6, atol=1e-8) and np.allclose(var, 0.0, atol=1e-7)
    return bool(ok), f"{variant} {mode} {norm} data={cv.tolist()} field at data={np.asarray(fld).tolist()} variance={np.asarray(var).tolist()}"


def replay_variance(inputs):
    import warnings

    import numpy as np

    warnings.simplefilter("ignore")
    import gstools as gs

    v, dim, ncond, ntar, cp, cv, tp, par = c05._concrete(inputs, 1)
    bad = []
    for cls in (gs.Exponential, gs.Gaussian, gs.Spherical):
        model = cls(dim=dim, **par)
        k = gs.krige.Simple(model, cp, cv, mean=0.1) if inputs["variant"] == "simple" else gs.krige.Ordinary(model, cp, cv)
        grid = np.linspace(cp.min() - 3, cp.max() + 3, 41)[None, :]
        grid = np.concatenate([grid, tp], axis=1)
        _, var = k(grid, return_var=True)
        if np.any(var < 0):
            bad.append("negative variance")
        if inputs["variant"] == "simple" and np.any(var > model.sill * (1 + 1e-9) + 1e-12):
            bad.append(f"variance above sill: {var.max()} > {model.sill}")
    return (not bad), f"{inputs['variant']} c{ncond} failing={bad}"


def replay_duplicates(inputs):
    import warnings

    import numpy as np

    warnings.simplefilter("ignore")
    import gstools as gs

    v = inputs.get("values") or {}
    x0 = _val(v, "c0_0", 0.4)
    z = np.array([_val(v, "z0", 1.0), _val(v, "z1", 3.0)])
    t = np.array([[_val(v, "t0_0", 1.3)]])
    mean = _val(v, "mean", 0.2)
    model = gs.Exponential(dim=1, var=abs(_val(v, "var", 1.4)) or 1.4, len_scale=abs(_val(v, "len", 1.7)) or 1.7)
    kd = gs.krige.Simple(model, [[x0, x0]], z, mean=mean)
    ks = gs.krige.Simple(model, [[x0]], [z.mean()], mean=mean)
    fd, vd = kd(t)
    fs, vs = ks(t)
    ok = np.allclose(fd, fs, rtol=1e-7, atol=1e-9) and np.allclose(vd, vs, rtol=1e-7, atol=1e-9)
    return bool(ok), f"duplicates {fd} {vd} single {fs} {vs}"


REPLAY = {"exact": replay_exact, "variance": replay_variance, "duplicates": replay_duplicates}

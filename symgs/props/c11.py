"""C11  Seeded field generation is deterministic and local."""
import itertools

import numpy as rnp
import z3

from .. import core, rngstub, sym, theory, vario
from ..core import Job, prove, rec
from ..sym import Sym, explore, lift, real

FILES = ["src/gstools/field/generator.py", "src/gstools/field/srf.py", "src/gstools/field/base.py", "src/gstools/field/summator.pyx", "src/gstools/random/rng.py", "src/gstools/random/tools.py", "src/gstools/covmodel/tools.py"]

SPEC = {
    "level": "model_checking",
    "engine": "E1 (SRF / generators) + E2 (summator.pyx) with a symbolic random-number layer",
    "files": FILES,
    "functions": [
        "RandMeth/IncomprRandMeth/Fourier: __init__, __call__, update, reset_seed, get_nugget, seed / mode_no / period / model setters, _fill_to_dim, _set_modes",
        "SRF.__call__, Field.pre_pos/set_pos/post_field, generate_grid",
        "RNG.sample_sphere (real code on symbolic draws)",
        "CovModel.__eq__ / tools.compare",
        "summator.pyx kernels (E2)",
    ],
    "bounds": {
        "quick": {"dim": "1-2", "modes": "2 (Fourier: 2 per axis)", "points": "<=3 symbolic", "histories": "<=2 operations before the final call, every operation with symbolic values"},
        "thorough": {"histories": "<=3 operations; 4 operations over the core operations in 1-D (RandMeth, Fourier)", "dim": "1-2 (+3 for locality)"},
    },
    "stubs": [
        "random numbers: fresh symbols named by (seed VALUE, sub-stream index, draw index): numpy's RandomState contract (a stream is a function of the seed value and the draws made so far); nothing assumed about their law",
        "emcee MCMC sampler -> symbolic radii >= 0; inverse-transform sampling through the model's own ppf",
    ],
    "oracle": "a freshly constructed SRF with the final model, generator settings and the seed in effect; the same points evaluated in another order / subset / mesh type",
    "outside": ["changes of a model parameter inside the library's np.isclose tolerance (by design not a change)", "histories longer than the bound"],
    "assumptions": ["floats read as reals", "in-place parameter changes exceed the isclose tolerance of CovModel.__eq__"],
}

JOB_TIMEOUT = {"quick": 400, "thorough": 3000}


def setup():
    from .. import npx

    npx.install()
    import gstools as gs

    vario.install_variogram_stubs()
    import gstools.field.generator as gen

    gen.summate_c = vario.summate
    gen.summate_incompr_c = vario.summate_incompr
    gen.summate_fourier_c = vario.summate_fourier
    rngstub.install()
    return gs


GENS = {
    "RandMeth": dict(generator="RandMeth", mode_no=2),
    "IncomprRandMeth": dict(generator="IncomprRandMeth", mode_no=2),
    "Fourier": dict(generator="Fourier", mode_no=2),
}


def make_srf(gs, gen, dim, model_kw, seed, period=None, **extra):
    model = gs.Gaussian(dim=dim, **model_kw)
    kw = dict(GENS[gen])
    if gen == "Fourier":
        kw["period"] = period if period is not None else [4.0] * dim
    kw.update(extra)
    return gs.SRF(model, seed=seed, **kw), model


def flat(a):
    return list(rnp.asarray(a, dtype=object).ravel())


def eq_all(xs, ys):
    if len(xs) != len(ys):
        return z3.BoolVal(False)
    return z3.And([core.eq(a, b) for a, b in zip(xs, ys)]) if xs else z3.BoolVal(True)


def job_locality(gen, dim, tier):
    gs = setup()
    T = core.tier_timeout(tier)
    if gen == "IncomprRandMeth" and dim < 2:
        return []
    n = 3
    X = [[real(f"x{a}_{i}") for i in range(n)] for a in range(dim)]
    wv = {str(s.e): s for r in X for s in r}
    rb = ("locality", lambda v: {"gen": gen, "dim": dim, "values": v})
    out = []
    anis = dict(anis=0.5, angles=0.3) if dim == 2 and gen != "IncomprRandMeth" else {}

    def run():
        rngstub.reset()
        srf, model = make_srf(gs, gen, dim, dict(var=1.3, len_scale=2.0, **anis), seed=7)
        full = srf([list(r) for r in X], seed=11)
        vt = srf.value_type
        perm = [2, 0, 1]
        p = srf([[X[a][i] for i in perm] for a in range(dim)], seed=11, store="permuted")
        sub = srf([[X[a][1]] for a in range(dim)], seed=11, store="single")
        b1 = srf([[X[a][i] for i in (0, 1)] for a in range(dim)], seed=11)
        b2 = srf([[X[a][2]] for a in range(dim)], seed=11)
        res = {"full": full, "perm": p, "sub": sub, "b1": b1, "b2": b2, "perm_idx": perm}
        if dim == 2:
            # structured 2x2 mesh vs the equivalent point list
            gx, gy = [X[0][0], X[0][1]], [X[1][0], X[1][1]]
            st = srf((gx, gy), seed=11, mesh_type="structured")
            pts = [[gx[i] for i in range(2) for j in range(2)], [gy[j] for i in range(2) for j in range(2)]]
            us = srf(pts, seed=11)
            res["struct"], res["unstruct"] = st, us
        return res, vt

    for pi, p in enumerate(explore(run, max_paths=128)):
        base = f"C11/locality/{gen}/d{dim}/path{pi}"
        if p.exc is not None:
            out.append(rec(base, "error", detail=f"{p.exc!r} {p.tb}"))
            continue
        res, vt = p.out
        C = p.conds + list(rngstub.FACTS)
        comp = (lambda arr, i: [arr[c, i] for c in range(arr.shape[0])]) if vt == "vector" else (lambda arr, i: [arr[i]])
        full = res["full"]
        for k_, i in enumerate(res["perm_idx"]):
            out.append(prove(base + f"/permuted point {k_} == point {i} of the original order", C, eq_all(comp(res["perm"], k_), comp(full, i)), T, witness_vars=wv, replay=rb, pairwise=False))
        out.append(prove(base + "/single point == same point in the full request (other store name)", C, eq_all(comp(res["sub"], 0), comp(full, 1)), T, witness_vars=wv, replay=rb, pairwise=False))
        for i in (0, 1):
            out.append(prove(base + f"/batch1 point {i}", C, eq_all(comp(res["b1"], i), comp(full, i)), T, witness_vars=wv, replay=rb, pairwise=False))
        out.append(prove(base + "/batch2 point", C, eq_all(comp(res["b2"], 0), comp(full, 2)), T, witness_vars=wv, replay=rb, pairwise=False))
        if "struct" in res:
            out.append(prove(base + "/structured mesh == equivalent point list", C, eq_all(flat(res["struct"]), flat(res["unstruct"])), T, witness_vars=wv, replay=rb, pairwise=False))
    return out


# ---- histories -----------------------------------------------------------

OPS = ["call_seedA", "call_seedB", "call_noseed", "var", "len_scale", "nugget_on", "anis", "angles", "mode_no", "seed_setter", "period"]


def ops_for(gen, dim):
    o = ["call_seedA", "call_seedB", "call_noseed", "var", "len_scale", "mode_no", "seed_setter"]
    if dim == 2 and gen != "IncomprRandMeth":
        o += ["anis", "angles"]
    if gen == "Fourier":
        o += ["period"]
    return o


def _changed(new, old):
    """precondition: a change the library can see (outside np.isclose of CovModel.__eq__)"""
    # CovModel.__eq__: np.isclose(old, new) = |old - new| <= atol + rtol * |new|
    sym.assume(abs(old - new) > 1e-8 + 1e-5 * abs(new))


def job_history(gen, dim, seq, tier):
    gs = setup()
    T = core.tier_timeout(tier)
    if gen == "IncomprRandMeth" and dim < 2:
        return []
    X = [[real(f"x{a}_{i}") for i in range(2)] for a in range(dim)]
    v0, l0, a0, g0 = real("var0"), real("len0"), real("anis0"), real("ang0")
    newv = {k: real(f"s{k}") for k in range(len(seq))}
    wv = {str(s.e): s for r in X for s in r}
    wv.update({str(s.e): s for s in [v0, l0, a0, g0] + list(newv.values())})
    rb = ("history", lambda v: {"gen": gen, "dim": dim, "seq": list(seq), "values": v})
    hid = f"C11/history/{gen}/d{dim}/" + ">".join(seq)
    out = []
    SA, SB = 20170519, 7001

    def mk(model_kw, seed, **extra):
        return make_srf(gs, gen, dim, model_kw, seed, **extra)

    def run():
        rngstub.reset()
        for s in (v0, l0, a0):
            sym.assume(s > 0)
        mkw = dict(var=v0, len_scale=l0)
        if dim == 2 and gen != "IncomprRandMeth":
            mkw.update(anis=a0, angles=g0)
        srf, model = mk(mkw, SA)
        state = dict(seed=SA, mode_no=2, period=[4.0] * dim)
        pos = [list(r) for r in X]
        for k, op in enumerate(seq):
            if op == "call_seedA":
                srf(pos, seed=SA)
                state["seed"] = SA
            elif op == "call_seedB":
                srf(pos, seed=SB)
                state["seed"] = SB
            elif op == "call_noseed":
                srf(pos)
            elif op == "var":
                sym.assume(newv[k] > 0)
                _changed(newv[k], srf.generator.model.var)
                srf.model.var = newv[k]
            elif op == "len_scale":
                sym.assume(newv[k] > 0)
                _changed(newv[k], srf.generator.model.len_scale)
                srf.model.len_scale = newv[k]
            elif op == "anis":
                sym.assume(newv[k] > 0)
                _changed(newv[k], srf.generator.model.anis[0])
                srf.model.anis = newv[k]
            elif op == "angles":
                _changed(newv[k], srf.generator.model.angles[0])
                srf.model.angles = newv[k]
            elif op == "mode_no":
                srf.generator.mode_no = 4
                state["mode_no"] = 4
            elif op == "seed_setter":
                srf.generator.seed = SB
                state["seed"] = SB
            elif op == "seed_setter_A":
                srf.generator.seed = SA
                state["seed"] = SA
            elif op == "period":
                srf.generator.period = [6.0] * dim
                state["period"] = [6.0] * dim
        final = srf(pos)  # no seed given: the seed in effect is used
        # freshly constructed object with the final model and settings
        fm = srf.model
        fkw = dict(var=fm.var, len_scale=fm.len_scale)
        if dim == 2 and gen != "IncomprRandMeth":
            fkw.update(anis=fm.anis[0], angles=fm.angles[0])
        extra = {"mode_no": state["mode_no"]}
        fresh_srf, _ = mk(fkw, state["seed"], period=state["period"], **extra) if gen == "Fourier" else mk(fkw, state["seed"], **extra)
        fresh = fresh_srf(pos)
        # generator state behind the field (cheap, localising obligations): amplitudes, wave vectors / modes, weights
        state = []
        for attr in ("_z_1", "_z_2", "_cov_sample", "_modes", "_spectrum_factor", "_delta_k"):
            a, b = getattr(srf.generator, attr, None), getattr(fresh_srf.generator, attr, None)
            if a is None and b is None:
                continue
            state.append((attr, None if a is None else rnp.array(a, dtype=object).ravel().copy(), None if b is None else rnp.array(b, dtype=object).ravel().copy()))
        return flat(final), flat(fresh), state

    paths = explore(run, max_paths=32)
    n_ok = 0
    for pi, p in enumerate(paths):
        base = f"{hid}/path{pi}"
        if p.exc is not None:
            out.append(rec(base, "error", detail=f"{p.exc!r} {p.tb}"))
            continue
        n_ok += 1
        final, fresh, state = p.out
        C = p.conds + list(rngstub.FACTS)
        for attr, a, b in state:
            if a is None or b is None or a.shape != b.shape:
                out.append(rec(f"{base}/generator state {attr}: shape", "sat", witness={}, replay={"kind": "history", "inputs": rb[1]({})}, detail=f"{None if a is None else a.shape} vs {None if b is None else b.shape}"))
                continue
            for i in range(a.size):
                out.append(prove(f"{base}/generator state {attr}[{i}] == freshly constructed generator", C, core.eq(a[i], b[i]), T, witness_vars=wv, replay=rb, pairwise=False))
        for i, (a, b) in enumerate(zip(final, fresh)):
            out.append(prove(f"{base}/value[{i}] == freshly constructed generator", C, core.eq(a, b), T, witness_vars=wv, replay=rb, pairwise=False))
        if len(final) != len(fresh):
            out.append(rec(base + "/shape", "sat", witness={}, replay={"kind": "history", "inputs": rb[1]({})}))
    if not n_ok:
        out.append(rec(hid + "/reach", "vacuous"))
    return out


def job_mesh(points, tier, opaque=False):
    """SRF.mesh on a meshio mesh with several cell blocks: the value stored for a cell (point) is the field of the same seed at
    its centroid (at the point), whatever the number, order and sizes of the blocks"""
    gs = setup()
    import meshio

    T = core.tier_timeout(tier)
    out = []
    v, l = real("var"), real("len")
    wv = {"var": v, "len": l}
    rb = ("mesh", lambda vals: {"points": points, "values": vals})
    pts = rnp.array([[0.0, 0.0], [1.0, 0.0], [2.0, 0.5], [0.0, 1.0], [1.0, 1.5], [2.5, 2.0], [0.5, 2.5]])
    cells = [("triangle", rnp.array([[0, 1, 3], [1, 2, 4]])), ("quad", rnp.array([[1, 2, 5, 4]])), ("line", rnp.array([[3, 6], [4, 6], [5, 6]])), ("triangle", rnp.array([[3, 4, 6]]))]

    def run():
        rngstub.reset()
        sym.assume(v > 0)
        sym.assume(l > 0)
        srf, model = make_srf(gs, "RandMeth", 2, dict(var=v, len_scale=l), seed=7)
        if opaque:
            # ordering only: the field is an uninterpreted function of the (isometrised) position -- locality of the real
            # generators is the subject of the other jobs; a mis-ordered block then differs by a function value the solver is
            # free to choose
            FLD = z3.Function("field_at", z3.RealSort(), z3.RealSort(), z3.RealSort())

            class OpaqueGen:
                value_type = "scalar"
                name = "opaque"

                def update(self, model=None, seed=None):
                    pass

                def __call__(self, pos, add_nugget=True):
                    pos = rnp.asarray(pos, dtype=object)
                    return rnp.array([Sym(FLD(lift(pos[0, i]), lift(pos[1, i]))) for i in range(pos.shape[1])], dtype=object)

            srf._generator = OpaqueGen()
        mesh = meshio.Mesh(pts, cells)
        srf.mesh(mesh, points=points, name="fld", seed=11)
        if points == "centroids":
            got = [rnp.array(b, dtype=object) for b in mesh.cell_data["fld"]]
            want = []
            for _t, conn in cells:
                cen = pts[conn].mean(axis=1)
                want.append([srf([[c[0]], [c[1]]], seed=11, store="ref")[0] for c in cen])
        else:
            got = [rnp.array(mesh.point_data["fld"], dtype=object)]
            want = [[srf([[p_[0]], [p_[1]]], seed=11, store="ref")[0] for p_ in pts]]
        return got, want

    for pi, p in enumerate(explore(run, max_paths=16)):
        base = f"C11/mesh/{points}{'/opaque field' if opaque else ''}/path{pi}"
        if p.exc is not None:
            out.append(rec(base, "error", detail=f"{p.exc!r} {p.tb}"))
            continue
        got, want = p.out
        C = p.conds + list(rngstub.FACTS)
        if len(got) != len(want) or any(len(g) != len(w_) for g, w_ in zip(got, want)):
            out.append(rec(base + "/block structure of the stored data", "sat", witness={}, replay={"kind": "mesh", "inputs": rb[1]({})}, detail=f"{[len(g) for g in got]} vs {[len(w_) for w_ in want]}"))
            continue
        for k, (g, w_) in enumerate(zip(got, want)):
            for c in range(len(w_)):
                out.append(prove(f"{base}/block {k} entry {c} == field of the same seed at its {'centroid' if points == 'centroids' else 'point'}", C, core.eq(g[c], w_[c]), T, witness_vars=wv, replay=rb, pairwise=False))
    return out


def job_seed_identity(gen, dim, tier):
    """equal seed values as the same object vs as distinct objects: equal histories give equal nugget noise"""
    gs = setup()
    T = core.tier_timeout(tier)
    if gen == "IncomprRandMeth" and dim < 2:
        return []
    X = [[real(f"x{a}_{i}") for i in range(2)] for a in range(dim)]
    wv = {str(s.e): s for r in X for s in r}
    rb = ("seed_identity", lambda v: {"gen": gen, "dim": dim, "values": v})
    out = []

    def history(seeds):
        rngstub.reset()
        srf, model = make_srf(gs, gen, dim, dict(var=1.3, len_scale=2.0, nugget=0.5), seed=seeds[0])
        pos = [list(r) for r in X]
        r1 = srf(pos, seed=seeds[1])
        r2 = srf(pos, seed=seeds[2])
        return flat(r1), flat(r2)

    def run():
        big = 10**6
        same = history([big, big, big])
        f1 = list(rngstub.FACTS)
        distinct = history([int("1000000"), int("1000" + "000"), int(float(10**6))])
        return same, distinct, f1 + list(rngstub.FACTS)

    for pi, p in enumerate(explore(run, max_paths=8)):
        base = f"C11/seed_identity/{gen}/d{dim}/path{pi}"
        if p.exc is not None:
            out.append(rec(base, "error", detail=f"{p.exc!r} {p.tb}"))
            continue
        same, distinct, facts = p.out
        for call in (0, 1):
            for i, (a, b) in enumerate(zip(same[call], distinct[call])):
                out.append(prove(f"{base}/call{call + 1} value[{i}]: same seed object == equal distinct seed objects", p.conds + facts, core.eq(a, b), T, witness_vars=wv, replay=rb, pairwise=False))
    return out


def jobs(tier, seed):
    js = [Job("mesh-centroids", job_mesh, "centroids", tier), Job("mesh-points", job_mesh, "points", tier), Job("mesh-centroids-opaque", job_mesh, "centroids", tier, True), Job("mesh-points-opaque", job_mesh, "points", tier, True)]
    for gen in GENS:
        for dim in (1, 2):
            js.append(Job(f"locality-{gen}-d{dim}", job_locality, gen, dim, tier))
            js.append(Job(f"seedid-{gen}-d{dim}", job_seed_identity, gen, dim, tier))
            ops = ops_for(gen, dim)
            seqs = [(o,) for o in ops] + list(itertools.product(ops, repeat=2))
            if tier == "thorough" and dim == 1:
                core_ops = [o for o in ops if o in ("call_seedB", "call_noseed", "var", "mode_no", "seed_setter", "period")]
                seqs += list(itertools.product(core_ops, repeat=3))
                if gen != "IncomprRandMeth":
                    seqs += [s_ for s_ in itertools.product([o for o in core_ops if o != "call_noseed"], repeat=4) if len(set(s_)) >= 3]
            if tier == "quick" and dim == 2:
                # 2-D quick: single operations and pairs that involve the geometric parameters
                seqs = [(o,) for o in ops] + [s for s in itertools.product(ops, repeat=2) if ("anis" in s or "angles" in s or "period" in s)]
            if dim == 1:
                # there and back: leave the first seed, change something, return to the first seed (per-seed memoisation must not survive)
                mid = [o for o in ops if o in ("var", "len_scale", "mode_no", "period", "call_noseed")]
                seqs += [("seed_setter", m, "seed_setter_A") for m in mid] + [("call_seedB", m, "call_seedA") for m in mid]
                seqs += [("call_noseed", "seed_setter", m, "seed_setter_A") for m in ("mode_no", "var")]
            seqs = list(dict.fromkeys(seqs))
            for s in seqs:
                js.append(Job(f"hist-{gen}-d{dim}-{'>'.join(s)}", job_history, gen, dim, s, tier))
    return js


# --------------------------------------------------------------------------
# replays (real random numbers)


def _val(v, k, d):
    x = v.get(k)
    return float(x) if x is not None else d


def _mk(gs, gen, dim, mkw, seed, period=None, mode_no=None):
    model = gs.Gaussian(dim=dim, **mkw)
    kw = dict(generator=gen, mode_no=mode_no if mode_no is not None else (8 if gen == "Fourier" else 50))
    if gen == "Fourier":
        kw["period"] = period if period is not None else [4.0] * dim
    return gs.SRF(model, seed=seed, **kw)


def replay_locality(inputs):
    import numpy as np
    import gstools as gs

    gen, dim, v = inputs["gen"], int(inputs["dim"]), inputs["values"]
    X = np.array([[_val(v, f"x{a}_{i}", 0.7 * i + 0.31 * a + 0.05 * i * i) for i in range(3)] for a in range(dim)])
    anis = dict(anis=0.5, angles=0.3) if dim == 2 and gen != "IncomprRandMeth" else {}
    srf = _mk(gs, gen, dim, dict(var=1.3, len_scale=2.0, **anis), 7)
    full = srf(X, seed=11)
    perm = [2, 0, 1]
    bad = []
    tol = dict(rtol=1e-10, atol=1e-12)
    if not np.allclose(srf(X[:, perm], seed=11, store="p")[..., :], full[..., perm], **tol):
        bad.append("permutation")
    if not np.allclose(srf(X[:, 1:2], seed=11, store="s")[..., 0], full[..., 1], **tol):
        bad.append("single")
    if not (np.allclose(srf(X[:, :2], seed=11), full[..., :2], **tol) and np.allclose(srf(X[:, 2:], seed=11)[..., 0], full[..., 2], **tol)):
        bad.append("batches")
    if dim == 2:
        gx, gy = X[0, :2], X[1, :2]
        st = srf((gx, gy), seed=11, mesh_type="structured")
        pts = np.array([[gx[i], gy[j]] for i in range(2) for j in range(2)]).T
        us = srf(pts, seed=11)
        if not np.allclose(np.asarray(st).reshape(np.asarray(us).shape), us, **tol):
            bad.append("structured")
    return (not bad), f"{gen} d{dim} failing={bad}"


def replay_history(inputs):
    import warnings

    import numpy as np

    warnings.simplefilter("ignore")
    import gstools as gs

    gen, dim, seq, v = inputs["gen"], int(inputs["dim"]), list(inputs["seq"]), inputs.get("values") or {}
    X = np.array([[_val(v, f"x{a}_{i}", 0.7 * i + 0.31 * a + 0.4) for i in range(2)] for a in range(dim)])
    v0, l0 = abs(_val(v, "var0", 1.3)) or 1.3, abs(_val(v, "len0", 2.0)) or 2.0
    a0, g0 = abs(_val(v, "anis0", 0.5)) or 0.5, _val(v, "ang0", 0.3)
    mkw = dict(var=v0, len_scale=l0)
    geo = dim == 2 and gen != "IncomprRandMeth"
    if geo:
        mkw.update(anis=a0, angles=g0)
    SA, SB = 20170519, 7001
    srf = _mk(gs, gen, dim, mkw, SA, mode_no=8 if gen == "Fourier" else 30)
    state = dict(seed=SA, mode_no=8 if gen == "Fourier" else 30, period=[4.0] * dim)
    dfl = {"var": 2.1, "len_scale": 3.3, "anis": 1.0, "angles": 1.1}
    for k, op in enumerate(seq):
        nv = v.get(f"s{k}")
        if op == "call_seedA":
            srf(X, seed=SA)
            state["seed"] = SA
        elif op == "call_seedB":
            srf(X, seed=SB)
            state["seed"] = SB
        elif op == "call_noseed":
            srf(X)
        elif op in ("var", "len_scale"):
            val = abs(float(nv)) if nv is not None else dfl[op]
            if np.isclose(val, getattr(srf.model, op)):
                val = getattr(srf.model, op) * 1.7 + 0.3
            setattr(srf.model, op, val)
        elif op == "anis":
            val = abs(float(nv)) if nv is not None else dfl[op]
            if np.isclose(val, srf.model.anis[0]):
                val = srf.model.anis[0] * 2.0
            srf.model.anis = val
        elif op == "angles":
            val = float(nv) if nv is not None else dfl[op]
            if np.isclose(val, srf.model.angles[0]):
                val = srf.model.angles[0] + 0.8
            srf.model.angles = val
        elif op == "mode_no":
            state["mode_no"] = 12 if gen == "Fourier" else 40
            srf.generator.mode_no = state["mode_no"]
        elif op == "seed_setter":
            srf.generator.seed = SB
            state["seed"] = SB
        elif op == "seed_setter_A":
            srf.generator.seed = SA
            state["seed"] = SA
        elif op == "period":
            srf.generator.period = [6.0] * dim
            state["period"] = [6.0] * dim
    final = srf(X)
    fm = srf.model
    fkw = dict(var=fm.var, len_scale=fm.len_scale)
    if geo:
        fkw.update(anis=fm.anis[0], angles=fm.angles[0])
    fresh = _mk(gs, gen, dim, fkw, state["seed"], period=state["period"], mode_no=state["mode_no"])(X)
    ok = np.allclose(final, fresh, rtol=1e-9, atol=1e-11)
    return bool(ok), f"{gen} d{dim} seq={seq} after history={np.asarray(final).tolist()} fresh generator={np.asarray(fresh).tolist()}"


def replay_seed_identity(inputs):
    import numpy as np
    import gstools as gs

    gen, dim, v = inputs["gen"], int(inputs["dim"]), inputs.get("values") or {}
    X = np.array([[_val(v, f"x{a}_{i}", 0.7 * i + 0.31 * a + 0.4) for i in range(2)] for a in range(dim)])

    def hist(seeds):
        srf = _mk(gs, gen, dim, dict(var=1.3, len_scale=2.0, nugget=0.5), seeds[0])
        return np.asarray(srf(X, seed=seeds[1])), np.asarray(srf(X, seed=seeds[2]))

    big = 10**6
    a = hist([big, big, big])
    b = hist([int("1000000"), int("1000" + "000"), int(float(10**6))])
    ok = np.allclose(a[0], b[0]) and np.allclose(a[1], b[1])
    return bool(ok), f"{gen} d{dim}: same object -> {a[1].tolist()} ; equal distinct objects -> {b[1].tolist()}"


def replay_mesh(inputs):
    import numpy as np
    import meshio
    import gstools as gs

    v = inputs.get("values") or {}
    points = inputs["points"]
    var, l = abs(_val(v, "var", 1.3)) or 1.3, abs(_val(v, "len", 2.0)) or 2.0
    pts = np.array([[0.0, 0.0], [1.0, 0.0], [2.0, 0.5], [0.0, 1.0], [1.0, 1.5], [2.5, 2.0], [0.5, 2.5]])
    cells = [("triangle", np.array([[0, 1, 3], [1, 2, 4]])), ("quad", np.array([[1, 2, 5, 4]])), ("line", np.array([[3, 6], [4, 6], [5, 6]])), ("triangle", np.array([[3, 4, 6]]))]
    srf = gs.SRF(gs.Gaussian(dim=2, var=var, len_scale=l), seed=7, mode_no=40)
    mesh = meshio.Mesh(pts, cells)
    srf.mesh(mesh, points=points, name="fld", seed=11)
    bad = []
    if points == "centroids":
        for k, (_t, conn) in enumerate(cells):
            cen = pts[conn].mean(axis=1)
            want = srf(cen.T, seed=11, store=False)
            got = np.asarray(mesh.cell_data["fld"][k], dtype=float)
            if got.shape != want.shape or not np.allclose(got, want, rtol=1e-10):
                bad.append(f"block {k}: stored {got.tolist()} but the field at the centroids is {want.tolist()}")
    else:
        want = srf(pts.T, seed=11, store=False)
        if not np.allclose(mesh.point_data["fld"], want, rtol=1e-10):
            bad.append("point data")
    return (not bad), f"mesh {points}: {bad[:3]}"


REPLAY = {"mesh": replay_mesh, "locality": replay_locality, "history": replay_history, "seed_identity": replay_seed_identity}

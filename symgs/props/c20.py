"""C20  Operations never modify caller arrays or previously stored results."""
import math

import numpy as rnp
import z3

from .. import core, kstub, sym, theory, vario
from ..core import Job, prove, rec
from ..sym import Sym, explore, lift, real

FILES = [
    "src/gstools/variogram/variogram.py",
    "src/gstools/variogram/binning.py",
    "src/gstools/normalizer/tools.py",
    "src/gstools/normalizer/base.py",
    "src/gstools/transform/field.py",
    "src/gstools/transform/array.py",
    "src/gstools/field/base.py",
    "src/gstools/field/srf.py",
    "src/gstools/field/cond_srf.py",
    "src/gstools/krige/base.py",
    "src/gstools/krige/tools.py",
    "src/gstools/covmodel/fit.py",
]

SPEC = {
    "level": "model_checking",
    "engine": "E1 (caller arrays are numpy object arrays in the aliasing-friendliest layout: asarray(x, dtype=double) returns x itself, as numpy does for contiguous float64)",
    "files": FILES,
    "functions": [
        "vario_estimate, vario_estimate_axis, standard_bins",
        "remove_trend_norm_mean, apply_mean_norm_trend",
        "Field.__call__, SRF.__call__, CondSRF.__call__, Field.transform (store / process combinations)",
        "Krige.__init__/set_condition/__call__",
        "Normalizer.normalize/denormalize/derivative",
        "CovModel.fit_variogram",
        "transform.array.array_*",
    ],
    "bounds": {"quick": {"arrays": "2-4 elements per caller array, symbolic element values and symbolic option values (mean, trend, geo_scale, normaliser parameter, errors)", "store sequences": "<= 3 calls"}, "thorough": {"arrays": "as quick, more option combinations"}},
    "stubs": ["kernels interpreted from source (E2), symbolic (pseudo-)inverse, curve_fit returning its start vector, masks concrete"],
    "oracle": "for every element of every caller-held array and every earlier stored/returned field: value after the call == value before the call",
    "outside": ["non-float64 / non-contiguous inputs (numpy copies them: strictly safer)", "entry points not listed"],
    "assumptions": ["floats read as reals"],
}

JOB_TIMEOUT = {"quick": 400, "thorough": 3000}


def _setup():
    from .. import npx

    npx.install()
    import gstools as gs

    vario.install_variogram_stubs()
    kb = kstub.install()
    import gstools.field.generator as gen

    gen.summate_c = vario.summate
    gen.summate_incompr_c = vario.summate_incompr
    gen.summate_fourier_c = vario.summate_fourier
    return gs


class Watch:
    """caller-held arrays with a snapshot of their elements"""

    def __init__(self):
        self.items = []

    def arr(self, name, values, shape=None):
        a = rnp.array(values, dtype=object)
        if shape is not None:
            a = a.reshape(shape)
        self.items.append((name, a, a.copy(), None))
        return a

    def marr(self, name, values, mask):
        a = rnp.ma.array(rnp.array(values, dtype=object), mask=rnp.array(mask, dtype=bool))
        self.items.append((name, a, rnp.ma.getdata(a).copy(), rnp.ma.getmaskarray(a).copy()))
        return a

    def stored(self, name, a):
        a = rnp.asarray(a)
        self.items.append((name, a, a.copy(), None))

    def changes(self):
        """list of (label, before, after) for elements that are not the identical object"""
        out = []
        for name, a, snap, msnap in self.items:
            data = rnp.ma.getdata(a) if isinstance(a, rnp.ma.MaskedArray) else a
            if data.shape != snap.shape:
                out.append((f"{name}.shape", snap.shape, data.shape))
                continue
            for idx in rnp.ndindex(*snap.shape):
                b, c = snap[idx], data[idx]
                if b is c:
                    continue
                out.append((f"{name}{list(idx)}", b, c))
            if msnap is not None:
                m = rnp.ma.getmaskarray(a)
                if not rnp.array_equal(m, msnap):
                    out.append((f"{name}.mask", msnap.tolist(), m.tolist()))
        return out


def _same(b, c):
    """z3 Bool: element unchanged (None when decided concretely)"""
    bs, cs = isinstance(b, Sym), isinstance(c, Sym)
    if not bs and not cs:
        if isinstance(b, (list, tuple)) or isinstance(c, (list, tuple)):
            return b == c
        fb, fc = float(b), float(c)
        return (fb == fc) or (fb != fb and fc != fc)
    # a symbolic (finite) value replaced by NaN / inf, or the other way round, is a change
    for x in (b, c):
        if not isinstance(x, Sym) and not isinstance(x, (list, tuple)) and float(x) != float(x) or (not isinstance(x, Sym) and not isinstance(x, (list, tuple)) and abs(float(x)) == float("inf")):
            return False
    return lift(b) == lift(c)


def run_case(tag, scenario, wv, kind, params, T, max_paths=40):
    """scenario(w: Watch) performs the calls; obligations: no watched element changes"""
    out = []
    rb = (kind, lambda v: dict(params, values=v))

    def run():
        w = Watch()
        scenario(w)
        return w.changes()

    paths = explore(run, max_paths=max_paths)
    n_ok = 0
    for pi, p in enumerate(paths):
        base = f"{tag}/path{pi}"
        if p.exc is not None:
            out.append(rec(base, "error", detail=f"{p.exc!r} {p.tb}"))
            continue
        n_ok += 1
        ch = p.out
        if not ch:
            out.append(rec(base + "/no caller element replaced", "unsat", vacuity="sat", note="every watched element is the identical object after the call"))
            continue
        for label, b, c in ch:
            g = _same(b, c)
            if g is True:
                continue
            if g is False:
                out.append(prove(base + f"/{label} unchanged", p.conds, z3.BoolVal(False), T, witness_vars=wv, replay=rb, vacuity=False, note=f"{b} -> {c}"))
            else:
                out.append(prove(base + f"/{label} unchanged", p.conds, g, T, witness_vars=wv, replay=rb))
    if not n_ok:
        out.append(rec(tag + "/reach", "vacuous"))
    return out


def S(*names):
    return [real(n) for n in names]


def job_tools(tier):
    gs = _setup()
    from gstools.normalizer.tools import apply_mean_norm_trend, remove_trend_norm_mean

    T = core.tier_timeout(tier)
    out = []
    m, t, lam = S("mean", "trend", "lmbda")
    f = S("f0", "f1")
    x = S("x0", "x1")
    wv = {str(s.e): s for s in [m, t, lam] + f + x}
    for fn_name, fn in (("remove_trend_norm_mean", remove_trend_norm_mean), ("apply_mean_norm_trend", apply_mean_norm_trend)):
        for check_shape in (True, False):
            for stacked in (False, True):

                def sc(w, fn=fn, check_shape=check_shape, stacked=stacked):
                    pos = w.arr("pos", [x])
                    fld = w.arr("field", [f, [a + 1.0 for a in f]] if stacked else f)
                    fn(pos, fld, mean=m, trend=t, check_shape=check_shape, stacked=stacked)

                out += run_case(f"C20/{fn_name}/check_shape={check_shape}/stacked={stacked}", sc, wv, "tools", {"fn": fn_name, "check_shape": check_shape, "stacked": stacked}, T)
    return out


def job_field_call(tier):
    gs = _setup()
    T = core.tier_timeout(tier)
    m, t = S("mean", "trend")
    f = S("f0", "f1")
    x = S("x0", "x1")
    wv = {str(s.e): s for s in [m, t] + f + x}

    def sc(w):
        model = gs.Gaussian(dim=1)
        fld = gs.field.Field(model, mean=m, trend=t)
        pos = w.arr("pos", [x])
        a = w.arr("field", f)
        r1 = fld(pos, field=a)
        w.stored("returned#1", r1)
        w.stored("stored 'field'#1", fld.field)
        fld(pos, field=rnp.array([f[1], f[0]], dtype=object), store="second")

    return run_case("C20/Field.__call__(pos, field=a)", sc, wv, "field_call", {}, T)


def job_vario(variant, tier):
    gs = _setup()
    from gstools.variogram import variogram as vv

    T = core.tier_timeout(tier)
    x = [S("x0_0", "x0_1", "x0_2"), S("x1_0", "x1_1", "x1_2")]
    f = S("f0", "f1", "f2")
    b = S("b0", "b1", "b2")
    R, m, t = S("R", "mean", "trend")
    u = S("u0", "u1")
    wv = {str(s.e): s for s in x[0] + x[1] + f + b + [R, m, t] + u}

    def sc(w):
        sym.assume(b[0] >= 0)
        sym.assume(b[0] < b[1])
        sym.assume(b[1] < b[2])
        pos = w.arr("pos", x)
        fld = w.arr("field", f)
        be = w.arr("bin_edges", b)
        kw = {}
        if variant == "latlon":
            sym.assume(R > 0)
            kw = dict(latlon=True, geo_scale=R)
        elif variant == "mean_trend":
            kw = dict(mean=m, trend=t)
        elif variant == "no_data":
            kw = dict(no_data=-999.0)
            for s_ in f:
                sym.assume(abs(s_ + 999.0) > 1.0)
        elif variant == "mask":
            kw = dict(mask=w.arr("mask", [False, True, False]).astype(bool))
        elif variant == "direction":
            sym.assume(u[0] * u[0] + u[1] * u[1] > 0.01)
            kw = dict(direction=w.arr("direction", [u]), angles_tol=0.4)
        elif variant == "sampling":
            kw = dict(sampling_size=2, sampling_seed=7)
        vv.vario_estimate(pos, fld, be, return_counts=True, **kw)

    return run_case(f"C20/vario_estimate[{variant}]", sc, wv, "vario", {"variant": variant}, T)


def job_vario_axis(variant, tier):
    gs = _setup()
    from gstools.variogram import variogram as vv

    T = core.tier_timeout(tier)
    G = [S("g0_0", "g0_1"), S("g1_0", "g1_1"), S("g2_0", "g2_1")]
    wv = {str(s.e): s for r in G for s in r}

    def sc(w):
        vals = [list(r) for r in G]
        if variant == "plain":
            g = w.arr("field", vals)
        elif variant == "nan":
            vals[1][0] = math.nan
            g = w.arr("field", vals)
        else:  # masked array that also holds a NaN
            vals[1][0] = math.nan
            mk = [[False, False], [False, False], [True, False]]
            g = w.marr("field", vals, mk)
        vv.vario_estimate_axis(g, direction="x")
        vv.vario_estimate_axis(g, direction="y")

    return run_case(f"C20/vario_estimate_axis[{variant}]", sc, wv, "vario_axis", {"variant": variant}, T)


def job_bins(tier):
    gs = _setup()
    T = core.tier_timeout(tier)
    x = [S("x0_0", "x0_1"), S("x1_0", "x1_1")]
    wv = {str(s.e): s for r in x for s in r}

    def sc(w):
        pos = w.arr("pos", x)
        gs.standard_bins(pos, dim=2, bin_no=3)
        gs.standard_bins(pos, dim=2, bin_no=3, max_dist=2.5)

    return run_case("C20/standard_bins", sc, wv, "bins", {}, T, max_paths=80)


def job_krige(variant, tier):
    gs = _setup()
    T = core.tier_timeout(tier)
    cp, cv, tp = S("c0", "c1"), S("z0", "z1"), S("t0", "t1")
    ce, te, er = S("ce0", "ce1"), S("te0", "te1"), S("e0", "e1")
    m, t, v, l, n = S("mean", "trend", "var", "len", "nug")
    wv = {str(s.e): s for s in cp + cv + tp + ce + te + er + [m, t, v, l, n]}

    def sc(w):
        kstub.reset()
        sym.assume(v > 0)
        sym.assume(l > 0)
        sym.assume(n >= 0)
        for e in er:
            sym.assume(e >= 0)
        model = kstub.uf_model_class()(dim=1, var=v, len_scale=l, nugget=n)
        cpos = w.arr("cond_pos", [cp])
        cval = w.arr("cond_val", cv)
        pos = w.arr("pos", [tp])
        if variant == "simple":
            k = gs.krige.Simple(model, cpos, cval, mean=m, trend=t, cond_err=w.arr("cond_err", er))
            f1, v1 = k(pos)
        elif variant == "ordinary":
            k = gs.krige.Ordinary(model, cpos, cval, trend=t)
            f1, v1 = k(pos, chunk_size=1)
        elif variant == "universal":
            k = gs.krige.Universal(model, cpos, cval, "linear")
            f1, v1 = k(pos)
        else:
            cext = w.arr("cond_ext_drift", ce)
            text = w.arr("ext_drift", te)
            k = gs.krige.ExtDrift(model, cpos, cval, cext)
            f1, v1 = k(pos, ext_drift=text)
        w.stored("returned field#1", f1)
        w.stored("returned variance#1", v1)
        w.stored("stored field#1", k.field)
        # a second evaluation under another name and a refresh of the conditions
        if variant == "extdrift":
            k(pos, ext_drift=text, store=["f2", "v2"])
        else:
            k(pos, store=["f2", "v2"])
        k.set_condition()

    return run_case(f"C20/Krige[{variant}]", sc, wv, "krige", {"variant": variant}, T)


def job_srf(kind, tier):
    gs = _setup()
    T = core.tier_timeout(tier)
    x = S("x0", "x1")
    m, t = S("mean", "trend")
    cp, cv = S("c0", "c1"), S("z0", "z1")
    wv = {str(s.e): s for s in x + [m, t] + cp + cv}

    def sc(w):
        pos = w.arr("pos", [x])
        if kind == "srf":
            model = gs.Gaussian(dim=1, var=1.3, len_scale=2.0)
            srf = gs.SRF(model, mean=m, trend=t, mode_no=2, seed=3)
            r1 = srf(pos, seed=5)
            w.stored("returned#1", r1)
            w.stored("stored field#1", srf.field)
            srf(pos, seed=6, store="other")
        else:
            kstub.reset()
            model = gs.Gaussian(dim=1, var=1.3, len_scale=2.0)
            cpos = w.arr("cond_pos", [cp])
            cval = w.arr("cond_val", cv)
            kr = gs.krige.Ordinary(model, cpos, cval)
            csrf = gs.CondSRF(kr, mode_no=2, seed=3)
            r1 = csrf(pos, seed=5)
            w.stored("returned#1", r1)
            w.stored("stored field#1", csrf.field)
            csrf(pos, seed=6, store="other")

    return run_case(f"C20/{kind}.__call__", sc, wv, "srf", {"kind": kind}, T)


def job_transform(method, process, keep_mean, tier):
    gs = _setup()
    T = core.tier_timeout(tier)
    x = S("x0", "x1")
    f = S("f0", "f1")
    m, t = S("mean", "trend")
    wv = {str(s.e): s for s in x + f + [m, t]}

    def sc(w):
        model = gs.Gaussian(dim=1, var=1.3, len_scale=2.0)
        fld = gs.field.Field(model, mean=m, trend=(t if process else None))
        pos = rnp.array([x], dtype=object)
        fld(pos, field=rnp.array(f, dtype=object), post_process=False)
        w.stored("stored 'field'", fld.field)
        kw = {}
        if method == "discrete":
            kw = dict(values=[0.0, 1.0, 2.0], thresholds=[-0.5, 0.5])
        r = fld.transform(method, store="new", process=process, keep_mean=keep_mean, **kw)
        w.stored("returned 'new'", r)
        fld.transform(method, field="field", store="newer", process=process, keep_mean=keep_mean, **kw)

    return run_case(f"C20/transform[{method},process={process},keep_mean={keep_mean}]", sc, wv, "transform", {"method": method, "process": process, "keep_mean": keep_mean}, T, max_paths=80)


def job_normalizer(name, tier, in_range=True):
    gs = _setup()
    T = core.tier_timeout(tier)
    d = S("d0", "d1")
    lam = real("lmbda")
    wv = {str(s.e): s for s in d + [lam]}

    def sc(w):
        par = {"lmbda": lam} if name in ("BoxCox", "YeoJohnson", "Manly", "Modulus") else {}
        nz = getattr(gs.normalizer, name)(**par)
        if name in ("LogNormal", "BoxCox") and in_range:
            for s_ in d:
                sym.assume(s_ > 0)
        if not in_range:
            # data outside the valid range of the normaliser (the library warns and returns NaN there): the caller's array
            # still has to stay as it is
            import warnings

            warnings.simplefilter("ignore")
        a = w.arr("data", d)
        n = nz.normalize(a)
        w.stored("normalized#1", n)
        nz.denormalize(n)
        nz.derivative(a)
        if in_range:  # (with every entry outside the range the likelihood is a mean over no data)
            nz.kernel_loglikelihood(a)

    return run_case(f"C20/Normalizer[{name}{'' if in_range else ', data outside the valid range'}]", sc, wv, "normalizer", {"name": name, "in_range": in_range}, T, max_paths=200)


def job_fit(latlon, tier):
    gs = _setup()
    import gstools.covmodel.fit as fit

    T = core.tier_timeout(tier)
    xd, yd, wg = S("r0", "r1", "r2"), S("y0", "y1", "y2"), S("w0", "w1", "w2")
    wv = {str(s.e): s for s in xd + yd + wg}

    def curve_fit(f, xdata, ydata, p0, bounds, **kw):
        f(xdata, *p0)
        return rnp.array(p0, dtype=object), rnp.zeros((len(p0), len(p0)))

    fit.curve_fit = curve_fit

    def sc(w):
        for s_ in xd:
            sym.assume(s_ > 0)
        for s_ in wg:
            sym.assume(s_ > 0)
        model = gs.Gaussian(dim=2, latlon=latlon) if latlon else gs.Gaussian(dim=2)
        x = w.arr("x_data", xd)
        y = w.arr("y_data", yd)
        ww = w.arr("weights", wg)
        model.fit_variogram(x, y, weights=ww, init_guess="current")
        model.fit_variogram(x, y, weights="inv", nugget=False, init_guess="current")

    return run_case(f"C20/fit_variogram[latlon={latlon}]", sc, wv, "fit", {"latlon": latlon}, T, max_paths=120)


def job_array_transforms(tier):
    gs = _setup()
    from gstools.transform import array as ta

    T = core.tier_timeout(tier)
    f = S("f0", "f1")
    mu, var = S("mu", "var")
    wv = {str(s.e): s for s in f + [mu, var]}

    def sc(w):
        sym.assume(var > 0)
        sym.assume(f[0] < f[1])
        a = w.arr("field", f)
        ta.array_to_lognormal(a)
        ta.array_to_uniform(a, mean=mu, var=var)
        ta.array_to_arcsin(a, mean=mu, var=var)
        ta.array_to_uquad(a, mean=mu, var=var)
        ta.array_zinnharvey(a, mean=mu, var=var)
        ta.array_force_moments(a, mean=mu, var=var)
        ta.array_boxcox(a, lmbda=0.5, shift=10.0)
        ta.array_discrete(a, [0.0, 1.0], thresholds=[mu])

    return run_case("C20/transform.array_*", sc, wv, "array", {}, T, max_paths=400)


def jobs(tier, seed):
    js = [Job("tools", job_tools, tier), Job("field_call", job_field_call, tier), Job("bins", job_bins, tier), Job("array", job_array_transforms, tier)]
    for v in ("plain", "latlon", "mean_trend", "no_data", "mask", "direction", "sampling"):
        js.append(Job(f"vario-{v}", job_vario, v, tier))
    for v in ("plain", "nan", "masked_nan"):
        js.append(Job(f"vario_axis-{v}", job_vario_axis, v, tier))
    for v in ("simple", "ordinary", "universal", "extdrift"):
        js.append(Job(f"krige-{v}", job_krige, v, tier))
    for k in ("srf", "condsrf"):
        js.append(Job(f"{k}", job_srf, k, tier))
    for method, process, keep in (("normal_to_lognormal", True, True), ("normal_to_lognormal", True, False), ("normal_to_lognormal", False, True), ("zinnharvey", True, True), ("discrete", True, False), ("normal_to_uniform", True, True)):
        js.append(Job(f"transform-{method}-{process}-{keep}", job_transform, method, process, keep, tier))
    for n in ("Normalizer", "LogNormal", "BoxCox", "YeoJohnson", "Manly"):
        js.append(Job(f"normalizer-{n}", job_normalizer, n, tier))
    for n in ("LogNormal", "BoxCox", "Manly"):
        js.append(Job(f"normalizer-{n}-outside", job_normalizer, n, tier, False))
    js.append(Job("fit", job_fit, False, tier))
    js.append(Job("fit-latlon", job_fit, True, tier))
    return js


# --------------------------------------------------------------------------
# replays: the same scenario on float64 arrays with the unpatched library


def _val(v, k, d):
    x = v.get(k)
    return float(x) if x is not None else d


class NWatch:
    def __init__(self):
        self.items = []

    def arr(self, name, a):
        import numpy as np

        a = np.ascontiguousarray(np.array(a, dtype=float))
        self.items.append((name, a, a.copy(), None))
        return a

    def marr(self, name, a, mask):
        import numpy as np

        a = np.ma.array(np.array(a, dtype=float), mask=np.array(mask, dtype=bool))
        self.items.append((name, a, np.ma.getdata(a).copy(), np.ma.getmaskarray(a).copy()))
        return a

    def stored(self, name, a):
        import numpy as np

        a = np.asarray(a)
        self.items.append((name, a, a.copy(), None))

    def changed(self):
        import numpy as np

        out = []
        for name, a, snap, msnap in self.items:
            data = np.ma.getdata(a) if isinstance(a, np.ma.MaskedArray) else a
            if data.shape != snap.shape or not np.array_equal(data, snap, equal_nan=True):
                out.append(f"{name}: {snap.tolist()} -> {np.asarray(data).tolist()}")
            if msnap is not None and not np.array_equal(np.ma.getmaskarray(a), msnap):
                out.append(f"{name}.mask: {msnap.tolist()} -> {np.ma.getmaskarray(a).tolist()}")
        return out


def _rep(fn):
    def g(inputs):
        import warnings

        warnings.simplefilter("ignore")
        w = NWatch()
        v = inputs.get("values") or {}
        fn(w, v, inputs)
        ch = w.changed()
        return (not ch), f"changed: {ch}"

    return g


def _r_tools(w, v, inp):
    from gstools.normalizer.tools import apply_mean_norm_trend, remove_trend_norm_mean

    fn = {"remove_trend_norm_mean": remove_trend_norm_mean, "apply_mean_norm_trend": apply_mean_norm_trend}[inp["fn"]]
    f = [_val(v, "f0", 0.7), _val(v, "f1", -0.4)]
    pos = w.arr("pos", [[_val(v, "x0", 0.1), _val(v, "x1", 1.2)]])
    fld = w.arr("field", [f, [a + 1.0 for a in f]] if inp["stacked"] else f)
    fn(pos, fld, mean=_val(v, "mean", 0.3), trend=_val(v, "trend", 0.8), check_shape=inp["check_shape"], stacked=inp["stacked"])


def _r_field_call(w, v, inp):
    import gstools as gs

    fld = gs.field.Field(gs.Gaussian(dim=1), mean=_val(v, "mean", 0.3), trend=_val(v, "trend", 0.8))
    pos = w.arr("pos", [[_val(v, "x0", 0.1), _val(v, "x1", 1.2)]])
    a = w.arr("field", [_val(v, "f0", 0.7), _val(v, "f1", -0.4)])
    r1 = fld(pos, field=a)
    w.stored("returned#1", r1)
    w.stored("stored field#1", fld.field)
    fld(pos, field=a[::-1].copy(), store="second")


def _r_vario(w, v, inp):
    import numpy as np
    import gstools as gs

    variant = inp["variant"]
    pos = w.arr("pos", [[_val(v, f"x{a}_{i}", 0.9 * i + 0.4 * a * i * i + 0.1 * a) for i in range(3)] for a in range(2)])
    fld = w.arr("field", [_val(v, f"f{i}", 0.5 * i * i - 0.3) for i in range(3)])
    be = w.arr("bin_edges", sorted([abs(_val(v, "b0", 0.1)), abs(_val(v, "b1", 1.2)) + 0.01, abs(_val(v, "b2", 2.7)) + 0.02]))
    kw = {}
    if variant == "latlon":
        kw = dict(latlon=True, geo_scale=abs(_val(v, "R", 3.0)) or 3.0)
    elif variant == "mean_trend":
        kw = dict(mean=_val(v, "mean", 0.4), trend=_val(v, "trend", 0.9))
    elif variant == "no_data":
        kw = dict(no_data=-999.0)
    elif variant == "mask":
        kw = dict(mask=w.arr("mask", [0, 1, 0]).astype(bool))
    elif variant == "direction":
        kw = dict(direction=w.arr("direction", [[_val(v, "u0", 2.0), _val(v, "u1", 0.5)]]), angles_tol=0.4)
    elif variant == "sampling":
        kw = dict(sampling_size=2, sampling_seed=7)
    gs.vario_estimate(pos, fld, be, return_counts=True, **kw)


def _r_vario_axis(w, v, inp):
    import numpy as np
    import gstools as gs

    vals = [[_val(v, f"g{i}_{j}", 0.3 * i - 0.5 * j + 0.1 * i * j) for j in range(2)] for i in range(3)]
    if inp["variant"] == "plain":
        g = w.arr("field", vals)
    elif inp["variant"] == "nan":
        vals[1][0] = np.nan
        g = w.arr("field", vals)
    else:
        vals[1][0] = np.nan
        g = w.marr("field", vals, [[False, False], [False, False], [True, False]])
    gs.vario_estimate_axis(g, direction="x")
    gs.vario_estimate_axis(g, direction="y")


def _r_bins(w, v, inp):
    import gstools as gs

    pos = w.arr("pos", [[_val(v, f"x{a}_{i}", 0.9 * i + 0.4 * a) for i in range(2)] for a in range(2)])
    gs.standard_bins(pos, dim=2, bin_no=3)
    gs.standard_bins(pos, dim=2, bin_no=3, max_dist=2.5)


def _r_krige(w, v, inp):
    import gstools as gs

    variant = inp["variant"]
    model = gs.Exponential(dim=1, var=abs(_val(v, "var", 1.3)) or 1.3, len_scale=abs(_val(v, "len", 1.7)) or 1.7, nugget=abs(_val(v, "nug", 0.1)))
    c0, c1 = _val(v, "c0", 0.2), _val(v, "c1", 1.4)
    if c0 == c1:
        c1 = c0 + 1.0
    cpos = w.arr("cond_pos", [[c0, c1]])
    cval = w.arr("cond_val", [_val(v, "z0", 0.5), _val(v, "z1", -0.7)])
    pos = w.arr("pos", [[_val(v, "t0", 0.7), _val(v, "t1", 2.2)]])
    if variant == "simple":
        k = gs.krige.Simple(model, cpos, cval, mean=_val(v, "mean", 0.3), trend=_val(v, "trend", 0.6), cond_err=w.arr("cond_err", [abs(_val(v, "e0", 0.1)), abs(_val(v, "e1", 0.2))]))
        f1, v1 = k(pos)
    elif variant == "ordinary":
        k = gs.krige.Ordinary(model, cpos, cval, trend=_val(v, "trend", 0.6))
        f1, v1 = k(pos, chunk_size=1)
    elif variant == "universal":
        k = gs.krige.Universal(model, cpos, cval, "linear")
        f1, v1 = k(pos)
    else:
        cext = w.arr("cond_ext_drift", [_val(v, "ce0", 0.4), _val(v, "ce1", 1.1)])
        text = w.arr("ext_drift", [_val(v, "te0", 0.8), _val(v, "te1", 0.3)])
        k = gs.krige.ExtDrift(model, cpos, cval, cext)
        f1, v1 = k(pos, ext_drift=text)
    w.stored("returned field#1", f1)
    w.stored("returned variance#1", v1)
    w.stored("stored field#1", k.field)
    if variant == "extdrift":
        k(pos, ext_drift=text, store=["f2", "v2"])
    else:
        k(pos, store=["f2", "v2"])
    k.set_condition()


def _r_srf(w, v, inp):
    import gstools as gs

    pos = w.arr("pos", [[_val(v, "x0", 0.1), _val(v, "x1", 1.2)]])
    model = gs.Gaussian(dim=1, var=1.3, len_scale=2.0)
    if inp["kind"] == "srf":
        srf = gs.SRF(model, mean=_val(v, "mean", 0.3), trend=_val(v, "trend", 0.6), mode_no=20, seed=3)
        r1 = srf(pos, seed=5)
        w.stored("returned#1", r1)
        w.stored("stored field#1", srf.field)
        srf(pos, seed=6, store="other")
    else:
        cpos = w.arr("cond_pos", [[_val(v, "c0", 0.2), _val(v, "c1", 1.4) if _val(v, "c1", 1.4) != _val(v, "c0", 0.2) else 1.9]])
        cval = w.arr("cond_val", [_val(v, "z0", 0.5), _val(v, "z1", -0.7)])
        kr = gs.krige.Ordinary(model, cpos, cval)
        csrf = gs.CondSRF(kr, mode_no=20, seed=3)
        r1 = csrf(pos, seed=5)
        w.stored("returned#1", r1)
        w.stored("stored field#1", csrf.field)
        csrf(pos, seed=6, store="other")


def _r_transform(w, v, inp):
    import numpy as np
    import gstools as gs

    process, keep, method = inp["process"], inp["keep_mean"], inp["method"]
    fld = gs.field.Field(gs.Gaussian(dim=1, var=1.3, len_scale=2.0), mean=_val(v, "mean", 0.4), trend=(_val(v, "trend", 0.9) if process else None))
    pos = np.array([[_val(v, "x0", 0.1), _val(v, "x1", 1.2)]])
    fld(pos, field=np.array([_val(v, "f0", 0.7), _val(v, "f1", -0.4)]), post_process=False)
    w.stored("stored 'field'", fld.field)
    kw = dict(values=[0.0, 1.0, 2.0], thresholds=[-0.5, 0.5]) if method == "discrete" else {}
    r = fld.transform(method, store="new", process=process, keep_mean=keep, **kw)
    w.stored("returned 'new'", r)
    fld.transform(method, field="field", store="newer", process=process, keep_mean=keep, **kw)


def _r_normalizer(w, v, inp):
    import gstools as gs

    name = inp["name"]
    par = {"lmbda": _val(v, "lmbda", 0.6)} if name in ("BoxCox", "YeoJohnson", "Manly", "Modulus") else {}
    nz = getattr(gs.normalizer, name)(**par)
    d = [abs(_val(v, "d0", 0.7)) + 0.1, abs(_val(v, "d1", 1.9)) + 0.1] if name in ("LogNormal", "BoxCox") else [_val(v, "d0", 0.7), _val(v, "d1", -1.9)]
    if not inp.get("in_range", True):
        import warnings

        warnings.simplefilter("ignore")
        d = [-abs(_val(v, "d0", 0.7)) - 0.1, abs(_val(v, "d1", 1.9)) + 0.1]  # one entry outside the valid range
        if name == "Manly":
            lm = par["lmbda"] or 0.6
            d = [(-1.0 / lm) - (1.0 if lm > 0 else -1.0), 0.3]
    a = w.arr("data", d)
    n = nz.normalize(a)
    w.stored("normalized#1", n)
    nz.denormalize(n)
    nz.derivative(a)
    nz.kernel_loglikelihood(a)


def _r_fit(w, v, inp):
    import gstools as gs

    model = gs.Gaussian(dim=2, latlon=True) if inp["latlon"] else gs.Gaussian(dim=2)
    x = w.arr("x_data", [abs(_val(v, "r0", 0.3)) + 0.01, abs(_val(v, "r1", 0.9)) + 0.02, abs(_val(v, "r2", 1.7)) + 0.03])
    y = w.arr("y_data", [_val(v, "y0", 0.2), _val(v, "y1", 0.6), _val(v, "y2", 0.9)])
    ww = w.arr("weights", [abs(_val(v, "w0", 1.0)) + 0.1, abs(_val(v, "w1", 2.0)) + 0.1, abs(_val(v, "w2", 0.5)) + 0.1])
    model.fit_variogram(x, y, weights=ww, init_guess="current")
    model.fit_variogram(x, y, weights="inv", nugget=False, init_guess="current")


def _r_array(w, v, inp):
    from gstools.transform import array as ta

    mu, var = _val(v, "mu", 0.2), abs(_val(v, "var", 1.4)) or 1.4
    a = w.arr("field", sorted([_val(v, "f0", -0.6), _val(v, "f1", 0.3)]))
    ta.array_to_lognormal(a)
    ta.array_to_uniform(a, mean=mu, var=var)
    ta.array_to_arcsin(a, mean=mu, var=var)
    ta.array_to_uquad(a, mean=mu, var=var)
    ta.array_zinnharvey(a, mean=mu, var=var)
    ta.array_force_moments(a, mean=mu, var=var)
    ta.array_boxcox(a, lmbda=0.5, shift=10.0)
    ta.array_discrete(a, [0.0, 1.0], thresholds=[mu])


REPLAY = {
    "tools": _rep(_r_tools),
    "field_call": _rep(_r_field_call),
    "vario": _rep(_r_vario),
    "vario_axis": _rep(_r_vario_axis),
    "bins": _rep(_r_bins),
    "krige": _rep(_r_krige),
    "srf": _rep(_r_srf),
    "transform": _rep(_r_transform),
    "normalizer": _rep(_r_normalizer),
    "fit": _rep(_r_fit),
    "array": _rep(_r_array),
}

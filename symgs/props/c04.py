"""C04  Spectral representation is the Fourier pair of the covariance (partial)."""
import math

import numpy as rnp
import z3

from .. import core, passes, sym, theory
from ..core import Job, prove, rec
from ..sym import Sym, explore, fn1, fn2, lift, real
from . import c03

FILES = ["src/gstools/covmodel/base.py", "src/gstools/covmodel/tools.py", "src/gstools/covmodel/models.py", "src/gstools/covmodel/tpl_models.py", "src/gstools/tools/special.py"]

SPEC = {
    "level": "model_checking",
    "engine": "E1 + symbolic differentiation pass",
    "files": FILES,
    "functions": [
        "CovModel.spectrum / spectral_rad_pdf / ln_spectral_rad_pdf / has_cdf / has_ppf / dist_func",
        "gstools.covmodel.tools.spectral_rad_pdf / rad_fac",
        "Gaussian / Exponential / Matern .spectral_density",
        "Gaussian / Exponential .spectral_rad_cdf / spectral_rad_ppf",
        "spectral_density of Integral, HyperSpherical, JBessel, TPLGaussian, TPLExponential (identities only)",
    ],
    "bounds": {"quick": {"dim": "1-3", "values": "wave number / radius / probability and all parameters symbolic"}, "thorough": {"dim": "1-3, all 17 classes for the spectrum / radial-pdf identities"}},
    "stubs": ["hankel.SymmetricFourierTransform.transform -> uninterpreted numerical spectrum (models without analytic override)", "special functions uninterpreted (shared symbols)"],
    "oracle": "table of d-dimensional transform pairs, convention S(k) = (2 pi)^-d int C(r) e^{ikr} d^d r: Gaussian (l/(2 sqrt pi))^d exp(-(k l/2)^2); Exponential l^d Gamma((d+1)/2) / (pi (1+(k l)^2))^((d+1)/2); "
    "Matern (l/sqrt pi)^d Gamma(nu+d/2)/Gamma(nu) nu^(-d/2) (1+(k l)^2/nu)^-(nu+d/2) (Rasmussen & Williams 2006; Stein 1999), with l = len_scale/rescale; surface of the d-sphere 2, 2 pi r, 4 pi r^2; "
    "cdf' = pdf (fundamental theorem of calculus), cdf(0)=0, ppf = cdf^-1",
    "outside": ["radii within np.isclose of 0 and probabilities within np.isclose of 1 (the library switches to limiting values there by design)", "that a table entry is the Fourier transform of the correlation (mathematics outside the solver)", "the default numerical spectrum (hankel) and its accuracy", "normalisation int pdf = 1 (a limit at infinity)", "closed forms of the Integral / HyperSpherical / JBessel / TPL spectral densities"],
    "assumptions": ["floats read as reals"],
}

JOB_TIMEOUT = {"quick": 400, "thorough": 3000}


def _setup():
    gs, EI = c03._setup()
    import gstools.covmodel.base as cb

    SNUM = z3.Function("hankel_spectrum", z3.RealSort(), z3.RealSort())

    class FakeSFT:
        calls = []

        def __init__(self, **kw):
            self.kw = kw

        def transform(self, f, k, ret_err=False):
            FakeSFT.calls.append((self.kw, f, k))
            k = rnp.asarray(k, dtype=object)
            return rnp.frompyfunc(lambda x: Sym(SNUM(lift(x))), 1, 1)(k)

    cb.SFT = FakeSFT
    import gstools.covmodel.tools as ct

    ct.SFT = FakeSFT
    from ..npx import _SPS

    _SPS.exact_gamma_half = True
    SNUM.fake = FakeSFT
    return gs, SNUM


def _pi():
    from ..npx import PI

    return PI


def ref_density(name, k, lr, d, o):
    """transform-pair table (lr = len_scale / rescale)"""
    if name == "Gaussian":
        return sym.sym_pow(lr / 2.0 / fn1("sqrt", _pi()), d) * fn1("exp", -((k * lr / 2.0) * (k * lr / 2.0)))
    if name == "Exponential":
        expo = (d + 1) / 2.0
        base = _pi() * (1.0 + (k * lr) * (k * lr))
        denom = sym.sym_pow(base, int(expo)) if float(expo).is_integer() else base * fn1("sqrt", base)
        gam = fn1("sqrt", _pi()) / 2.0 if d == 2 else 1.0  # Gamma(1) = Gamma(2) = 1, Gamma(3/2) = sqrt(pi)/2
        return sym.sym_pow(lr, d) * gam / denom
    if name == "Integral":
        # cor = nu/2 E_{1+nu/2}(h^2) is the mixture nu/2 int_1^inf t^(-1-nu/2) exp(-h^2 t) dt of Gaussians; transforming under the
        # integral and substituting u = x/t gives nu/2 (l/(2 sqrt pi))^d x^-s gamma_low(s, x), x = (k l/2)^2, s = (nu+d)/2
        nu = o["nu"]
        fac = sym.sym_pow(lr / 2.0 / fn1("sqrt", _pi()), d)
        x = (k * lr / 2.0) * (k * lr / 2.0)
        sh = (nu + d) / 2.0
        pos = 0.5 * nu * fac / fn2("pow", x, sh) * (fn1("gamma", sh) * fn2("gammainc", sh, x))
        return Sym(z3.If(k.e == 0, lift(fac * nu / (nu + d)), lift(pos)))
    if name == "HyperSpherical":
        # normalised self-convolution of the indicator of the ball of diameter l: |FT(1_B)|^2 / |B|
        gam = {1: fn1("sqrt", _pi()) / 2.0, 2: 1.0, 3: fn1("sqrt", _pi()) * 0.75}[d]  # Gamma(d/2 + 1)
        sq = fn1("sqrt", _pi())
        J = fn2("jv", d / 2.0, k * lr / 2.0)
        pos = gam / sym.sym_pow(sq, d) * (J * J) / sym.sym_pow(k, d)
        return Sym(z3.If(k.e == 0, lift(sym.sym_pow(lr / 4.0, d) / gam / sym.sym_pow(sq, d)), lift(pos)))
    if name == "JBessel":
        nu = o["nu"]
        hd = Sym(z3.RealVal(f"{d}/2"))
        pos = sym.sym_pow(lr / fn1("sqrt", _pi()), d) * fn1("gamma", nu + 1.0) / fn1("gamma", nu - hd + 1.0) * fn2("pow", 1.0 - (k * lr) * (k * lr), nu - hd)
        return Sym(z3.If(k.e < 1 / lr.e, lift(pos), z3.RealVal(0)))
    return None


def ref_side(name, d, o):
    """regions where the library deviates from the table by documented design"""
    if name == "JBessel":
        # 'the model is degenerated for nu=d/2-1, so we tweak the spectral pdf and cut of the divisor': Gamma(nu-d/2+1) capped at 100
        return [theory.UF["gamma"](lift(o["nu"]) - z3.RealVal(f"{d}/2") + 1) <= 100]
    return []


MODELS = c03.MODELS


def job_identities(name, d, tier):
    gs, SNUM = _setup()
    from ..npx import NPX

    T = core.tier_timeout(tier)
    out = []
    v, l, s, k, r, ng = sym.reals("var len resc k r nug")
    opt = {kk: real(kk) for kk in MODELS[name]}
    fixed = {"hurst": 0.5} if name in c03.TPL else {}
    wv = dict(var=v, len=l, resc=s, k=k, r=r, nug=ng, **opt)
    rb = ("identities", lambda vals: {"model": name, "dim": d, "values": vals, "fixed": fixed})
    tag = f"C04/{name}/d{d}"

    def run():
        for x in (v, l, s):
            sym.assume(x > 0)
        sym.assume(k >= 0)
        sym.assume(r >= 0)
        sym.assume(ng >= 0)
        for kk, b in MODELS[name].items():
            c03._assume_bounds(opt[kk], b, d)
        for q in (k, r):
            if bool(NPX.isclose(q, 0.0)):
                sym.assume(q == 0)
        if "len_low" in opt and bool(NPX.isclose(opt["len_low"] / s, 0.0)):
            sym.assume(opt["len_low"] == 0)
        m = getattr(gs, name)(dim=d, var=v, len_scale=l, rescale=s, nugget=ng, **opt, **fixed)
        K = rnp.array([k], dtype=object)
        R = rnp.array([r], dtype=object)
        del SNUM.fake.calls[:]
        sd = m.spectral_density(K)[0]
        mvar = m.var  # (TPL models report var = var_raw * var_factor; that this is the constructor's value is C14's obligation)
        dflt = None
        if SNUM.fake.calls:
            kw, f, kk_ = SNUM.fake.calls[0]
            dflt = (kw.get("ndim") == d and kw.get("a") == -1 and kw.get("b") == 1 and f == m.correlation, lift(rnp.asarray(kk_, dtype=object).ravel()[0]))
        sp = m.spectrum(K)[0]
        # the radial pdf wrapper treats the density as a black box: run it once on the real density (small expressions only)
        # and once with the density replaced by an uninterpreted function of the radius
        direct = None
        if name not in c03.TPL and name != "Matern":
            direct = (m.spectral_rad_pdf(R)[0], m.spectral_density(R)[0])
        OD = z3.Function("opaque_density", z3.RealSort(), z3.RealSort())
        m.spectral_density = lambda q: rnp.frompyfunc(lambda x: Sym(OD(lift(x))), 1, 1)(rnp.asarray(q, dtype=object))
        pdf = m.spectral_rad_pdf(R)[0]
        lnpdf = m.ln_spectral_rad_pdf(R)[0]
        sdr = Sym(OD(r.e))
        pdfn = m.spectral_rad_pdf(rnp.array([-r], dtype=object))[0]
        flags = (m.has_cdf, m.has_ppf, hasattr(m, "spectral_rad_cdf"), hasattr(m, "spectral_rad_ppf"), [f is not None for f in m.dist_func])
        return sd, sp, pdf, sdr, dflt, direct, lnpdf, pdfn, flags, mvar

    n_ok = 0
    for pi, p in enumerate(explore(run, max_paths=300)):
        base = f"{tag}/path{pi}"
        if p.exc is not None:
            out.append(rec(base, "error", detail=f"{p.exc!r} {p.tb}"))
            continue
        n_ok += 1
        sd, sp, pdf, sdr, dflt, direct, lnpdf, pdfn, flags, mvar = p.out
        C = p.conds
        if any(isinstance(x, float) and x != x for x in (sd, sp, pdf, sdr)):
            continue
        out.append(prove(base + "/spectrum==var*spectral_density", C, lift(sp) == (lift(mvar) if name in c03.TPL else v.e) * lift(sd), T, witness_vars=wv, replay=rb, pairwise=False, instantiate=(name not in c03.TPL)))
        fac = {1: z3.RealVal(2), 2: 2 * theory.PI * r.e, 3: 4 * theory.PI * r.e * r.e}[d]
        a = lift(sdr)
        absd = z3.If(a >= 0, a, -a)
        want = fac * absd
        if d > 1:
            want = z3.If(r.e == 0, z3.RealVal(0), want)
        want = z3.If(want >= 0, want, z3.RealVal(0))
        out.append(prove(base + "/spectral_rad_pdf==surface(d-sphere)*|density| (0 at r=0 for d>1) [density opaque]", C, lift(pdf) == want, T, witness_vars=wv, replay=rb, pairwise=False))
        out.append(prove(base + "/spectral_rad_pdf(-r)==spectral_rad_pdf(r) [density opaque]", C, lift(pdfn) == lift(pdf), T, witness_vars=wv, replay=rb, pairwise=False))
        if isinstance(lnpdf, Sym):
            out.append(prove(base + "/ln_spectral_rad_pdf==log(spectral_rad_pdf)", C + [lift(pdf) > 0], lift(lnpdf) == theory.UF["log"](lift(pdf)), T, witness_vars=wv, replay=rb, pairwise=False, vacuity=False))
        if direct is not None and not any(isinstance(x, float) and x != x for x in direct):
            a2 = lift(direct[1])
            w2 = fac * z3.If(a2 >= 0, a2, -a2)
            if d > 1:
                w2 = z3.If(r.e == 0, z3.RealVal(0), w2)
            out.append(prove(base + "/spectral_rad_pdf==surface(d-sphere)*|density| [real density]", C, lift(direct[0]) == w2, T, witness_vars=wv, replay=rb, pairwise=False))
        has_cdf, has_ppf, a_cdf, a_ppf, df = flags
        exp_cdf = name in ("Gaussian", "Exponential") and d in (1, 2, 3)
        exp_ppf = name in ("Gaussian", "Exponential") and d in (1, 2)
        ok = (bool(has_cdf), bool(has_ppf)) == (exp_cdf, exp_ppf) and df == [True, exp_cdf, exp_ppf]
        if pi == 0:
            out.append(rec(tag + "/has_cdf, has_ppf and dist_func offer exactly the closed forms that exist", "unsat" if ok else "sat", vacuity="sat", witness={}, replay={"kind": "identities", "inputs": rb[1]({})}, detail=str(flags)))
        if dflt is not None:
            ok = dflt[0]
            out.append(rec(base + "/default spectrum = hankel transform (ndim=dim, a=-1, b=1: the (2 pi)^-d convention) of self.correlation", "unsat" if ok else "sat", vacuity="sat", witness={}, replay={"kind": "identities", "inputs": rb[1]({})}))
            out.append(prove(base + "/default spectrum is evaluated at |k|", C, dflt[1] == z3.If(k.e >= 0, k.e, -k.e), T, witness_vars=wv, replay=rb, pairwise=False))
        ref = ref_density(name, k, l / s, d, opt)
        if ref is not None:
            # first as pure arithmetic + congruence (special functions as opaque symbols), then with the axiom pack
            r0 = prove(base + "/spectral_density==transform-pair table", C + ref_side(name, d, opt), lift(sd) == lift(ref), min(T, 20), witness_vars=wv, replay=rb, instantiate=False)
            if r0["status"] != "unsat":
                r0 = prove(base + "/spectral_density==transform-pair table", C + ref_side(name, d, opt), lift(sd) == lift(ref), T, witness_vars=wv, replay=rb, pairwise=False)
            out.append(r0)
    if not n_ok:
        out.append(rec(tag + "/reach", "vacuous"))
    return out


def job_matern(d, tier):
    gs, SNUM = _setup()
    T = core.tier_timeout(tier)
    out = []
    l, s, k, nu = sym.reals("len resc k nu")
    wv = dict(len=l, resc=s, k=k, nu=nu)
    rb = ("identities", lambda vals: {"model": "Matern", "dim": d, "values": vals, "fixed": {}, "sweep": True})
    tag = f"C04/Matern/d{d}/closed_form"

    def run():
        for x in (l, s):
            sym.assume(x > 0)
        sym.assume(k >= 0)
        sym.assume(nu >= 0.2)
        sym.assume(nu <= 30)
        m = gs.Matern(dim=d, len_scale=l, rescale=s, nu=nu)
        return m.spectral_density(rnp.array([k], dtype=object))[0]

    E, LG, LOG, G, POW = (theory.UF[n] for n in ("exp", "loggamma", "log", "gamma", "pow"))
    hd = z3.RealVal(f"{d}/2")
    n_, X = z3.Real("nu"), z3.Real("x_")  # lemma variables (x_ stands for (k l)^2)
    t1, t2, t3, t4 = -(n_ + hd) * LOG(1 + X / n_), LG(n_ + hd), -LG(n_), -d * LOG(theory.UF["sqrt"](n_))
    dom = [n_ > 0, X >= 0]
    # factor lemmas, each a few axiom instances
    f1 = E(t1) == POW(1 + X / n_, -(n_ + hd))
    f2 = E(t2) == G(n_ + hd)
    f3 = E(t3) * G(n_) == 1
    f4 = E(t4) == POW(n_, -hd)
    split = E(t1 + t2 + t3 + t4) == E(t1) * E(t2) * E(t3) * E(t4)
    for nm, g_ in (("exp(-(nu+d/2) log(1+x/nu)) == (1+x/nu)^-(nu+d/2)", f1), ("exp(loggamma(nu+d/2)) == Gamma(nu+d/2)", f2), ("exp(-loggamma(nu)) Gamma(nu) == 1", f3), ("exp(-d log sqrt(nu)) == nu^(-d/2)", f4)):
        out.append(prove(f"{tag}/lemma: {nm}", dom, g_, T, witness_vars=wv, replay=rb, vacuity=False, deep_gen=2, pairwise=False))
    # exp of a sum of four terms: two applications of exp(a+b)=exp(a)exp(b) stated explicitly
    ea = [E(t1 + t2 + t3 + t4) == E(t1 + t2 + t3) * E(t4), E(t1 + t2 + t3) == E(t1 + t2) * E(t3), E(t1 + t2) == E(t1) * E(t2)]
    for i, g_ in enumerate(ea):
        out.append(prove(f"{tag}/lemma: exp(a+b)==exp(a)exp(b) [{i}]", dom, g_, T, witness_vars=wv, replay=rb, vacuity=False, deep_gen=2, pairwise=False))
    out.append(prove(f"{tag}/lemma: exp of the four-term sum factors", dom + ea, split, T, witness_vars=wv, replay=rb, vacuity=False, instantiate=False))
    A = G(n_ + hd) / G(n_) * POW(n_, -hd) * POW(1 + X / n_, -(n_ + hd))
    lem = E(t1 + t2 + t3 + t4) == A
    out.append(prove(f"{tag}/lemma: exp(log form) == Gamma(nu+d/2)/Gamma(nu) nu^(-d/2) (1+x/nu)^-(nu+d/2)", dom + [f1, f2, f3, f4, split, G(n_) > 0], lem, T, witness_vars=wv, replay=rb, vacuity=False, instantiate=False))

    for pi, p in enumerate(explore(run, max_paths=8)):
        base = f"{tag}/path{pi}"
        if p.exc is not None:
            out.append(rec(base, "error", detail=f"{p.exc!r} {p.tb}"))
            continue
        sd = p.out
        lr = l / s
        x = (k * lr) ** 2
        P = sym.sym_pow(lr / fn1("sqrt", _pi()), d)
        # nu <= 20: exact Matern pair.  nu > 20: the correlation in use is the Gaussian limit exp(-(h/2)^2), whose transform is
        # (l/sqrt pi)^d exp(-(k l)^2)
        exact = P * Sym(z3.substitute(A, (X, lift(x)), (n_, nu.e)))
        gauss_lim = P * fn1("exp", -x)
        inst = z3.substitute(z3.Implies(z3.And(dom), lem), (X, lift(x)), (n_, nu.e))
        for cnd, ref, nm, xtra in ((lift(nu) <= 20, exact, "nu<=20: exact Matern transform", [inst, theory.UF["gamma"](nu.e) > 0, lift(x) >= 0]), (z3.And(lift(nu) > 20, k.e > 0), gauss_lim, "nu>20: transform of the Gaussian-limit correlation in use", [])):
            if str(core.Query.satisfiable(p.conds + [cnd], 5)[0]) == "unsat":
                continue
            out.append(prove(base + f"/spectral_density==table [{nm}]", p.conds + [cnd], lift(sd) == lift(ref), T, witness_vars=wv, replay=rb, extra=xtra, instantiate=False))
            if "nu>20" in nm:
                # the listed finding, pinned: exactly the documented large-nu approximation (l/sqrt pi)^d exp(-x)(1+x^2/(2 nu)) sqrt(1+x/nu)^-d
                kn = P * fn1("exp", -x) * (1 + 0.5 * x**2 / nu) * sym.sym_pow(fn1("sqrt", 1 + x / nu), -d)
                out.append(prove(base + "/pinned known deviation: spectral_density(nu>20)==Gaussian limit times (1+x^2/(2nu)) (1+x/nu)^(-d/2)", p.conds + [cnd], lift(sd) == lift(kn), T, witness_vars=wv, replay=rb, instantiate=False))
    return out


def job_cdf(name, d, tier):
    gs, SNUM = _setup()
    from ..npx import NPX

    T = core.tier_timeout(tier)
    out = []
    l, s, r, u = sym.reals("len resc r u")
    wv = dict(len=l, resc=s, r=r, u=u)
    rb = ("cdf", lambda vals: {"model": name, "dim": d, "values": vals})
    tag = f"C04/{name}/d{d}/radial"

    def run():
        for x in (l, s):
            sym.assume(x > 0)
        sym.assume(r > 0)
        sym.assume(u > 0)
        sym.assume(u < 1)
        # the library's tolerance bands (radius ~ 0 -> pdf 0, probability ~ 1 -> infinite radius) are read as exact
        if bool(NPX.isclose(r, 0.0)):
            sym.assume(r == 0)
        if bool(NPX.isclose(u, 1.0)):
            sym.assume(u == 1)
        m = getattr(gs, name)(dim=d, len_scale=l, rescale=s)
        R = rnp.array([r], dtype=object)
        U = rnp.array([u], dtype=object)
        cdf = m.spectral_rad_cdf(R)
        cdf = None if cdf is None else cdf[0]
        pdf = m.spectral_rad_pdf(R)[0]
        cdf0 = m.spectral_rad_cdf(rnp.array([0.0]))
        ppf = m.spectral_rad_ppf(U)
        back = fwd = None
        if ppf is not None:
            back = m.spectral_rad_cdf(rnp.asarray(ppf, dtype=object))[0]  # cdf(ppf(u))
            if bool(NPX.isclose(cdf, 1.0)):
                raise sym.Infeasible()  # cdf(r) within the library's tolerance of 1 (ppf -> inf by design): outside the claim
            fwd = m.spectral_rad_ppf(rnp.array([cdf], dtype=object))[0]  # ppf(cdf(r))
        return cdf, pdf, cdf0, back, fwd, m.has_cdf, m.has_ppf

    for pi, p in enumerate(explore(run, max_paths=40)):
        base = f"{tag}/path{pi}"
        if p.exc is not None:
            out.append(rec(base, "error", detail=f"{p.exc!r} {p.tb}"))
            continue
        cdf, pdf, cdf0, back, fwd, has_cdf, has_ppf = p.out
        C = p.conds
        flags_ok = (has_cdf == (cdf is not None)) and (has_ppf == (back is not None))
        out.append(rec(base + "/has_cdf, has_ppf agree with the methods", "unsat" if flags_ok else "sat", vacuity="sat", witness={}, replay={"kind": "cdf", "inputs": rb[1]({})}, detail=f"{has_cdf} {has_ppf}"))
        if cdf is None:
            continue
        try:
            dcdf = passes.diff(lift(cdf), r.e)
            hints = []
            if name == "Exponential" and d == 2:
                # sqrt(pi w) = sqrt(pi) sqrt(w), w = 1 + (r l)^2: proved on its own (squares of non-negative numbers), then used as a hint
                SQ = theory.UF["sqrt"]
                w_ = lift(1.0 + (r * (l / s)) ** 2)
                lem = SQ(theory.PI * w_) == SQ(theory.PI) * SQ(w_)
                out.append(prove(base + "/lemma: sqrt(pi w) == sqrt(pi) sqrt(w)", C + [w_ > 0], lem, T, witness_vars=wv, replay=rb, pairwise=False, vacuity=False))
                hints = [lem]
            out.append(prove(base + "/d cdf/dr == spectral_rad_pdf", C, dcdf == lift(pdf), T, witness_vars=wv, replay=rb, pairwise=False, extra=hints))
        except NotImplementedError as e:
            out.append(rec(base + "/d cdf/dr == spectral_rad_pdf", "error", detail=str(e)))
        c0 = cdf0[0] if cdf0 is not None else None
        out.append(rec(base + "/cdf(0)==0", "unsat" if (c0 is not None and not isinstance(c0, Sym) and abs(float(c0)) < 1e-15) else "sat", vacuity="sat", witness={}, replay={"kind": "cdf", "inputs": rb[1]({})}, detail=str(c0)))
        if back is not None:
            out.append(prove(base + "/cdf(ppf(u))==u", C, lift(back) == u.e, T, witness_vars=wv, replay=rb))
            out.append(prove(base + "/ppf(cdf(r))==r", C, lift(fwd) == r.e, T, witness_vars=wv, replay=rb))
    return out


def job_tpl(name, d, tier):
    """truncated power law models: the Fourier transform is linear, so the spectral density must be the same superposition
    (same weights, same rescaled cut-off lengths) of single-scale spectral densities as the correlation is of single-scale
    correlations.  Both single-scale kernels are replaced by ONE uninterpreted function F(argument, length): then
    spectral_density(q) and correlation(q) must be the same term."""
    gs, SNUM = _setup()
    from ..npx import NPX
    import gstools.covmodel.tpl_models as tm
    import gstools.tools.special as sp

    T = core.tier_timeout(tier)
    out = []
    F = z3.Function("single_scale_kernel", z3.RealSort(), z3.RealSort(), z3.RealSort())

    def kern(q, ell):
        q = rnp.asarray(q, dtype=object)
        return rnp.frompyfunc(lambda x: Sym(F(lift(x), lift(ell))), 1, 1)(q)

    orig = {"tpl_exp_spec_dens": sp.tpl_exp_spec_dens, "tpl_gau_spec_dens": sp.tpl_gau_spec_dens}

    def wrap(fname):
        def w(k, dim, len_scale, hurst, len_low=0.0):
            if not isinstance(len_low, Sym) and float(len_low) == 0.0:
                return kern(k, len_scale)  # single-scale spectral density
            if isinstance(len_low, Sym) and bool(NPX.isclose(len_low, 0.0)):
                sym.assume(len_low == 0)
                return kern(k, len_scale)
            return orig[fname](k, dim, len_scale, hurst, len_low)  # the real superposition code (recursion re-enters this wrapper)

        return w

    for fname in orig:
        wfn = wrap(fname)
        sp.__dict__[fname] = wfn
        tm.__dict__[fname] = wfn
    stub_cor = lambda r, len_scale, hurst, alpha: kern(r, len_scale)
    sp.__dict__["tplstable_cor"] = stub_cor
    tm.__dict__["tplstable_cor"] = stub_cor
    l, s, q, H, low = sym.reals("len resc q hurst len_low")
    wv = dict(len=l, resc=s, q=q, hurst=H, len_low=low)
    rb = ("tpl", lambda v: {"model": name, "dim": d, "values": v})
    tag = f"C04/{name}/d{d}/superposition"

    def run():
        for x in (l, s, q):
            sym.assume(x > 0)
        sym.assume(H > 0.1)
        sym.assume(H < 1)
        sym.assume(low >= 0)
        if bool(NPX.isclose(low / s, 0.0)):
            sym.assume(low == 0)
        m = getattr(gs, name)(dim=d, len_scale=l, rescale=s, hurst=H, len_low=low)
        Q = rnp.array([q], dtype=object)
        return m.spectral_density(Q)[0], m.correlation(Q)[0]

    n_ok = 0
    for pi, p in enumerate(explore(run, max_paths=40)):
        base = f"{tag}/path{pi}"
        if p.exc is not None:
            out.append(rec(base, "error", detail=f"{p.exc!r} {p.tb}"))
            continue
        n_ok += 1
        sd, co = p.out
        out.append(prove(base + "/spectral density == the correlation's superposition of single-scale kernels (same weights, same rescaled lengths)", p.conds, lift(sd) == lift(co), T, witness_vars=wv, replay=rb, pairwise=False))
    if not n_ok:
        out.append(rec(tag + "/reach", "vacuous"))
    return out


def job_dim_history(name, tier):
    """numerical default spectrum after changes of the dimension / of hankel_kw: every transform is taken in the current dimension"""
    gs, SNUM = _setup()
    T = core.tier_timeout(tier)
    out = []
    k = real("k")
    rb = ("dimhist", lambda v: {"model": name, "values": v})
    tag = f"C04/{name}/dim_history"
    for seq in ((3, 2), (1, 3), (2, 2, 1), ("kw", 2), (3, "kw", 1)):
        def run():
            sym.assume(k > 0)
            d0 = next(x for x in seq if x != "kw")
            m = getattr(gs, name)(dim=d0)
            res = []
            for step in seq:
                if step == "kw":
                    m.hankel_kw = {"N": 300}
                else:
                    m.dim = step
                del SNUM.fake.calls[:]
                m.spectral_density(rnp.array([k], dtype=object))
                kw = SNUM.fake.calls[0][0] if SNUM.fake.calls else None
                same = bool(SNUM.fake.calls) and SNUM.fake.calls[0][1] == m.correlation and all((kw or {}).get(k_) == v_ for k_, v_ in m.hankel_kw.items())
                res.append((m.dim, kw, same))
            return res

        for pi, p in enumerate(explore(run, max_paths=8)):
            base = f"{tag}/{'>'.join(map(str, seq))}/path{pi}"
            if p.exc is not None:
                out.append(rec(base, "error", detail=f"{p.exc!r} {p.tb}"))
                continue
            for i, (dim_now, kw, same_cor) in enumerate(p.out):
                ok = kw is not None and kw.get("ndim") == dim_now and kw.get("a") == -1 and kw.get("b") == 1 and same_cor
                out.append(rec(f"{base}/step{i}: transform taken with ndim == current dim ({dim_now}), (2 pi)^-d convention, of the model's correlation with the current hankel_kw", "unsat" if ok else "sat", vacuity="sat", witness={}, replay={"kind": "dimhist", "inputs": {"model": name, "seq": list(seq), "values": {}}}, detail=str(kw)))
    return out


def jobs(tier, seed):
    js = []
    for name in ("TPLGaussian", "TPLExponential"):
        for d in (1, 2, 3):
            js.append(Job(f"tpl-{name}-d{d}", job_tpl, name, d, tier))
    for name in ("Stable", "Spherical", "Rational") if tier == "quick" else ("Stable", "Rational", "Cubic", "Linear", "Circular", "Spherical", "SuperSpherical", "TPLSimple", "TPLStable"):
        js.append(Job(f"dimhist-{name}", job_dim_history, name, tier))
    names = list(MODELS) if tier == "thorough" else ["Gaussian", "Exponential", "Matern", "Integral", "HyperSpherical", "JBessel", "TPLGaussian", "TPLExponential", "Stable", "Spherical"]
    for name in names:
        for d in (1, 2, 3):
            if tier == "quick" and name in ("TPLGaussian", "TPLExponential", "Integral") and d != 2:
                continue
            js.append(Job(f"ident-{name}-d{d}", job_identities, name, d, tier))
    for d in (1, 2, 3):
        js.append(Job(f"matern-d{d}", job_matern, d, tier))
        for name in ("Gaussian", "Exponential"):
            js.append(Job(f"cdf-{name}-d{d}", job_cdf, name, d, tier))
    return js


# --------------------------------------------------------------------------


def _val(v, k, d):
    x = v.get(k)
    return float(x) if x is not None else d


def _num_ft(model, k, d):
    """numerical d-dimensional Fourier transform of the correlation (radial Hankel form) by quadrature"""
    import numpy as np
    from scipy import integrate, special

    if d == 1:
        f = lambda x: model.correlation(x) * np.cos(k * x) / np.pi
        return integrate.quad(f, 0, np.inf, limit=400)[0] if k == 0 else integrate.quad(lambda x: model.correlation(x) / np.pi, 0, np.inf, weight="cos", wvar=k, limit=400)[0]
    if d == 2:
        f = lambda x: model.correlation(x) * x * special.j0(k * x) / (2 * np.pi)
        return integrate.quad(f, 0, 60 * model.len_scale, limit=800)[0]
    f = lambda x: model.correlation(x) * x * x * (np.sinc(k * x / np.pi)) / (2 * np.pi**2)
    return integrate.quad(f, 0, 60 * model.len_scale, limit=800)[0]


def _table_num(name, k, lr, d, o):
    """the transform-pair table evaluated numerically (None outside the table / inside the documented JBessel tweak)"""
    import numpy as np
    from scipy import special as sp

    if name == "Gaussian":
        return (lr / 2 / np.sqrt(np.pi)) ** d * np.exp(-((k * lr / 2) ** 2))
    if name == "Exponential":
        return lr**d * sp.gamma((d + 1) / 2) / (np.pi * (1 + (k * lr) ** 2)) ** ((d + 1) / 2)
    if name == "Matern":
        nu, x = o["nu"], (k * lr) ** 2
        if nu > 20:
            return (lr / np.sqrt(np.pi)) ** d * np.exp(-x)
        return (lr / np.sqrt(np.pi)) ** d * np.exp(sp.gammaln(nu + d / 2) - sp.gammaln(nu)) * nu ** (-d / 2) * (1 + x / nu) ** (-(nu + d / 2))
    if name == "Integral":
        nu = o["nu"]
        fac, x, sh = (lr / 2 / np.sqrt(np.pi)) ** d, (k * lr / 2) ** 2, (nu + d) / 2
        return fac * nu / (nu + d) if k == 0 else 0.5 * nu * fac / x**sh * sp.gamma(sh) * sp.gammainc(sh, x)
    if name == "HyperSpherical":
        g = sp.gamma(d / 2 + 1)
        return (lr / 4) ** d / g / np.sqrt(np.pi) ** d if k == 0 else g / np.sqrt(np.pi) ** d * sp.jv(d / 2, k * lr / 2) ** 2 / k**d
    if name == "JBessel":
        nu = o["nu"]
        if sp.gamma(nu - d / 2 + 1) > 100:
            return None
        return (lr / np.sqrt(np.pi)) ** d * sp.gamma(nu + 1) / sp.gamma(nu - d / 2 + 1) * (1 - (k * lr) ** 2) ** (nu - d / 2) if k < 1 / lr else 0.0
    return None


def sps_gamma(x):
    from scipy import special

    return float(special.gamma(x))


def replay_identities(inputs):
    import warnings

    import numpy as np

    warnings.simplefilter("ignore")
    import gstools as gs

    name, d, v = inputs["model"], int(inputs["dim"]), inputs.get("values") or {}
    var, l, s = abs(_val(v, "var", 1.4)) or 1.4, abs(_val(v, "len", 1.7)) or 1.7, abs(_val(v, "resc", 1.2)) or 1.2
    k, r, nug = abs(_val(v, "k", 0.8)), abs(_val(v, "r", 0.6)), abs(_val(v, "nug", 0.3))
    opt = {}
    for kk, b in MODELS[name].items():
        lo = c03._lo(b, d)
        dflt = (lo if lo is not None else 0.0) + 0.7 if b[1] is None else ((lo + b[1]) / 2)
        opt[kk] = _val(v, kk, dflt)
    opt.update(inputs.get("fixed") or {})
    try:
        m = getattr(gs, name)(dim=d, var=var, len_scale=l, rescale=s, nugget=nug, **opt)
    except ValueError as e:
        return True, f"precondition {e}"
    ks = [k] + ([1.0 * s / l, 2.0 * s / l, 0.5 * s / l] if inputs.get("sweep") else [])
    allbad = []
    for k in ks:
        bad = []
        sd = float(m.spectral_density(np.array([k]))[0])
        if not np.isclose(m.spectrum(np.array([k]))[0], var * sd, rtol=1e-10):
            bad.append("spectrum")
        fac = {1: 2.0, 2: 2 * np.pi * r, 3: 4 * np.pi * r * r}[d]
        want = max(fac * abs(float(m.spectral_density(np.array([r]))[0])), 0.0) if not (d > 1 and np.isclose(r, 0)) else 0.0
        if not np.isclose(m.spectral_rad_pdf(np.array([r]))[0], want, rtol=1e-9, atol=1e-14):
            bad.append("rad pdf")
        if not np.isclose(m.spectral_rad_pdf(np.array([-r]))[0], m.spectral_rad_pdf(np.array([r]))[0], rtol=1e-12):
            bad.append("rad pdf not even")
        with np.errstate(divide="ignore"):
            if not np.isclose(m.ln_spectral_rad_pdf(np.array([r]))[0], np.log(m.spectral_rad_pdf(np.array([r]))[0]), rtol=1e-12, equal_nan=True):
                bad.append("ln pdf")
        exp_cdf = name in ("Gaussian", "Exponential") and d in (1, 2, 3)
        exp_ppf = name in ("Gaussian", "Exponential") and d in (1, 2)
        if (bool(m.has_cdf), bool(m.has_ppf)) != (exp_cdf, exp_ppf) or [f is not None for f in m.dist_func] != [True, exp_cdf, exp_ppf]:
            bad.append("has_cdf / has_ppf / dist_func")
        tab = _table_num(name, k, l / s, d, opt)
        if tab is not None:
            if not np.isclose(sd, tab, rtol=1e-7, atol=1e-12 * abs(tab) + 1e-300):
                bad.append(f"spectral_density({k}) {sd} != transform-pair table {tab}")
            if name in ("Gaussian", "Exponential", "Matern", "Integral"):  # (quadrature of the oscillating Bessel-type correlations is not reliable)
                num = _num_ft(m, k, d)
                if not np.isclose(sd, num, rtol=2e-3, atol=1e-6 * float(m.spectral_density(np.array([0.0]))[0])):
                    bad.append(f"spectral_density({k}) {sd} != numerical Fourier transform of the correlation {num}")
        else:
            # numerical default: the Hankel transform must be the one of the model's correlation in the (2 pi)^-d convention
            if type(m).spectral_density is gs.CovModel.spectral_density:
                num = _num_ft(m, k, d)
                if not np.isclose(sd, num, rtol=2e-2, atol=1e-4 * abs(_num_ft(m, 0.0, d))):
                    bad.append(f"default spectral_density({k}) {sd} != numerical Fourier transform of the correlation {num}")
        allbad += bad
    return (not allbad), f"{name} d={d} len={l} resc={s} k={ks} opt={opt} failing={allbad}"


def replay_cdf(inputs):
    import warnings

    import numpy as np

    warnings.simplefilter("ignore")
    import gstools as gs

    name, d, v = inputs["model"], int(inputs["dim"]), inputs.get("values") or {}
    l, s = abs(_val(v, "len", 1.7)) or 1.7, abs(_val(v, "resc", 1.2)) or 1.2
    r, u = abs(_val(v, "r", 0.6)) or 0.6, min(max(_val(v, "u", 0.25), 1e-3), 1 - 1e-3)
    m = getattr(gs, name)(dim=d, len_scale=l, rescale=s)
    bad = []
    cdf = m.spectral_rad_cdf(np.array([r]))
    if (cdf is not None) != m.has_cdf or (m.spectral_rad_ppf(np.array([u])) is not None) != m.has_ppf:
        bad.append("flags")
    if cdf is not None:
        h = 1e-6 * max(1, r)
        num = (m.spectral_rad_cdf(np.array([r + h]))[0] - m.spectral_rad_cdf(np.array([r - h]))[0]) / (2 * h)
        if not np.isclose(num, m.spectral_rad_pdf(np.array([r]))[0], rtol=1e-4, atol=1e-8):
            bad.append(f"cdf' {num} != pdf {m.spectral_rad_pdf(np.array([r]))[0]}")
        if abs(m.spectral_rad_cdf(np.array([0.0]))[0]) > 1e-14:
            bad.append("cdf(0)")
        ppf = m.spectral_rad_ppf(np.array([u]))
        if ppf is not None:
            if not np.isclose(m.spectral_rad_cdf(ppf)[0], u, rtol=1e-9):
                bad.append(f"cdf(ppf({u})) = {m.spectral_rad_cdf(ppf)[0]}")
            if not np.isclose(m.spectral_rad_ppf(cdf)[0], r, rtol=1e-7):
                bad.append(f"ppf(cdf({r})) = {m.spectral_rad_ppf(cdf)[0]}")
    return (not bad), f"{name} d={d} len={l} resc={s} failing={bad}"


def replay_tpl(inputs):
    """numerical Fourier transform of the real correlation vs the reported spectral density (rescale != 1, len_low > 0)"""
    import warnings

    import numpy as np

    warnings.simplefilter("ignore")
    import gstools as gs

    name, d, v = inputs["model"], int(inputs["dim"]), inputs.get("values") or {}
    bad = []
    for l, s, low, H in [(abs(_val(v, "len", 2.0)) or 2.0, abs(_val(v, "resc", 2.5)) or 2.5, abs(_val(v, "len_low", 0.5)), min(max(_val(v, "hurst", 0.3), 0.15), 0.9)), (2.0, 2.5, 0.5, 0.3), (1.5, 0.6, 1.0, 0.6)]:
        m = getattr(gs, name)(dim=d, len_scale=l, rescale=s, len_low=low, hurst=H)
        for k in (0.05, 0.4, 1.5):
            sd = float(m.spectral_density(np.array([k]))[0])
            num = _num_ft(m, k, d)
            if not np.isclose(sd, num, rtol=2e-2, atol=2e-3 * float(m.spectral_density(np.array([0.0]))[0])):
                bad.append(f"len={l} rescale={s} len_low={low} hurst={H}: spectral_density({k}) {sd} != numerical Fourier transform of the correlation {num}")
    return (not bad), f"{name} d={d} {bad[:3]}"


def replay_dimhist(inputs):
    import warnings

    import numpy as np

    warnings.simplefilter("ignore")
    import gstools as gs

    name, seq = inputs["model"], inputs.get("seq") or [3, 2]
    d0 = next(x for x in seq if x != "kw")
    m = getattr(gs, name)(dim=d0)
    bad = []
    ks = np.array([0.1, 0.7])
    for step in seq:
        if step == "kw":
            m.hankel_kw = {"N": 300}
        else:
            m.dim = step
        got = np.asarray(m.spectral_density(ks), dtype=float)
        fresh = getattr(gs, name)(dim=m.dim, hankel_kw=m.hankel_kw)
        want = np.asarray(fresh.spectral_density(ks), dtype=float)
        if not np.allclose(got, want, rtol=1e-9):
            bad.append(f"after {step}: spectral_density {got.tolist()} != freshly constructed dim={m.dim} model {want.tolist()}")
    return (not bad), f"{name} seq={seq} {bad[:3]}"


REPLAY = {"identities": replay_identities, "cdf": replay_cdf, "tpl": replay_tpl, "dimhist": replay_dimhist}

"""Stubs for the kriging code path under E1: cdist by definition, (pseudo-)inverse as a symbolic
matrix M logged together with the matrix it inverts, compiled kernels interpreted from source (E2),
and a covariance model whose correlation is an uninterpreted function of the scaled lag."""
import numpy as rnp
import z3

from . import theory, vario
from .sym import Sym, lift

INV_LOG = []  # list of (K pre-inverse (object array copy), M symbolic)
_COUNTER = [0]


def reset():
    del INV_LOG[:]
    _COUNTER[0] = 0


def sym_cdist(a, b):
    a = rnp.asarray(a, dtype=object)
    b = rnp.asarray(b, dtype=object)
    out = rnp.empty((a.shape[0], b.shape[0]), dtype=object)
    sq = theory.UF["sqrt"]
    for i in range(a.shape[0]):
        for j in range(b.shape[0]):
            s = z3.RealVal(0)
            for d in range(a.shape[1]):
                df = lift(a[i, d]) - lift(b[j, d])
                s = s + df * df
            out[i, j] = Sym(sq(s))
    return out


class SymLinalg:
    def __init__(self, kind="inv"):
        self.kind = kind

    def _inv(self, K):
        n = K.shape[0]
        tag = _COUNTER[0]
        _COUNTER[0] += 1
        M = rnp.empty((n, n), dtype=object)
        for i in range(n):
            for j in range(n):
                M[i, j] = Sym(z3.Real(f"M{tag}_{i}_{j}"))
        INV_LOG.append((rnp.array(K, dtype=object).copy(), M))
        return M

    def pinv(self, K, **kw):
        return self._inv(K)

    def pinvh(self, K, **kw):
        return self._inv(K)

    def inv(self, K, **kw):
        return self._inv(K)


def inverse_axioms(K, M, left=True, right=True):
    """M K = I and K M = I as z3 constraints (exact inverse of a non-singular system)"""
    n = K.shape[0]
    cs = []
    for i in range(n):
        for j in range(n):
            if left:
                cs.append(z3.Sum([lift(M[i, l]) * lift(K[l, j]) for l in range(n)]) == (1 if i == j else 0))
            if right:
                cs.append(z3.Sum([lift(K[i, l]) * lift(M[l, j]) for l in range(n)]) == (1 if i == j else 0))
    return cs


def penrose_axioms(K, M):
    """the four Moore-Penrose equations for M = K^+ (K symmetric here)"""
    n = K.shape[0]
    Kz = [[lift(K[i, j]) for j in range(n)] for i in range(n)]
    Mz = [[lift(M[i, j]) for j in range(n)] for i in range(n)]
    mm = lambda A, B: [[z3.Sum([A[i][l] * B[l][j] for l in range(n)]) for j in range(n)] for i in range(n)]
    KM, MK = mm(Kz, Mz), mm(Mz, Kz)
    KMK, MKM = mm(KM, Kz), mm(MK, Mz)
    cs = []
    for i in range(n):
        for j in range(n):
            cs += [KMK[i][j] == Kz[i][j], MKM[i][j] == Mz[i][j], KM[i][j] == KM[j][i], MK[i][j] == MK[j][i]]
    return cs


def install():
    import gstools.krige.base as kb

    lin = SymLinalg()
    kb.cdist = sym_cdist
    kb.spl = lin
    kb.P_INV = {"pinv": lin.pinv, "pinvh": lin.pinvh}
    kb.calc_field_krige_c = vario.calc_field_krige
    kb.calc_field_krige_and_variance_c = vario.calc_field_krige_and_variance
    return kb


COR = z3.Function("cor_h", z3.RealSort(), z3.RealSort())


def uf_model_class():
    import gstools as gs

    class UFModel(gs.CovModel):
        """correlation = uninterpreted function of the non-dimensional lag"""

        def cor(self, h):
            h = rnp.asarray(h, dtype=object)
            return rnp.frompyfunc(lambda x: Sym(COR(lift(x))), 1, 1)(h)

    return UFModel

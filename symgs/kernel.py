"""Engine E2: guarded-update symbolic interpreter for the decythonised .pyx kernels
(state merging, no forking) with a concrete mode, and engine E3: ownership
analysis of the prange loops.
"""
import ast
import math
import os
from fractions import Fraction

import z3

from . import theory
from .decython import parse

UF = theory.UF


def isz(x):
    return isinstance(x, z3.ExprRef)


def nice_fraction(x):
    fr = Fraction(x)
    nice = fr.limit_denominator(10**9)
    return nice if float(nice) == float(x) else fr


def tz(x):
    """z3 term of a Python value"""
    if isz(x):
        return x
    if isinstance(x, Fraction):
        return z3.RealVal(str(x))
    if isinstance(x, bool):
        return z3.BoolVal(x)
    if isinstance(x, int):
        return z3.IntVal(x)
    if isinstance(x, float):
        if x != x or x in (math.inf, -math.inf):
            raise ValueError("non-finite constant in symbolic mode")
        fr = Fraction(x)
        nice = fr.limit_denominator(10**9)
        if float(nice) == x:
            fr = nice
        return z3.RealVal(str(fr))
    raise TypeError(f"tz({type(x).__name__})")


def treal(x):
    t = tz(x)
    if z3.is_int(t):
        return z3.ToReal(t)
    return t


def AND(a, b):
    if a is False or b is False:
        return False
    if a is True:
        return b
    if b is True:
        return a
    return z3.And(a, b)


def OR(a, b):
    if a is True or b is True:
        return True
    if a is False:
        return b
    if b is False:
        return a
    return z3.Or(a, b)


def NOT(a):
    return (not a) if isinstance(a, bool) else z3.Not(a)


class FV:
    """double that may be NaN: (value, is_nan flag)"""

    __slots__ = ("val", "nan")

    def __init__(self, val, nan=False):
        self.val = val
        self.nan = nan

    def __repr__(self):
        return f"FV({self.val}, nan={self.nan})"


def fv_parts(x):
    if isinstance(x, FV):
        return x.val, x.nan
    return x, False


def ITE(c, a, b):
    if c is True:
        return a
    if c is False:
        return b
    if isinstance(a, FV) or isinstance(b, FV):
        av, an = fv_parts(a)
        bv, bn = fv_parts(b)
        return FV(ITE(c, av, bv), ITE(c, an, bn))
    if not isz(a) and not isz(b):
        if isinstance(a, bool) and isinstance(b, bool):
            if a == b:
                return a
            return c if a else z3.Not(c)
        if a == b and type(a) == type(b):
            return a
    ta, tb = tz(a), tz(b)
    if z3.is_bool(ta) or z3.is_bool(tb):
        return z3.If(c, ta, tb)
    if z3.is_int(ta) and z3.is_int(tb):
        return z3.If(c, ta, tb)
    return z3.If(c, treal(ta), treal(tb))


class Arr:
    def __init__(self, shape, data, off=0, strides=None, kind="double"):
        self.shape = tuple(shape)
        self.data = data
        self.off = off
        self.kind = kind
        if strides is None:
            strides, acc = [], 1
            for n in reversed(self.shape):
                strides.insert(0, acc)
                acc *= n
        self.strides = tuple(strides)

    @staticmethod
    def zeros(shape, kind="double", exact=False):
        n = 1
        for s in shape:
            n *= s
        return Arr(shape, [0 if kind == "int" else (Fraction(0) if exact else 0.0) for _ in range(n)], kind=kind)

    @staticmethod
    def from_list(lst, kind="double"):
        import numpy as np

        a = np.asarray(lst, dtype=object)
        return Arr(a.shape, list(a.ravel()), kind=kind)

    def _idx(self, idx):
        return idx if isinstance(idx, tuple) else (idx,)

    def get(self, idx):
        idx = self._idx(idx)
        if any(isinstance(i, slice) for i in idx) or len(idx) < len(self.shape):
            off, shape, strides = self.off, [], []
            idx = idx + (slice(None),) * (len(self.shape) - len(idx))
            for i, n, st in zip(idx, self.shape, self.strides):
                if isinstance(i, slice):
                    shape.append(n)
                    strides.append(st)
                else:
                    off += i * st
            return Arr(shape, self.data, off, strides, self.kind)
        for i, n in zip(idx, self.shape):
            if not (0 <= i < n):
                raise IndexError(f"kernel index {idx} out of bounds for shape {self.shape} (boundscheck=False in the .pyx: undefined behaviour)")
        return self.data[self.off + sum(i * st for i, st in zip(idx, self.strides))]

    def set(self, idx, v):
        idx = self._idx(idx)
        for i, n in zip(idx, self.shape):
            if not (0 <= i < n):
                raise IndexError(f"kernel store index {idx} out of bounds for shape {self.shape}")
        self.data[self.off + sum(i * st for i, st in zip(idx, self.strides))] = v

    def tolist(self):
        import itertools

        if not self.shape:
            return self.data[self.off]
        out = []
        for idx in itertools.product(*[range(n) for n in self.shape]):
            out.append(self.get(idx))
        return out


class Frame:
    def __init__(self):
        self.env = {}
        self.ret = False
        self.retval = None


class Loop:
    def __init__(self):
        self.brk = False
        self.cont = False


class KernelRaise(Exception):
    pass


class Interp:
    """Interpreter for one decythonised module. `consts` supplies compile-time names (OPENMP, M_PI)."""

    def __init__(self, tree, consts, concrete=False):
        self.funcs = {n.name: n for n in tree.body if isinstance(n, ast.FunctionDef)}
        self.consts = dict(consts)
        self.concrete = concrete
        self.parallel_loops = []
        self.raised = False
        self.accesses = None  # E3 recording hook
        self.stmts_executed = 0

    # ---- calls
    def call(self, name, args, guard=True, kwargs=None):
        fn = self.funcs[name]
        if callable(fn):  # harness stub (compositional obligations)
            return fn(*args)
        fr = Frame()
        params = [a.arg for a in fn.args.args]
        defaults = fn.args.defaults
        kwargs = kwargs or {}
        for i, p in enumerate(params):
            if i < len(args):
                fr.env[p] = args[i]
            elif p in kwargs:
                fr.env[p] = kwargs[p]
            else:
                fr.env[p] = self.ev(defaults[i - (len(params) - len(defaults))], fr)
        self.block(fn.body, fr, guard, [])
        return fr.retval

    def active(self, fr, guard, loops):
        g = AND(guard, NOT(fr.ret))
        for l in loops:
            g = AND(g, AND(NOT(l.brk), NOT(l.cont)))
        return g

    def block(self, stmts, fr, guard, loops):
        for st in stmts:
            g = self.active(fr, guard, loops)
            if g is False:
                return
            self.stmt(st, fr, g, loops)

    def assign(self, tgt, val, fr, g):
        if isinstance(tgt, ast.Name):
            old = fr.env.get(tgt.id)
            if g is True or old is None or isinstance(val, (Arr, str, tuple)) or callable(val):
                fr.env[tgt.id] = val
            else:
                fr.env[tgt.id] = ITE(g, val, old)
        elif isinstance(tgt, ast.Subscript):
            arr = self.ev(tgt.value, fr)
            idx = self.ev_index(tgt.slice, fr)
            if self.accesses is not None:
                self.accesses.append(("w", id(arr.data), arr.off + sum(i * st for i, st in zip(arr._idx(idx), arr.strides))))
            old = arr.get(idx)
            if arr.kind == "double" and not isinstance(val, FV) and not isz(val) and isinstance(val, int) and not isinstance(val, bool):
                val = float(val) if self.concrete else Fraction(val)
            arr.set(idx, val if g is True else ITE(g, val, old))
        else:
            raise NotImplementedError(ast.dump(tgt))

    def stmt(self, st, fr, g, loops):
        self.stmts_executed += 1
        if isinstance(st, (ast.Pass, ast.Import, ast.ImportFrom)):
            return
        if isinstance(st, ast.Expr):
            if isinstance(st.value, ast.Constant):
                return
            self.ev(st.value, fr, g)
            return
        if isinstance(st, ast.Assign):
            self.assign(st.targets[0], self.ev(st.value, fr, g), fr, g)
            return
        if isinstance(st, ast.AugAssign):
            cur = self.ev(st.target, fr, g)
            val = self.binop(st.op, cur, self.ev(st.value, fr, g))
            self.assign(st.target, val, fr, g)
            return
        if isinstance(st, ast.If):
            c = self.truth(self.ev(st.test, fr, g))
            self.block(st.body, fr, AND(g, c), loops)
            self.block(st.orelse, fr, AND(g, NOT(c)), loops)
            return
        if isinstance(st, ast.For):
            it = self.ev(st.iter, fr, g)
            par = isinstance(it, tuple) and it and it[0] == "prange"
            rng = it[1] if par else it
            if par:
                self.parallel_loops.append((st.target.id, st))
            outer = Loop()
            for i in rng:
                fr.env[st.target.id] = i
                lp = Loop()
                lp.brk = outer.brk
                self.block(st.body, fr, g, loops + [lp])
                outer.brk = lp.brk
                if outer.brk is True:
                    break
            return
        if isinstance(st, ast.With):
            self.block(st.body, fr, g, loops)
            return
        if isinstance(st, ast.Continue):
            loops[-1].cont = OR(loops[-1].cont, g)
            return
        if isinstance(st, ast.Break):
            loops[-1].brk = OR(loops[-1].brk, g)
            return
        if isinstance(st, ast.Return):
            v = self.ev(st.value, fr, g) if st.value else None
            if fr.retval is None or g is True or isinstance(v, (tuple, Arr)) or v is None:
                fr.retval = v
            else:
                fr.retval = ITE(g, v, fr.retval)
            fr.ret = OR(fr.ret, g)
            return
        if isinstance(st, ast.Raise):
            if g is True:
                raise KernelRaise(ast.unparse(st))
            self.raised = OR(self.raised, g)
            fr.ret = OR(fr.ret, g)
            return
        raise NotImplementedError(ast.dump(st)[:80])

    def truth(self, v):
        if isinstance(v, FV):
            raise NotImplementedError("truth of NaN-able value")
        if isz(v):
            if z3.is_bool(v):
                return v
            return v != 0
        return bool(v)

    # ---- arithmetic
    def binop(self, op, a, b):
        if isinstance(a, FV) or isinstance(b, FV):
            av, an = fv_parts(a)
            bv, bn = fv_parts(b)
            return FV(self.binop(op, av, bv), OR(an, bn))
        if isinstance(op, ast.Add):
            return self._ar(a, b, lambda x, y: x + y)
        if isinstance(op, ast.Sub):
            return self._ar(a, b, lambda x, y: x - y)
        if isinstance(op, ast.Mult):
            return self._ar(a, b, lambda x, y: x * y)
        if isinstance(op, ast.Div):
            if not isz(a) and not isz(b) and (isinstance(a, Fraction) or isinstance(b, Fraction)):
                if b == 0:
                    raise ZeroDivisionError("concrete division by zero in symbolic mode")
                return Fraction(a) / Fraction(b)
            if not isz(a) and not isz(b):
                if float(b) == 0.0:
                    # cdivision=True: IEEE semantics
                    fa = float(a)
                    return math.nan if fa == 0.0 or fa != fa else math.copysign(math.inf, fa) * (math.copysign(1.0, float(b)))
                return a / b
            return treal(a) / treal(b)
        if isinstance(op, ast.Pow):
            if isinstance(b, float) and b.is_integer():
                b = int(b)
            if isinstance(b, int):
                if not isz(a):
                    return a**b  # exact for Fraction / int
                r = None
                for _ in range(abs(b)):
                    r = a if r is None else r * a
                if b == 0:
                    return 1.0
                return r if b > 0 else 1 / treal(r)
            raise NotImplementedError("non-integer power in kernel")
        raise NotImplementedError(op)

    @staticmethod
    def _ar(a, b, f):
        if not isz(a) and not isz(b) and (isinstance(a, Fraction) or isinstance(b, Fraction)):
            a = nice_fraction(a) if isinstance(a, float) else a
            b = nice_fraction(b) if isinstance(b, float) else b
            return f(a, b)
        if isz(a) or isz(b):
            ta, tb = tz(a), tz(b)
            if z3.is_int(ta) != z3.is_int(tb):
                ta, tb = treal(ta), treal(tb)
            return f(ta, tb)
        return f(a, b)

    def ev_index(self, node, fr):
        if isinstance(node, ast.Tuple):
            return tuple(self.ev_index(e, fr) for e in node.elts)
        if isinstance(node, ast.Slice):
            return slice(None)
        return self.ev(node, fr)

    BUILTINS = ("range", "prange", "len", "max", "min", "sqrt", "fabs", "isnan", "pow", "sin", "cos", "acos", "atan2", "parallel", "abs", "float", "int")

    def ev(self, n, fr, g=True):
        if isinstance(n, ast.Constant):
            if isinstance(n.value, float) and not self.concrete:
                # symbolic mode: source literals denote exact rationals; concrete arithmetic stays exact
                return nice_fraction(n.value)
            return n.value
        if isinstance(n, ast.Name):
            if n.id in fr.env:
                return fr.env[n.id]
            if n.id in self.consts:
                return self.consts[n.id]
            if n.id in self.funcs:
                return ("func", n.id)
            if n.id in self.BUILTINS:
                return ("builtin", n.id)
            if n.id in ("np", "openmp"):
                return n.id
            if n.id == "True":
                return True
            raise NameError(n.id)
        if isinstance(n, ast.Attribute):
            v = self.ev(n.value, fr, g)
            if v == "np":
                return ("np", n.attr)
            if v == "openmp":
                return ("openmp", n.attr)
            if isinstance(v, Arr) and n.attr == "shape":
                return v.shape
            if isinstance(v, tuple) and v and v[0] == "np":
                return ("np", v[1] + "." + n.attr)
            raise NotImplementedError(ast.dump(n))
        if isinstance(n, ast.Subscript):
            v = self.ev(n.value, fr, g)
            idx = self.ev_index(n.slice, fr)
            if isinstance(v, Arr):
                if self.accesses is not None and not (isinstance(idx, tuple) and any(isinstance(i, slice) for i in idx)) and len(v._idx(idx)) == len(v.shape):
                    self.accesses.append(("r", id(v.data), v.off + sum(i * st for i, st in zip(v._idx(idx), v.strides))))
                return v.get(idx)
            return v[idx]
        if isinstance(n, ast.BinOp):
            return self.binop(n.op, self.ev(n.left, fr, g), self.ev(n.right, fr, g))
        if isinstance(n, ast.UnaryOp):
            v = self.ev(n.operand, fr, g)
            if isinstance(n.op, ast.USub):
                if isinstance(v, FV):
                    return FV(-v.val, v.nan)
                return -v
            if isinstance(n.op, ast.Not):
                return NOT(self.truth(v))
            if isinstance(n.op, ast.UAdd):
                return v
        if isinstance(n, ast.BoolOp):
            vals = [self.truth(self.ev(e, fr, g)) for e in n.values]
            r = vals[0]
            for v in vals[1:]:
                r = AND(r, v) if isinstance(n.op, ast.And) else OR(r, v)
            return r
        if isinstance(n, ast.Compare):
            l = self.ev(n.left, fr, g)
            res = True
            for op, rn in zip(n.ops, n.comparators):
                r = self.ev(rn, fr, g)
                res = AND(res, self.compare(op, l, r))
                l = r
            return res
        if isinstance(n, ast.Tuple):
            return tuple(self.ev(e, fr, g) for e in n.elts)
        if isinstance(n, ast.Call):
            return self.evcall(n, fr, g)
        raise NotImplementedError(ast.dump(n)[:80])

    def compare(self, op, l, r):
        if isinstance(l, str) or isinstance(r, str) or l is None or r is None:
            if isinstance(op, (ast.Eq, ast.Is)):
                return l == r
            if isinstance(op, (ast.NotEq, ast.IsNot)):
                return l != r
        if isinstance(l, FV) or isinstance(r, FV):
            lv, ln = fv_parts(l)
            rv, rn = fv_parts(r)
            c = self.compare(op, lv, rv)
            # IEEE: every comparison with NaN is false, except !=
            if isinstance(op, ast.NotEq):
                return OR(OR(ln, rn), c)
            return AND(NOT(OR(ln, rn)), c)
        f = {ast.Lt: lambda a, b: a < b, ast.LtE: lambda a, b: a <= b, ast.Gt: lambda a, b: a > b, ast.GtE: lambda a, b: a >= b, ast.Eq: lambda a, b: a == b, ast.NotEq: lambda a, b: a != b}[type(op)]
        if isz(l) or isz(r):
            tl, tr = tz(l), tz(r)
            if z3.is_int(tl) != z3.is_int(tr):
                tl, tr = treal(tl), treal(tr)
            return f(tl, tr)
        return bool(f(l, r))

    def math1(self, name, x):
        if isinstance(x, FV):
            return FV(self.math1(name, x.val), x.nan)
        if not isz(x) and self.concrete:
            x = float(x)
            try:
                return {"sqrt": math.sqrt, "sin": math.sin, "cos": math.cos, "acos": math.acos}[name](x)
            except ValueError:
                return math.nan
        if not isz(x):
            fx = Fraction(x) if not isinstance(x, float) else nice_fraction(x)
            if name == "sqrt" and fx >= 0 and math.isqrt(fx.numerator) ** 2 == fx.numerator and math.isqrt(fx.denominator) ** 2 == fx.denominator:
                return Fraction(math.isqrt(fx.numerator), math.isqrt(fx.denominator))
            if fx == 0 and name in ("sin", "sqrt"):
                return Fraction(0)
            if fx == 0 and name == "cos":
                return Fraction(1)
            x = tz(fx)
        return UF[{"acos": "arccos"}.get(name, name)](treal(x))

    def evcall(self, n, fr, g):
        f = self.ev(n.func, fr, g)
        args = [self.ev(a, fr, g) for a in n.args]
        kw = {k.arg: self.ev(k.value, fr, g) for k in n.keywords}
        if f[0] == "func":
            return self.call(f[1], args, g, kw)
        if f[0] == "openmp":
            if f[1] == "omp_get_num_procs":
                return self.consts.get("OMP_PROCS", 1)
            raise NotImplementedError(f)
        if f[0] == "np":
            if f[1] in ("zeros", "empty"):
                shp = args[0] if isinstance(args[0], tuple) else (args[0],)
                kind = "int" if ("dtype" in kw and kw["dtype"] == ("np", "int64")) else "double"
                return Arr.zeros(shp, kind, exact=not self.concrete)
            if f[1] == "asarray":
                return args[0]
            raise NotImplementedError(f)
        b = f[1]
        if b == "range":
            return range(*args)
        if b == "prange":
            return ("prange", range(*args))
        if b == "parallel":
            return None
        if b == "len":
            return args[0].shape[0]
        if b in ("float", "int"):
            return args[0]
        if b in ("max", "min"):
            a_, b_ = args
            if not isz(a_) and not isz(b_):
                return max(a_, b_) if b == "max" else min(a_, b_)
            ta, tb = tz(a_), tz(b_)
            if z3.is_int(ta) != z3.is_int(tb):
                ta, tb = treal(ta), treal(tb)
            return z3.If(ta >= tb, ta, tb) if b == "max" else z3.If(ta <= tb, ta, tb)
        if b in ("sqrt", "sin", "cos", "acos"):
            return self.math1(b, args[0])
        if b == "atan2":
            if not any(isz(a) for a in args) and self.concrete:
                return math.atan2(*args)
            return UF["arctan2"](treal(args[0]), treal(args[1]))
        if b in ("fabs", "abs"):
            x = args[0]
            if isinstance(x, FV):
                return FV(self.evabs(x.val), x.nan)
            return self.evabs(x)
        if b == "pow":
            e = args[1]
            return self.binop(ast.Pow(), args[0], int(e) if float(e).is_integer() else e)
        if b == "isnan":
            v = args[0]
            if isinstance(v, FV):
                return v.nan
            if isz(v):
                return False
            return v != v
        raise NotImplementedError(b)

    @staticmethod
    def evabs(x):
        if not isz(x):
            return abs(x)  # (Fraction stays exact)
        x = treal(x)
        return z3.If(x >= 0, x, -x)


def load(relpath, consts=None, concrete=False, src_root=None):
    root = src_root or os.environ.get("VERIF_SRC", "/repo/src")
    path = os.path.join(root, relpath)
    tree, py, src = parse(path)
    c = {"OPENMP": False, "M_PI": theory.PI if not concrete else math.pi, "OMP_PROCS": 1}
    if consts:
        c.update(consts)
    return Interp(tree, c, concrete=concrete)


# --------------------------------------------------------------------------
# E3: parallel ownership (structural, from the AST; extents unbounded)


def prange_loops(tree):
    """all `for v in prange(...)` loops with their enclosing function"""
    out = []
    for fn in tree.body:
        if not isinstance(fn, ast.FunctionDef):
            continue
        for node in ast.walk(fn):
            if isinstance(node, ast.For) and isinstance(node.iter, ast.Call) and isinstance(node.iter.func, ast.Name) and node.iter.func.id == "prange":
                out.append((fn, node))
    return out


def _names(node):
    return {n.id for n in ast.walk(node) if isinstance(n, ast.Name)}


def ownership_obligations(tree):
    """For every prange loop: the shared arrays written in its body, the index
    expressions of every write and read, and the scalars assigned in the body.
    Returns a list of dicts to be turned into LIA queries by the property module."""
    res = []
    for fn, loop in prange_loops(tree):
        var = loop.target.id
        writes, reads, scalars_assigned, inner_vars = [], [], set(), set()
        local_arrays = set()
        for node in ast.walk(loop):
            if isinstance(node, ast.For) and node is not loop:
                inner_vars.add(node.target.id)
        for node in ast.walk(loop):
            if isinstance(node, (ast.Assign, ast.AugAssign)):
                tgts = node.targets if isinstance(node, ast.Assign) else [node.target]
                for t in tgts:
                    if isinstance(t, ast.Subscript) and isinstance(t.value, ast.Name):
                        writes.append((t.value.id, t.slice, isinstance(node, ast.AugAssign)))
                    elif isinstance(t, ast.Name):
                        scalars_assigned.add(t.id)
        wnames = {w[0] for w in writes}
        for node in ast.walk(loop):
            if isinstance(node, ast.Subscript) and isinstance(node.value, ast.Name) and isinstance(node.ctx, ast.Load) and node.value.id in wnames:
                reads.append((node.value.id, node.slice))
        # is the prange the outermost loop of the function (iterations = whole loop nest)?
        outer_vars = []
        for node in ast.walk(fn):
            if isinstance(node, ast.For) and node is not loop and any(n is loop for n in ast.walk(node)):
                outer_vars.append(node.target.id)
        res.append({"function": fn.name, "var": var, "range": ast.unparse(loop.iter), "writes": writes, "reads": reads, "scalars": sorted(scalars_assigned), "inner": sorted(inner_vars), "outer": outer_vars, "lineno": loop.lineno})
    return res


def index_term(node, env):
    """LIA term of an index expression over z3 Int variables in env"""
    if isinstance(node, ast.Constant):
        return z3.IntVal(int(node.value))
    if isinstance(node, ast.Name):
        return env[node.id]
    if isinstance(node, ast.BinOp):
        a, b = index_term(node.left, env), index_term(node.right, env)
        if isinstance(node.op, ast.Add):
            return a + b
        if isinstance(node.op, ast.Sub):
            return a - b
        if isinstance(node.op, ast.Mult):
            return a * b
    if isinstance(node, ast.UnaryOp) and isinstance(node.op, ast.USub):
        return -index_term(node.operand, env)
    raise NotImplementedError(ast.dump(node))

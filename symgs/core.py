"""Obligations, solver queries, job fan-out, replay, known findings, evidence."""
import fnmatch
import hashlib
import json
import multiprocessing as mp
import os
import signal
import subprocess
import sys
import time
import traceback

import z3

from . import theory
from .sym import Sym, SymBool, lift

ROOT = os.path.dirname(os.path.dirname(os.path.abspath(__file__)))
REPO = os.environ.get("VERIF_REPO", "/repo")
SRC = os.environ.get("VERIF_SRC", os.path.join(REPO, "src"))

# caps are >= 10x the times measured on the unchanged tree (the check environment is several times slower)
CEGAR_ROUNDS = 6
QUERY_TIMEOUT = {"quick": 60, "thorough": 180}


def tier_timeout(tier):
    return int(os.environ.get("VERIF_QUERY_TIMEOUT", QUERY_TIMEOUT.get(tier, 20)))


# --------------------------------------------------------------------------
# result records (plain dicts, picklable)


def rec(oid, status, t=0.0, **kw):
    d = {"id": oid, "status": status, "time": round(t, 4)}
    d.update(kw)
    return d


def z3bool(x):
    if isinstance(x, SymBool):
        return x.e
    if isinstance(x, bool):
        return z3.BoolVal(x)
    if hasattr(x, "dtype") and x.dtype == bool and x.shape == ():
        return z3.BoolVal(bool(x))
    return x


def eq(a, b):
    """z3 equality of two (Sym | number) values."""
    return lift(a) == lift(b)


def model_value(m, e, prec=30):
    """float value of a z3 real term in a model."""
    v = m.eval(e, model_completion=True)
    if z3.is_rational_value(v):
        return v.numerator_as_long() / v.denominator_as_long()
    if z3.is_algebraic_value(v):
        a = v.approx(prec)
        return a.numerator_as_long() / a.denominator_as_long()
    try:
        s = z3.simplify(v)
        if z3.is_rational_value(s):
            return s.numerator_as_long() / s.denominator_as_long()
    except Exception:
        pass
    return None


def timed_check(solver, timeout_s):
    """solver.check() with a hard watchdog: z3's own timeout is not always honoured inside nlsat, so a timer
    thread interrupts the context shortly after the cap (the check then returns unknown)"""
    import threading

    ctx = solver.ctx
    timer = threading.Timer(timeout_s + 2.0, ctx.interrupt)
    timer.daemon = True
    timer.start()
    try:
        try:
            r = str(solver.check())
        except z3.Z3Exception:
            r = "unknown"
    finally:
        timer.cancel()
    return r


class Query:
    """One solver query: conds /\\ axioms /\\ not goal."""

    count = 0
    time = 0.0
    axiom_names = set()
    log = []

    @staticmethod
    def solve(conds, goal, timeout_s, extra=(), instantiate=True, want_model=True, pairwise=True, tactic=None, deep_gen=1):
        conds = [z3bool(c) for c in conds]
        g = z3bool(goal)
        s = z3.Solver() if tactic is None else z3.Then(*tactic).solver() if isinstance(tactic, (list, tuple)) else z3.Tactic(tactic).solver()
        s.set("timeout", int(timeout_s * 1000))
        neg = z3.Not(g)
        terms = conds + [neg] + list(extra)
        if instantiate:
            ax, inst = theory.axioms(terms, pairwise=pairwise, deep_gen=deep_gen)
            s.add(ax)
            Query.axiom_names |= inst.names
        s.add(conds)
        s.add(list(extra))
        s.add(neg)
        t0 = time.time()
        r = timed_check(s, timeout_s)
        dt = time.time() - t0
        Query.count += 1
        Query.time += dt
        m = s.model() if (r == "sat" and want_model) else None
        return r, dt, m, s

    @staticmethod
    def satisfiable(conds, timeout_s, extra=(), instantiate=True):
        conds = [z3bool(c) for c in conds]
        s = z3.Solver()
        s.set("timeout", int(timeout_s * 1000))
        if instantiate:
            ax, inst = theory.axioms(conds + list(extra), pairwise=False)
            s.add(ax)
        s.add(conds)
        s.add(list(extra))
        t0 = time.time()
        r = timed_check(s, timeout_s)
        dt = time.time() - t0
        Query.count += 1
        Query.time += dt
        return r, dt


_UNKNOWN_STREAK = 0
_CROSS_LEFT = 0
_VAC_CACHE = {}


def _cross_check(solver):
    """second opinion on an `unsat`: the query as SMT-LIB text (exactly what z3 was asked, axioms included) to the cvc5 binary.
    Budgeted per job (VERIF_CROSS, default 0 quick / 3 thorough). Returns 'unsat' / 'sat' / 'unknown' or None if not run."""
    global _CROSS_LEFT
    if _CROSS_LEFT <= 0:
        return None
    import shutil
    import tempfile

    exe = shutil.which("cvc5")
    if not exe:
        return None
    _CROSS_LEFT -= 1
    fn = None
    try:
        txt = solver.to_smt2()
        fd, fn = tempfile.mkstemp(suffix=".smt2", prefix="vcross_")
        with os.fdopen(fd, "w") as f:
            f.write("(set-logic QF_UFNIRA)\n" + txt)
        p = subprocess.run([exe, "--tlimit=15000", fn], capture_output=True, text=True, timeout=40)
        outl = (p.stdout.strip().splitlines() or ["unknown"])[0].strip()
        if "(error" in p.stdout or "(error" in p.stderr or outl not in ("sat", "unsat", "unknown"):
            return "unknown"
        return outl
    except Exception:
        return "unknown"
    finally:
        if fn:
            try:
                os.remove(fn)
            except OSError:
                pass


def prove(oid, conds, goal, timeout_s, witness_vars=None, extra=(), instantiate=True, vacuity=True, replay=None, note=None, pairwise=True, tactic=None, deep_gen=1):
    """Discharge one obligation. Returns a result record.

    witness_vars: dict name -> Sym/z3 term whose model values make the witness.
    replay: (kind, builder) where builder(values: dict) -> inputs dict for
            the concrete replay of that kind (see replay.py); or None.
    """
    # after three undecided obligations in a row inside one job the remaining ones get a short cap: on a tree where the
    # property holds nothing is undecided, so this only shortens runs that are already inconclusive or violated
    global _UNKNOWN_STREAK
    if _UNKNOWN_STREAK >= 3:
        timeout_s = min(timeout_s, 10)
    try:
        r, dt, m, s = Query.solve(conds, goal, timeout_s, extra=extra, instantiate=instantiate, pairwise=pairwise, tactic=tactic, deep_gen=deep_gen)
    except z3.Z3Exception as e:
        return rec(oid, "error", 0.0, detail=f"z3: {e}")
    _UNKNOWN_STREAK = _UNKNOWN_STREAK + 1 if r == "unknown" else 0
    # CEGAR: a model fixes arbitrary values for the uninterpreted functions; refine with true
    # point / half-space lemmas at the model's argument values and re-solve
    rounds = 0
    lemmas_total = 0
    while r == "sat" and instantiate and rounds < CEGAR_ROUNDS:
        lem = theory.point_lemmas(m, s)
        if not lem:
            break
        rounds += 1
        lemmas_total += len(lem)
        s.add(lem)
        t0 = time.time()
        r = timed_check(s, timeout_s)
        dt += time.time() - t0
        Query.count += 1
        Query.time += time.time() - t0
        m = s.model() if r == "sat" else None
    out = rec(oid, r, dt)
    if rounds:
        out["cegar_rounds"] = rounds
        out["cegar_lemmas"] = lemmas_total
    if note:
        out["note"] = note
    if r == "unsat":
        cx = _cross_check(s)
        if cx is not None:
            out["cross_cvc5"] = cx
            if cx == "sat":
                out["status"] = "unknown"
                out["detail"] = "solvers disagree: z3 unsat, cvc5 sat on the same SMT-LIB text"
                return out
        if vacuity:
            # the twin (conds /\ extra /\ their axioms satisfiable) does not depend on the goal: one query per distinct
            # set of conditions (the terms are kept alive with the cache entry so that ids are not recycled)
            zc = [z3bool(c) for c in conds]
            ze = list(extra)
            key = (tuple(c.get_id() for c in zc), tuple(e.get_id() for e in ze), bool(instantiate))
            hit = _VAC_CACHE.get(key)
            if hit is None:
                vr, vdt = Query.satisfiable(conds, min(timeout_s, 10), extra=extra, instantiate=instantiate)
                if len(_VAC_CACHE) > 5000:
                    _VAC_CACHE.clear()
                _VAC_CACHE[key] = (vr, zc, ze)
            else:
                vr, vdt = hit[0], 0.0
            out["vacuity"] = vr
            out["time"] = round(dt + vdt, 4)
            if vr == "unsat":
                out["status"] = "vacuous"
        return out
    if r == "sat":
        vals = {}
        for k, v in (witness_vars or {}).items():
            try:
                vals[k] = model_value(m, lift(v))
            except Exception:
                vals[k] = None
        out["witness"] = vals
        if replay is not None:
            kind, builder = replay
            try:
                inputs = builder(vals)
                out["replay"] = {"kind": kind, "inputs": inputs}
            except Exception as e:  # builder failure -> inconclusive
                out["replay_error"] = repr(e)
        return out
    out["detail"] = s.reason_unknown() if hasattr(s, "reason_unknown") else ""
    return out


# --------------------------------------------------------------------------
# jobs


class Job:
    def __init__(self, name, fn, *args, **kw):
        self.name = name
        self.fn = fn
        self.args = args
        self.kw = kw


class JobTimeout(BaseException):
    pass


def _alarm(signum, frame):
    raise JobTimeout()


def _run_job(payload):
    modname, fnname, name, args, kw, job_timeout = payload
    t0 = time.time()
    if os.environ.get("VERIF_JOBLOG"):
        with open(os.environ["VERIF_JOBLOG"], "a") as f:
            f.write(f"{os.getpid()} start {name}\n")
    from . import sym

    global _UNKNOWN_STREAK, _CROSS_LEFT
    _UNKNOWN_STREAK = 0
    _CROSS_LEFT = int(os.environ.get("VERIF_CROSS", "0") or 0)
    Query.count = 0
    Query.time = 0.0
    Query.axiom_names = set()
    for k in sym.STATS:
        sym.STATS[k] = 0 if not isinstance(sym.STATS[k], float) else 0.0
    signal.signal(signal.SIGALRM, _alarm)
    signal.alarm(int(job_timeout))
    meta = {}
    try:
        mod = __import__(modname, fromlist=[fnname])
        fn = getattr(mod, fnname)
        res = fn(*args, **kw)
        if isinstance(res, tuple):
            res, meta = res
        res = list(res)
    except JobTimeout:
        res = [rec(name, "unknown", time.time() - t0, detail=f"job timeout {job_timeout}s")]
    except BaseException as e:  # harness error: fails closed
        res = [rec(name, "error", time.time() - t0, detail="".join(traceback.format_exception(type(e), e, e.__traceback__))[-1800:])]
    finally:
        signal.alarm(0)
    if os.environ.get("VERIF_JOBLOG"):
        with open(os.environ["VERIF_JOBLOG"], "a") as f:
            f.write(f"{os.getpid()} end {name} {time.time() - t0:.1f}\n")
    stats = dict(sym.STATS)
    stats.update(queries=Query.count, solver_time=round(Query.time, 3), axioms=sorted(Query.axiom_names), wall=round(time.time() - t0, 3))
    return name, res, stats, meta


def run_jobs(jobs, nproc=None, job_timeout=600, per_process=1):
    """Run jobs in forked worker processes; yields (name, records, stats, meta)."""
    nproc = nproc or int(os.environ.get("VERIF_NPROC", min(16, os.cpu_count() or 4)))
    payloads = [(j.fn.__module__, j.fn.__name__, j.name, j.args, j.kw, job_timeout) for j in jobs]
    if nproc <= 1 or len(payloads) <= 1:
        for p in payloads:
            yield _run_job(p)
        return
    # one forked process per job: every job starts from the same (parent) solver state, so a verdict does not depend
    # on which jobs happened to run before it in the same worker
    from multiprocessing.connection import wait as _wait

    try:
        import gstools  # noqa: F401  (pre-imported once; the children inherit it)
    except Exception:
        pass
    ctx = mp.get_context("fork")

    def child(conn, batch):
        try:
            for payload in batch:
                try:
                    conn.send(_run_job(payload))
                except BaseException as e:  # e.g. unpicklable record
                    conn.send((payload[2], [rec(payload[2], "error", 0.0, detail=f"worker failed: {e!r}")], {}, {}))
        finally:
            conn.close()

    # many tiny jobs: fixed batches of consecutive jobs per process (the composition of a batch does not depend on scheduling)
    per_process = max(1, int(per_process))
    batches = [payloads[i : i + per_process] for i in range(0, len(payloads), per_process)]
    pending = [(b, 0) for b in reversed(batches)]
    running = {}
    nproc = min(nproc, len(batches))
    # budget for the whole run (a tree on which the property holds finishes far below it; a run that is already violated or
    # inconclusive is cut short: jobs not yet started are reported as undecided, running ones are killed)
    t_run0 = time.time()
    budget = float(os.environ.get("VERIF_RUN_BUDGET", 1800 if job_timeout <= 600 else 4 * 3600))
    while pending or running:
        if time.time() - t_run0 > budget:
            for pl, _a in pending:
                for payload in pl:
                    yield (payload[2], [rec(payload[2], "unknown", 0.0, detail=f"not started: run budget of {int(budget)}s exhausted")], {}, {})
            pending = []
            for r in list(running):
                pr, pl, got, t_start, attempt = running.pop(r)
                try:
                    pr.kill()
                except Exception:
                    pass
                r.close()
                pr.join(timeout=5)
                for payload in pl:
                    if payload[2] not in got:
                        yield (payload[2], [rec(payload[2], "unknown", 0.0, detail=f"killed: run budget of {int(budget)}s exhausted")], {}, {})
            break
        while pending and len(running) < nproc:
            pl, attempt = pending.pop()
            r, w = ctx.Pipe(duplex=False)
            pr = ctx.Process(target=child, args=(w, pl), daemon=True)
            pr.start()
            w.close()
            running[r] = (pr, pl, set(), time.time(), attempt)
        for r in _wait(list(running), timeout=1.0):
            pr, pl, got, t_start, attempt = running[r]
            try:
                res = r.recv()
                got.add(res[0])
                yield res
                continue
            except (EOFError, OSError):
                pass
            running.pop(r)
            r.close()
            pr.join(timeout=5)
            for payload in pl:
                if payload[2] not in got:
                    yield (payload[2], [rec(payload[2], "error", 0.0, detail="worker process died without a result")], {}, {})
        # hard limit: a solver call that ignores both its own timeout and the interrupt (seen inside z3's nonlinear
        # monomial patching) cannot be stopped from inside the process; the process is killed, its unfinished jobs are
        # re-run once in fresh processes and reported as undecided if that happens again
        now = time.time()
        for r in list(running):
            pr, pl, got, t_start, attempt = running[r]
            if now - t_start > job_timeout * len(pl) + 90:
                try:
                    pr.kill()
                except Exception:
                    pass
                running.pop(r)
                r.close()
                pr.join(timeout=5)
                for payload in pl:
                    if payload[2] in got:
                        continue
                    if attempt == 0:
                        pending.append(([payload], 1))
                    else:
                        yield (payload[2], [rec(payload[2], "unknown", now - t_start, detail=f"job killed after {int(now - t_start)}s (solver call did not return); re-run once, killed again")], {}, {})


# --------------------------------------------------------------------------
# replay (fresh subprocess, unpatched library)


def write_replay(prop, oid, kind, inputs, extra=None):
    os.makedirs(os.path.join(ROOT, "replays"), exist_ok=True)
    body = {"property": prop, "obligation": oid, "kind": kind, "inputs": inputs}
    if extra:
        body.update(extra)
    h = hashlib.sha1(json.dumps(body, sort_keys=True, default=str).encode()).hexdigest()[:10]
    safe = "".join(c if c.isalnum() or c in "-_." else "_" for c in oid)[:80]
    path = os.path.join(ROOT, "replays", f"{prop}-{safe}-{h}.json")
    body["how_to_run"] = f"./vcheck {prop} --replay {path}"
    with open(path, "w") as f:
        json.dump(body, f, indent=1, default=str)
    return path


def run_replay(path, timeout=300):
    """Returns (reproduced: bool|None, detail). None = replay itself failed."""
    py = sys.executable
    env = dict(os.environ)
    pp = ROOT + os.pathsep + env.get("PYTHONPATH", "")
    if os.environ.get("VERIF_REPO"):
        pp = os.path.join(os.environ["VERIF_REPO"], "src") + os.pathsep + pp
    env["PYTHONPATH"] = pp
    try:
        p = subprocess.run([py, "-m", "symgs.replay", path], capture_output=True, text=True, timeout=timeout, env=env, cwd=ROOT)
    except subprocess.TimeoutExpired:
        return None, "replay timeout"
    out = (p.stdout + p.stderr).strip().splitlines()
    out = [l for l in out if "conda.cli" not in l]
    tail = " | ".join(out[-3:])
    if p.returncode == 1:
        return True, tail
    if p.returncode == 0:
        return False, tail
    return None, tail


# --------------------------------------------------------------------------
# known findings


def load_known():
    path = os.path.join(ROOT, "known_findings.jsonl")
    out = []
    if os.path.exists(path):
        for line in open(path):
            line = line.strip()
            if line and not line.startswith("#"):
                out.append(json.loads(line))
    return out


def match_known(known, prop, oid):
    for k in known:
        if k.get("property") == prop and k.get("status") == "open":
            pat = k.get("obligation", "")
            if pat and (oid == pat or fnmatch.fnmatchcase(oid, pat)):
                return k
    return None


# --------------------------------------------------------------------------
# source hashing (evidence: what was encoded)


def src_hash(relpaths):
    h = hashlib.sha1()
    for r in relpaths:
        p = os.path.join(REPO, r)
        try:
            h.update(open(p, "rb").read())
        except OSError:
            h.update(b"missing:" + r.encode())
    return h.hexdigest()[:12]


def write_evidence(prop, tier, seed, level, coverage, assumptions, wall, violations):
    # runs against another source tree (VERIF_REPO: seeded changes in scratch worktrees) must not overwrite the evidence of /repo
    evdir = os.path.join(ROOT, "evidence") if not os.environ.get("VERIF_REPO") else os.path.join(ROOT, "scratch", "evidence_other_tree")
    os.makedirs(evdir, exist_ok=True)
    ev = {
        "property_id": prop,
        "tier": tier,
        "seed": int(seed),
        "level": level,
        "coverage": coverage,
        "assumptions": assumptions,
        "wall_s": round(wall, 2),
        "violations": int(violations),
    }
    path = os.path.join(evdir, f"{prop}.json")
    tmp = path + ".tmp"
    with open(tmp, "w") as f:
        json.dump(ev, f, indent=1, default=str)
    os.replace(tmp, path)
    return path

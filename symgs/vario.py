"""Bridge E1 <-> E2: the compiled variogram / summation / kriging kernels are replaced, inside the
symbolically executed Python wrappers, by the symbolic interpretation (E2) of their .pyx source."""
import math

import numpy as rnp
import z3

from . import kernel
from .kernel import FV, Arr
from .sym import Sym, SymBool, lift

_CACHE = {}


def interp(key):
    from .props.c15 import PYX

    if key not in _CACHE:
        _CACHE[key] = kernel.load(PYX[key])
    return _CACHE[key]


def to_arr(a, nanable=False, kind="double"):
    a = rnp.asarray(a)
    data = []
    for x in a.ravel():
        if isinstance(x, Sym):
            data.append(FV(x.e, False) if nanable else x.e)
        elif kind == "int":
            data.append(int(x))
        else:
            xf = float(x)
            if xf != xf:
                if not nanable:
                    raise ValueError("NaN in a kernel argument that cannot hold NaN")
                data.append(FV(z3.RealVal(0), True))
            else:
                data.append(FV(kernel.tz(xf), False) if nanable else kernel.nice_fraction(xf))
    return Arr(a.shape, data, kind=kind)


def from_val(v, as_int=False):
    if isinstance(v, FV):
        if v.nan is not False and not (isinstance(v.nan, bool)):
            # NaN flag must be decided false by the obligations that consume the value
            return Sym(z3.If(v.nan, z3.RealVal(0), kernel.treal(v.val))) if z3.is_expr(v.nan) else Sym(kernel.treal(v.val))
        v = v.val
    if isinstance(v, z3.ExprRef):
        return Sym(kernel.treal(v))
    from fractions import Fraction

    if isinstance(v, Fraction):
        return float(v) if v.denominator == 1 or float(v) == v else Sym(kernel.tz(v))
    return int(v) if as_int and not isinstance(v, float) else v


def from_arr(arr, shape=None):
    out = rnp.empty(len(arr.tolist()) if arr.shape else 1, dtype=object)
    for i, v in enumerate(arr.tolist()):
        out[i] = from_val(v)
    return out.reshape(arr.shape if shape is None else shape)


def unstructured(field, bin_edges, pos, estimator_type="m", distance_type="e", num_threads=None):
    I = interp("estimator")
    v, c = I.call("unstructured", [to_arr(field, True), to_arr(bin_edges), to_arr(pos), estimator_type, distance_type, None])
    return from_arr(v), from_arr(c)


def directional(field, bin_edges, pos, direction, angles_tol=math.pi / 8.0, bandwidth=-1.0, separate_dirs=False, estimator_type="m", num_threads=None):
    I = interp("estimator")
    tol = lift(angles_tol) if isinstance(angles_tol, Sym) else angles_tol
    bw = lift(bandwidth) if isinstance(bandwidth, Sym) else bandwidth
    v, c = I.call("directional", [to_arr(field, True), to_arr(bin_edges), to_arr(pos), to_arr(direction), tol, bw, bool(separate_dirs), estimator_type, None])
    return from_arr(v), from_arr(c)


def structured(field, estimator_type="m", num_threads=None):
    I = interp("estimator")
    return from_arr(I.call("structured", [to_arr(field), estimator_type, None]))


def ma_structured(field, mask, estimator_type="m", num_threads=None):
    I = interp("estimator")
    f = rnp.asarray(rnp.ma.getdata(field))
    # masked cells may hold NaN: their value is irrelevant (guarded by the mask) -> 0
    f2 = rnp.empty(f.shape, dtype=object)
    for idx, x in rnp.ndenumerate(f):
        f2[idx] = 0.0 if (not isinstance(x, Sym) and float(x) != float(x)) else x
    return from_arr(I.call("ma_structured", [to_arr(f2), to_arr(rnp.asarray(mask).astype(int), kind="int"), estimator_type, None]))


def install_variogram_stubs():
    from gstools.variogram import variogram as vv

    vv.unstructured_c = unstructured
    vv.directional_c = directional
    vv.structured_c = structured
    vv.ma_structured_c = ma_structured


def summate(cov_samples, z_1, z_2, pos, num_threads=None):
    return from_arr(interp("summator").call("summate", [to_arr(cov_samples), to_arr(z_1), to_arr(z_2), to_arr(pos), None]))


def summate_incompr(cov_samples, z_1, z_2, pos, num_threads=None):
    return from_arr(interp("summator").call("summate_incompr", [to_arr(cov_samples), to_arr(z_1), to_arr(z_2), to_arr(pos), None]))


def summate_fourier(spectrum_factor, modes, z_1, z_2, pos, num_threads=None):
    return from_arr(interp("summator").call("summate_fourier", [to_arr(spectrum_factor), to_arr(modes), to_arr(z_1), to_arr(z_2), to_arr(pos), None]))


def calc_field_krige_and_variance(krig_mat, krig_vecs, cond, num_threads=None):
    f, e = interp("krigesum").call("calc_field_krige_and_variance", [to_arr(krig_mat), to_arr(krig_vecs), to_arr(cond), None])
    return from_arr(f), from_arr(e)


def calc_field_krige(krig_mat, krig_vecs, cond, num_threads=None):
    return from_arr(interp("krigesum").call("calc_field_krige", [to_arr(krig_mat), to_arr(krig_vecs), to_arr(cond), None]))

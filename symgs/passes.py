"""Equivalence-preserving preprocessing passes on z3 real terms.

* ``Poly``: sum-of-monomials normal form over *atoms* (every non-polynomial
  subterm is an opaque atom; atoms are hash-consed z3 ASTs).
* ``trig_reduce``: normal form modulo the circle ideals  s_i^2 + c_i^2 - 1
  (sin^2 -> 1 - cos^2 is a Groebner basis for independent angles, so the
  normal form is unique) with parity normalisation of negated arguments.
* ``diff``: symbolic differentiation of a term DAG.

The passes only rewrite; the residual is still sent to the solver.
"""
from fractions import Fraction

import z3

from .theory import UF, _neg_of

RS = z3.RealSort()


def _q(v):
    return Fraction(v.numerator_as_long(), v.denominator_as_long())


class Poly:
    """dict: monomial (sorted tuple of (atom_id, power)) -> Fraction"""

    def __init__(self, terms=None, atoms=None):
        self.t = terms or {}
        self.atoms = atoms if atoms is not None else {}

    @staticmethod
    def const(c, atoms):
        c = Fraction(c)
        return Poly({(): c} if c else {}, atoms)

    @staticmethod
    def atom(a, atoms):
        atoms[a.get_id()] = a
        return Poly({((a.get_id(), 1),): Fraction(1)}, atoms)

    def __add__(self, o):
        r = dict(self.t)
        for m, c in o.t.items():
            v = r.get(m, 0) + c
            if v:
                r[m] = v
            else:
                r.pop(m, None)
        return Poly(r, self.atoms)

    def scale(self, k):
        if not k:
            return Poly({}, self.atoms)
        return Poly({m: c * k for m, c in self.t.items()}, self.atoms)

    def __neg__(self):
        return self.scale(-1)

    def __sub__(self, o):
        return self + (-o)

    def __mul__(self, o):
        r = {}
        for m1, c1 in self.t.items():
            d1 = dict(m1)
            for m2, c2 in o.t.items():
                d = dict(d1)
                for a, p in m2:
                    d[a] = d.get(a, 0) + p
                m = tuple(sorted(d.items()))
                v = r.get(m, 0) + c1 * c2
                if v:
                    r[m] = v
                else:
                    r.pop(m, None)
        return Poly(r, self.atoms)

    def __pow__(self, n):
        r = Poly.const(1, self.atoms)
        for _ in range(n):
            r = r * self
        return r

    def is_zero(self):
        return not self.t

    def is_const(self):
        return all(m == () for m in self.t)

    def to_z3(self):
        if not self.t:
            return z3.RealVal(0)
        out = []
        for m, c in sorted(self.t.items(), key=lambda kv: str(kv[0])):
            term = z3.RealVal(str(c))
            for a, p in m:
                for _ in range(p):
                    term = term * self.atoms[a]
            out.append(term)
        return z3.Sum(out) if len(out) > 1 else out[0]


def to_poly(e, atoms=None, cache=None, atom_map=None):
    """Polynomial normal form of a z3 real term over opaque atoms.

    atom_map: optional function z3 atom -> Poly (for trig parity etc.)."""
    atoms = atoms if atoms is not None else {}
    cache = cache if cache is not None else {}

    def rec(t):
        i = t.get_id()
        if i in cache:
            return cache[i]
        r = None
        if z3.is_rational_value(t):
            r = Poly.const(_q(t), atoms)
        elif z3.is_app(t):
            k = t.decl().kind()
            ch = t.children()
            if k == z3.Z3_OP_ADD:
                r = Poly.const(0, atoms)
                for c in ch:
                    r = r + rec(c)
            elif k == z3.Z3_OP_SUB:
                r = rec(ch[0])
                for c in ch[1:]:
                    r = r - rec(c)
            elif k == z3.Z3_OP_UMINUS:
                r = -rec(ch[0])
            elif k == z3.Z3_OP_MUL:
                r = Poly.const(1, atoms)
                for c in ch:
                    r = r * rec(c)
            elif k == z3.Z3_OP_DIV:
                d = rec(ch[1])
                if d.is_const() and not d.is_zero():
                    r = rec(ch[0]).scale(1 / d.t[()])
                else:
                    # n / d  ->  n * inv(d) with inv(d) an atom
                    # n / d  ==  n * inv(d); for a single-monomial d the inverse is the
                    # product of inverse atoms, registered so that x*inv(x) cancels
                    # (valid where x != 0: callers must have x != 0 among their conditions)
                    if len(d.t) == 1:
                        (mono, coef), = d.t.items()
                        r = rec(ch[0]).scale(1 / coef)
                        for a, pw in mono:
                            ia = 1 / atoms[a]
                            atoms[ia.get_id()] = ia
                            atoms.setdefault("__inv__", {})[a] = ia.get_id()
                            r = r * Poly({((ia.get_id(), pw),): Fraction(1)}, atoms)
                    else:
                        r = rec(ch[0]) * Poly.atom(1 / ch[1], atoms)
            elif k == z3.Z3_OP_POWER and z3.is_rational_value(ch[1]) and _q(ch[1]).denominator == 1 and 0 <= _q(ch[1]) <= 16:
                r = rec(ch[0]) ** int(_q(ch[1]))
            elif k == z3.Z3_OP_TO_REAL and z3.is_int_value(ch[0]):
                r = Poly.const(ch[0].as_long(), atoms)
        if r is None:
            if atom_map is not None:
                r = atom_map(t, atoms, rec)
            if r is None:
                r = Poly.atom(t, atoms)
        cache[i] = r
        return r

    return rec(e)


def cancel_inverses(p):
    """x * inv(x) -> 1 for registered inverse atoms; returns (poly, [z3 atoms assumed != 0])."""
    inv = p.atoms.get("__inv__", {})
    if not inv:
        return p, []
    used = set()
    out = Poly({}, p.atoms)
    for m, c in p.t.items():
        d = dict(m)
        for x, ix in inv.items():
            if x in d and ix in d:
                k = min(d[x], d[ix])
                d[x] -= k
                d[ix] -= k
                used.add(x)
        m2 = tuple(sorted((a, q) for a, q in d.items() if q > 0))
        out = out + Poly({m2: c}, p.atoms)
    return out, [p.atoms[x] for x in used]


def _trig_atom(t, atoms, rec):
    """parity normalisation: sin(-u) -> -sin(u), cos(-u) -> cos(u); arguments are
    brought to z3's simplified form so that syntactic variants coincide."""
    if z3.is_app(t) and t.decl().kind() == z3.Z3_OP_UNINTERPRETED and t.decl().name() in ("sin", "cos") and t.num_args() == 1:
        name = t.decl().name()
        arg = z3.simplify(t.arg(0))
        if z3.is_rational_value(arg) and _q(arg) == 0:
            return Poly.const(0 if name == "sin" else 1, atoms)
        u = _neg_of(arg)
        if u is not None:
            if name == "sin":
                return -Poly.atom(UF["sin"](u), atoms)
            return Poly.atom(UF["cos"](u), atoms)
        return Poly.atom(UF[name](arg), atoms)
    return None


def trig_reduce(p):
    """Reduce powers of sin atoms with sin(u)^2 = 1 - cos(u)^2."""
    atoms = p.atoms
    # map sin-atom id -> cos-atom id
    pair = {}
    for i, a in list(atoms.items()):
        if z3.is_app(a) and a.decl().kind() == z3.Z3_OP_UNINTERPRETED and a.decl().name() == "sin":
            c = UF["cos"](a.arg(0))
            atoms[c.get_id()] = c
            pair[i] = c.get_id()
    changed = True
    while changed:
        changed = False
        out = Poly({}, atoms)
        for m, c in p.t.items():
            hit = None
            for a, pw in m:
                if a in pair and pw >= 2:
                    hit = (a, pw)
                    break
            if hit is None:
                out = out + Poly({m: c}, atoms)
                continue
            changed = True
            a, pw = hit
            rest = tuple((x, q) for x, q in m if x != a)
            base = Poly({rest: c}, atoms)
            if pw - 2 > 0:
                base = base * Poly({((a, pw - 2),): Fraction(1)}, atoms)
            one_minus_c2 = Poly({(): Fraction(1), ((pair[a], 2),): Fraction(-1)}, atoms)
            out = out + base * one_minus_c2
        p = out
    return p


def trig_normal_form(e, nonzero=None):
    """normal form modulo circle ideals; inverse atoms are cancelled and the atoms
    that must be non-zero for that are appended to ``nonzero`` (if given)."""
    p = to_poly(e, atom_map=_trig_atom)
    p, nz = cancel_inverses(p)
    if nonzero is not None:
        nonzero.extend(nz)
    elif nz:
        raise ValueError("inverse cancellation needs a nonzero list")
    return trig_reduce(p)


# --------------------------------------------------------------------------
# symbolic differentiation


def diff(e, x, cache=None):
    """d e / d x for z3 real terms (x a z3 Real constant)."""
    cache = cache if cache is not None else {}
    xid = x.get_id()

    ZERO = z3.RealVal(0)

    def zero(v):
        return z3.is_rational_value(v) and v.numerator_as_long() == 0

    def D(t):
        i = t.get_id()
        if i in cache:
            return cache[i]
        r = _D(t)
        if not zero(r):
            rs = z3.simplify(r)
            if zero(rs):
                r = ZERO
        cache[i] = r
        return r

    def _D(t):
        if t.get_id() == xid:
            return z3.RealVal(1)
        if z3.is_rational_value(t) or z3.is_int_value(t):
            return z3.RealVal(0)
        if not z3.is_app(t):
            raise NotImplementedError(str(t)[:80])
        if z3.is_const(t):
            return z3.RealVal(0)
        k = t.decl().kind()
        ch = t.children()
        if k == z3.Z3_OP_ADD:
            return z3.Sum([D(c) for c in ch])
        if k == z3.Z3_OP_SUB:
            r = D(ch[0])
            for c in ch[1:]:
                r = r - D(c)
            return r
        if k == z3.Z3_OP_UMINUS:
            return -D(ch[0])
        if k == z3.Z3_OP_MUL:
            out = []
            for j in range(len(ch)):
                dj = D(ch[j])
                if z3.is_rational_value(dj) and _q(dj) == 0:
                    continue
                term = dj
                for l in range(len(ch)):
                    if l != j:
                        term = term * ch[l]
                out.append(term)
            return z3.Sum(out) if out else z3.RealVal(0)
        if k == z3.Z3_OP_DIV:
            n, d = ch
            dn, dd = D(n), D(d)
            if zero(dn) and zero(dd):
                return ZERO
            if zero(dd):
                return dn / d
            return (dn * d - n * dd) / (d * d)
        if k == z3.Z3_OP_POWER and z3.is_rational_value(ch[1]):
            q = ch[1]
            return q * (ch[0] ** (q - 1)) * D(ch[0])
        if k == z3.Z3_OP_TO_REAL:
            return z3.RealVal(0)
        if k == z3.Z3_OP_ITE:
            return z3.If(ch[0], D(ch[1]), D(ch[2]))
        if k == z3.Z3_OP_UNINTERPRETED:
            n = t.decl().name()
            u = ch[0]
            if all(zero(D(c)) for c in ch):
                return ZERO  # constant argument(s): no 0/x artefacts
            if n == "exp":
                return t * D(u)
            if n == "log":
                return D(u) / u
            if n == "sqrt":
                return D(u) / (2 * t)
            if n == "sin":
                return UF["cos"](u) * D(u)
            if n == "cos":
                return -UF["sin"](u) * D(u)
            if n == "arctan":
                return D(u) / (1 + u * u)
            if n == "erf":
                from .theory import PI

                return 2 / UF["sqrt"](PI) * UF["exp"](-(u * u)) * D(u)
            if n == "cbrt":
                return D(u) / (3 * t * t)
            if n == "pow":
                b, ex = ch
                db, de = D(b), D(ex)
                if zero(z3.simplify(de)):
                    return ex * UF["pow"](b, ex - 1) * db
                return t * (de * UF["log"](b) + ex * db / b)
        raise NotImplementedError(f"diff of {t.decl().name()}")

    return z3.simplify(D(e))


def reduced_eq_goal(lhs, rhs):
    """goal (z3 Bool) equivalent to lhs == rhs: residual of the difference modulo
    the circle ideals, with the non-zero side conditions of cancelled inverses
    as conjuncts (so they must follow from the obligation's conditions)."""
    nz = []
    p = trig_normal_form(lhs - rhs, nonzero=nz)
    goal = p.to_z3() == 0
    if nz:
        goal = z3.And([a != 0 for a in nz] + [goal])
    return goal, len(p.t)

"""Theory pack: uninterpreted real functions + sound axiom instantiation.

Every axiom emitted here is a true statement about the corresponding real
function, so `unsat` under these axioms means the negated property has no
real counterexample.  Instantiation is finite and syntactic (incomplete).
"""
import math

import z3

RS = z3.RealSort()


def _uf(name, n):
    return z3.Function(name, *([RS] * (n + 1)))


UF = {
    n: _uf(n, 1)
    for n in (
        "sqrt exp log sin cos arcsin arccos arctan erf erfc erfinv gamma loggamma "
        "exp1 cbrt Phi"
    ).split()
}
UF.update(
    {
        n: _uf(n, 2)
        for n in "pow arctan2 kv jv gammainc gammaincc expn beta incgamma_up".split()
    }
)
UF["hyp2f1"] = _uf("hyp2f1", 4)
UF["quadcor"] = _uf("quadcor", 1)  # placeholder for opaque integrals

PI = z3.Real("pi")
PI_FACTS = [PI > z3.RealVal("3.1415926"), PI < z3.RealVal("3.1415927")]
EULER_E = z3.Real("euler_e")

DECLS = {f.name(): f for f in UF.values()}


def _sp(name):
    import scipy.special as sps

    return getattr(sps, name)


def _cbrt(x):
    return math.copysign(abs(x) ** (1.0 / 3.0), x)


CONCRETE = {
    "sqrt": math.sqrt,
    "exp": math.exp,
    "log": math.log,
    "sin": math.sin,
    "cos": math.cos,
    "arcsin": math.asin,
    "arccos": math.acos,
    "arctan": math.atan,
    "arctan2": math.atan2,
    "erf": math.erf,
    "erfc": math.erfc,
    "cbrt": _cbrt,
    "pow": lambda a, b: float(a) ** float(b),
    "erfinv": lambda x: float(_sp("erfinv")(x)),
    "gamma": lambda x: float(_sp("gamma")(x)),
    "loggamma": lambda x: float(_sp("loggamma")(x).real),
    "exp1": lambda x: float(_sp("exp1")(x)),
    "kv": lambda a, b: float(_sp("kv")(a, b)),
    "jv": lambda a, b: float(_sp("jv")(a, b)),
    "gammainc": lambda a, b: float(_sp("gammainc")(a, b)),
    "gammaincc": lambda a, b: float(_sp("gammaincc")(a, b)),
    "expn": lambda a, b: float(_sp("expn")(a, b)),
    "beta": lambda a, b: float(_sp("beta")(a, b)),
    "hyp2f1": lambda a, b, c, d: float(_sp("hyp2f1")(a, b, c, d)),
    "Phi": lambda x: 0.5 * (1.0 + math.erf(x / math.sqrt(2.0))),
}


def collect_apps(terms, seen_ids, out):
    """Collect applications of theory functions in the term DAGs.

    ``seen_ids`` maps AST id -> term: the reference keeps the AST alive, so its
    id cannot be recycled by z3 for a different term."""
    stack = list(terms)
    while stack:
        t = stack.pop()
        i = t.get_id()
        if i in seen_ids:
            continue
        seen_ids[i] = t
        if z3.is_app(t):
            d = t.decl()
            if d.kind() == z3.Z3_OP_UNINTERPRETED and t.num_args() > 0:
                if d.name() in DECLS:
                    out.append(t)
            stack.extend(t.children())
        elif z3.is_quantifier(t):
            stack.append(t.body())
    return out


def _mentions_pi(t, cache):
    i = t.get_id()
    if i in cache:
        return cache[i][0]
    r = False
    if z3.is_const(t) and t.decl().kind() == z3.Z3_OP_UNINTERPRETED:
        r = t.decl().name() == "pi"
    else:
        r = any(_mentions_pi(c, cache) for c in t.children())
    cache[i] = (r, t)  # keep t alive: ids of freed ASTs are recycled
    return r


def _neg_of(t):
    """if t is syntactically -(u) or (-1)*u return u else None."""
    if z3.is_app(t):
        k = t.decl().kind()
        if k == z3.Z3_OP_UMINUS:
            return t.arg(0)
        if k == z3.Z3_OP_MUL and t.num_args() == 2:
            a, b = t.arg(0), t.arg(1)
            if z3.is_rational_value(a) and a.numerator_as_long() == -1 and a.denominator_as_long() == 1:
                return b
    return None


def _sum_split(t):
    """if t is syntactically a + b (+ ...) or a - b return (a, rest) else None."""
    if z3.is_app(t):
        k = t.decl().kind()
        if k == z3.Z3_OP_ADD and t.num_args() >= 2:
            ch = t.children()
            rest = ch[1] if len(ch) == 2 else z3.Sum(ch[1:])
            return ch[0], rest
        if k == z3.Z3_OP_SUB and t.num_args() == 2:
            return t.arg(0), -t.arg(1)
    return None


class Instantiator:
    """Incremental axiom instantiation for the terms of one path / query."""

    def __init__(self, pairwise=True, structural=True, deep_gen=1):
        self.deep_gen = deep_gen
        self.seen_terms = {}  # id -> term (kept alive)
        self.done_apps = {}  # id -> (generation, term)
        self.apps_by_fn = {}
        self.pi_added = False
        self.pairwise = pairwise
        self.structural = structural
        self.count = 0
        self.names = set()
        self._pi_cache = {}

    # -- public
    def new_axioms(self, terms, gen=0):
        out = []
        apps = collect_apps(terms, self.seen_terms, [])
        if not self.pi_added and any(_mentions_pi(t, self._pi_cache) for t in terms):
            self.pi_added = True
            out += PI_FACTS
            self.names.add("pi bounds")
        work = [(a, gen) for a in apps]
        while work:
            a, g = work.pop()
            if a.get_id() in self.done_apps:
                continue
            self.done_apps[a.get_id()] = (g, a)
            axs = self._axioms_for(a, g)
            fn = a.decl().name()
            if self.pairwise and g <= self.deep_gen:
                axs += self._pairwise(fn, a)
            self.apps_by_fn.setdefault(fn, []).append(a)
            out += axs
            if axs:
                new = collect_apps(axs, self.seen_terms, [])
                work += [(n, g + 1) for n in new]
                if not self.pi_added and any(_mentions_pi(t, self._pi_cache) for t in axs):
                    self.pi_added = True
                    out += PI_FACTS
        self.count += len(out)
        return out

    # -- unary / structural axioms of one application
    def _axioms_for(self, a, g):
        fn = a.decl().name()
        x = a.arg(0)
        ax = []
        N = self.names.add
        deep = g <= self.deep_gen and self.structural
        if fn == "sqrt":
            ax.append(z3.Implies(x >= 0, z3.And(a >= 0, a * a == x)))
            N("sqrt: x>=0 => sqrt(x)>=0 and sqrt(x)^2=x")
        elif fn == "cbrt":
            ax.append(a * a * a == x)
            N("cbrt(x)^3=x")
        elif fn == "exp":
            ax += [a > 0, a >= 1 + x, z3.Implies(x == 0, a == 1), z3.Implies(x < 1, a * (1 - x) <= 1)]
            N("exp: >0, >=1+x, exp(0)=1, exp(x)<=1/(1-x) for x<1")
            if deep:
                ax.append(UF["log"](a) == x)
                N("log(exp x)=x")
                sp = _sum_split(x)
                if sp is not None:
                    ax.append(a == UF["exp"](sp[0]) * UF["exp"](sp[1]))
                    N("exp(a+b)=exp(a)exp(b)")
                ng = _neg_of(x)
                if ng is not None:
                    ax.append(a * UF["exp"](ng) == 1)
                    N("exp(-a)exp(a)=1")
        elif fn == "log":
            ax += [z3.Implies(x > 0, a <= x - 1), z3.Implies(x == 1, a == 0), z3.Implies(z3.And(x > 0, x < 1), a < 0), z3.Implies(x > 1, a > 0)]
            N("log: log x<=x-1, log 1=0, sign")
            if deep:
                ax.append(z3.Implies(x > 0, UF["exp"](a) == x))
                N("x>0 => exp(log x)=x")
                if z3.is_app(x) and x.decl().name() == "sqrt":
                    ax.append(z3.Implies(x.arg(0) > 0, 2 * a == UF["log"](x.arg(0))))
                    N("t>0 => log(sqrt t)=log(t)/2")
        elif fn in ("sin", "cos"):
            s, c = UF["sin"](x), UF["cos"](x)
            ax += [s * s + c * c == 1, s <= 1, s >= -1, c <= 1, c >= -1]
            ax += [z3.Implies(x == 0, z3.And(s == 0, c == 1))]
            N("sin^2+cos^2=1, ranges, values at 0")
            if deep:
                ng = _neg_of(x)
                if ng is not None:
                    ax += [s == -UF["sin"](ng), c == UF["cos"](ng)]
                    N("sin/cos parity")
                sp = _sum_split(x)
                if sp is not None:
                    p, q = sp
                    ax += [
                        s == UF["sin"](p) * UF["cos"](q) + UF["cos"](p) * UF["sin"](q),
                        c == UF["cos"](p) * UF["cos"](q) - UF["sin"](p) * UF["sin"](q),
                    ]
                    N("angle addition")
                if _mentions_pi(x, self._pi_cache):
                    ax += [
                        z3.Implies(x == PI, z3.And(s == 0, c == -1)),
                        z3.Implies(x == PI / 2, z3.And(s == 1, c == 0)),
                        z3.Implies(x == -PI / 2, z3.And(s == -1, c == 0)),
                        z3.Implies(z3.And(x > 0, x < PI), s > 0),
                        z3.Implies(z3.And(x > -PI / 2, x < PI / 2), c > 0),
                    ]
                    N("sin/cos special values and signs on principal ranges")
        elif fn == "arcsin":
            inr = z3.And(x >= -1, x <= 1)
            ax += [
                z3.Implies(inr, z3.And(a >= -PI / 2, a <= PI / 2, UF["sin"](a) == x, UF["cos"](a) >= 0)),
                z3.Implies(x == 0, a == 0),
                z3.Implies(x == 1, a == PI / 2),
                z3.Implies(x == -1, a == -PI / 2),
                z3.Implies(z3.And(x >= 0, x <= 1), a >= 0),
                z3.Implies(z3.And(x <= 0, x >= -1), a <= 0),
            ]
            N("arcsin principal range, sin(arcsin x)=x, sign")
        elif fn == "arccos":
            inr = z3.And(x >= -1, x <= 1)
            ax += [
                z3.Implies(inr, z3.And(a >= 0, a <= PI, UF["cos"](a) == x, UF["sin"](a) >= 0)),
                z3.Implies(x == 1, a == 0),
                z3.Implies(x == 0, a == PI / 2),
                z3.Implies(x == -1, a == PI),
                z3.Implies(z3.And(x >= 0, x <= 1), a <= PI / 2),
                z3.Implies(z3.And(x <= 0, x >= -1), a >= PI / 2),
            ]
            N("arccos principal range, cos(arccos x)=x, side of pi/2 by the sign of x")
        elif fn == "arctan":
            ax += [a > -PI / 2, a < PI / 2, UF["sin"](a) == x * UF["cos"](a), UF["cos"](a) > 0, z3.Implies(x == 0, a == 0)]
            N("arctan principal range, tan(arctan x)=x")
        elif fn == "arctan2":
            y, xx = a.arg(0), a.arg(1)
            r = UF["sqrt"](xx * xx + y * y)
            ax += [
                z3.Implies(z3.Or(xx != 0, y != 0), z3.And(a > -PI, a <= PI, xx == r * UF["cos"](a), y == r * UF["sin"](a), r > 0)),
                z3.Implies(z3.And(xx == 0, y == 0), a == 0),
            ]
            N("arctan2: polar decomposition on (-pi,pi]; atan2(0,0)=0 (C99 / numpy convention for +0)")
        elif fn == "erf":
            ax += [a < 1, a > -1, z3.Implies(x == 0, a == 0), z3.Implies(x > 0, a > 0), z3.Implies(x < 0, a < 0)]
            N("erf: range, sign")
            if deep:
                ax.append(UF["erfinv"](a) == x)
                N("erfinv(erf x)=x")
                ng = _neg_of(x)
                if ng is not None:
                    ax.append(a == -UF["erf"](ng))
                    N("erf odd")
        elif fn == "erfc":
            ax += [a == 1 - UF["erf"](x)]
            N("erfc=1-erf")
        elif fn == "erfinv":
            ax += [z3.Implies(z3.And(x > -1, x < 1), UF["erf"](a) == x), z3.Implies(x == 0, a == 0)]
            N("erf(erfinv t)=t on (-1,1)")
        elif fn == "Phi":
            ax += [a > 0, a < 1, z3.Implies(x == 0, a == z3.RealVal("1/2"))]
            N("Phi: range, Phi(0)=1/2")
        elif fn == "gamma":
            ax += [z3.Implies(x > 0, a > 0), z3.Implies(x == 1, a == 1), z3.Implies(x == 2, a == 1)]
            N("gamma>0 on x>0, gamma(1)=gamma(2)=1")
            if deep:
                ax += [z3.Implies(x > 0, UF["gamma"](x + 1) == x * a)]
                ax += [z3.Implies(x > 0, UF["exp"](UF["loggamma"](x)) == a)]
                N("gamma(x+1)=x gamma(x); exp(loggamma)=gamma")
                if z3.is_rational_value(z3.simplify(x * 2)) or True:
                    ax += [z3.Implies(x == z3.RealVal("1/2"), a * a == PI), z3.Implies(x == z3.RealVal("3/2"), 4 * a * a == PI)]
                    N("gamma(1/2)^2=pi")
        elif fn == "loggamma":
            if deep:
                ax += [z3.Implies(x > 0, UF["exp"](a) == UF["gamma"](x))]
                N("exp(loggamma x)=gamma x")
        elif fn == "pow":
            b, e = a.arg(0), a.arg(1)
            ax += [
                z3.Implies(b > 0, a > 0),
                z3.Implies(z3.And(b == 0, e > 0), a == 0),
                z3.Implies(e == 0, a == 1),
                z3.Implies(e == 1, a == b),
                z3.Implies(e == 2, a == b * b),
                z3.Implies(b == 1, a == 1),
                z3.Implies(z3.And(e == -1, b != 0), a * b == 1),
                z3.Implies(z3.And(e == z3.RealVal("1/3"), b >= 0), z3.And(a >= 0, a * a * a == b)),
                z3.Implies(z3.And(e == z3.RealVal("1/2"), b >= 0), z3.And(a >= 0, a * a == b)),
            ]
            ax += [
                z3.Implies(z3.And(b >= 1, e <= 0), a <= 1),
                z3.Implies(z3.And(b >= 1, e >= 0), a >= 1),
                z3.Implies(z3.And(b > 0, b <= 1, e >= 0), a <= 1),
                z3.Implies(z3.And(b > 0, b <= 1, e <= 0), a >= 1),
            ]
            N("pow: positivity, 0^a=0 (a>0), x^0=1, x^1=x, x^2, 1^a=1, x^-1=1/x; x^a vs 1 by the sides of x and a")
            if deep:
                ax.append(z3.Implies(b > 0, a == UF["exp"](e * UF["log"](b))))
                N("x>0 => pow(x,a)=exp(a log x)")
        elif fn in ("gammainc", "gammaincc"):
            s, xx = a.arg(0), a.arg(1)
            ax += [z3.Implies(z3.And(s > 0, xx >= 0), z3.And(a >= 0, a <= 1))]
            ax += [z3.Implies(z3.And(s > 0, xx >= 0), UF["gammainc"](s, xx) + UF["gammaincc"](s, xx) == 1)]
            ax += [z3.Implies(z3.And(s > 0, xx == 0), UF["gammainc"](s, xx) == 0)]
            N("regularised incomplete gamma: range, P+Q=1, P(s,0)=0")
        elif fn == "beta":
            p, q = a.arg(0), a.arg(1)
            ax += [z3.Implies(z3.And(p > 0, q > 0), z3.And(a > 0, a * UF["gamma"](p + q) == UF["gamma"](p) * UF["gamma"](q)))]
            N("beta(a,b)=G(a)G(b)/G(a+b)")
        elif fn == "hyp2f1":
            aa, bb, cc, zz = a.arg(0), a.arg(1), a.arg(2), a.arg(3)
            # Gauss: 2F1(a,b;c;1) = G(c)G(c-a-b)/(G(c-a)G(c-b)) > 0 for a=1/2, c=3/2, b<=0
            ax += [z3.Implies(z3.And(aa == z3.RealVal("1/2"), cc == z3.RealVal("3/2"), bb <= 0, zz == 1), a > 0)]
            ax += [z3.Implies(zz == 0, a == 1)]
            N("2F1(1/2,b;3/2;1)>0 for b<=0 (Gauss summation); 2F1(.;0)=1")
        elif fn == "kv":
            nu, xx = a.arg(0), a.arg(1)
            ax += [z3.Implies(xx > 0, a > 0)]
            N("K_nu(x)>0 for x>0")
        elif fn == "exp1":
            ax += [z3.Implies(x > 0, a > 0)]
            N("E1(x)>0 for x>0")
        elif fn == "expn":
            n, xx = a.arg(0), a.arg(1)
            ax += [z3.Implies(z3.And(xx > 0), a > 0)]
            N("E_n(x)>0 for x>0")
        return ax

    _MONO = {
        "exp": +1,
        "log": +1,
        "sqrt": +1,
        "erf": +1,
        "erfinv": +1,
        "arctan": +1,
        "arcsin": +1,
        "arccos": -1,
        "cbrt": +1,
        "Phi": +1,
    }
    _DOM = {
        "log": lambda x: x > 0,
        "sqrt": lambda x: x >= 0,
        "erfinv": lambda x: z3.And(x > -1, x < 1),
        "arcsin": lambda x: z3.And(x >= -1, x <= 1),
        "arccos": lambda x: z3.And(x >= -1, x <= 1),
    }

    def _trig_pairs(self, a):
        """injectivity / monotonicity of sin and cos on their principal ranges (pairwise over arguments)"""
        x = a.arg(0)
        args = self.__dict__.setdefault("trig_args", {})
        if x.get_id() in args or len(args) > 8:
            return []
        out = []
        sx, cx = UF["sin"](x), UF["cos"](x)
        for y in args.values():
            sy, cy = UF["sin"](y), UF["cos"](y)
            inp = lambda t: z3.And(t >= -PI / 2, t <= PI / 2)
            inc = lambda t: z3.And(t >= 0, t <= PI)
            inf = lambda t: z3.And(t > -PI, t <= PI)
            out += [
                z3.Implies(z3.And(inp(x), inp(y), x < y), sx < sy),
                z3.Implies(z3.And(inp(x), inp(y), y < x), sy < sx),
                z3.Implies(z3.And(inc(x), inc(y), x < y), cx > cy),
                z3.Implies(z3.And(inc(x), inc(y), y < x), cy > cx),
                z3.Implies(z3.And(inf(x), inf(y), sx == sy, cx == cy), x == y),
            ]
        args[x.get_id()] = x
        if out:
            self.names.add("sin/cos strictly monotone on [-pi/2,pi/2] / [0,pi], (cos,sin) injective on (-pi,pi] (pairwise instances)")
        return out

    def _pairwise(self, fn, a):
        if fn in ("sin", "cos"):
            return self._trig_pairs(a)
        if fn not in self._MONO:
            return []
        others = self.apps_by_fn.get(fn, [])
        if len(others) > 10:
            return []
        sgn = self._MONO[fn]
        dom = self._DOM.get(fn, lambda x: z3.BoolVal(True))
        out = []
        x = a.arg(0)
        for b in others:
            y = b.arg(0)
            d = z3.And(dom(x), dom(y))
            if sgn > 0:
                out.append(z3.Implies(z3.And(d, x < y), a < b))
                out.append(z3.Implies(z3.And(d, y < x), b < a))
            else:
                out.append(z3.Implies(z3.And(d, x < y), a > b))
                out.append(z3.Implies(z3.And(d, y < x), b > a))
        if out:
            self.names.add(f"{fn} strictly monotone (pairwise instances)")
        return out


def axioms(terms, pairwise=True, structural=True, deep_gen=1):
    inst = Instantiator(pairwise=pairwise, structural=structural, deep_gen=deep_gen)
    ax = inst.new_axioms(list(terms))
    return ax, inst


# --------------------------------------------------------------------------
# CEGAR: true lemmas at the argument values of a candidate model

_INC = {"sqrt", "exp", "log", "arctan", "erf", "arcsin", "cbrt", "erfinv", "Phi"}
_DEC = {"arccos"}
_DOMAIN = {
    "sqrt": lambda v: v >= 0,
    "log": lambda v: v > 0,
    "arcsin": lambda v: -1 <= v <= 1,
    "arccos": lambda v: -1 <= v <= 1,
    "erfinv": lambda v: -1 < v < 1,
}


def _rat(m, t):
    v = m.eval(t, model_completion=True)
    if z3.is_rational_value(v):
        return v.numerator_as_long() / v.denominator_as_long(), v
    if z3.is_algebraic_value(v):
        a = v.approx(30)
        return a.numerator_as_long() / a.denominator_as_long(), None
    return None, None


def point_lemmas(m, solver, limit=40):
    """for every theory application in the solver's assertions: if the model's value of the application is
    not (within 1e-9 relative) the true function value at the model's argument, return a true lemma that
    excludes it (half-space for monotone functions, point lemma otherwise)"""
    from fractions import Fraction

    apps = collect_apps(list(solver.assertions()), {}, [])
    out = []
    for a in apps:
        fn = a.decl().name()
        if fn not in CONCRETE or a.num_args() > 2:
            continue
        vals = []
        exact = []
        for i in range(a.num_args()):
            f, ex = _rat(m, a.arg(i))
            vals.append(f)
            exact.append(ex)
        if any(v is None for v in vals):
            continue
        if fn in _DOMAIN and not _DOMAIN[fn](vals[0]):
            continue
        if fn == "pow" and not (vals[0] > 0):
            continue
        try:
            true = CONCRETE[fn](*vals)
        except Exception:
            continue
        if true != true or true in (math.inf, -math.inf):
            continue
        got, _ = _rat(m, a)
        if got is None:
            continue
        eps = 1e-9 * max(1.0, abs(true))
        if abs(got - true) <= eps:
            continue
        lo = z3.RealVal(str(Fraction(true - eps)))
        hi = z3.RealVal(str(Fraction(true + eps)))
        x = a.arg(0)
        # argument value as an exact rational when available, else a tight rational enclosure
        if a.num_args() == 1:
            vx = exact[0] if exact[0] is not None else None
            if vx is not None and fn in _INC:
                out += [z3.Implies(x <= vx, a <= hi), z3.Implies(x >= vx, a >= lo)]
            elif vx is not None and fn in _DEC:
                out += [z3.Implies(x <= vx, a >= lo), z3.Implies(x >= vx, a <= hi)]
            elif vx is not None:
                out.append(z3.Implies(x == vx, z3.And(a >= lo, a <= hi)))
            else:
                # algebraic argument: use the monotone enclosure with rational brackets
                d = 1e-12 * max(1.0, abs(vals[0]))
                xl, xh = z3.RealVal(str(Fraction(vals[0] - d))), z3.RealVal(str(Fraction(vals[0] + d)))
                try:
                    tl, th = CONCRETE[fn](vals[0] - d), CONCRETE[fn](vals[0] + d)
                except Exception:
                    continue
                lo2 = z3.RealVal(str(Fraction(min(tl, th) - eps)))
                hi2 = z3.RealVal(str(Fraction(max(tl, th) + eps)))
                if fn in _INC | _DEC:
                    out.append(z3.Implies(z3.And(x >= xl, x <= xh), z3.And(a >= lo2, a <= hi2)))
        else:
            if all(e is not None for e in exact):
                out.append(z3.Implies(z3.And([a.arg(i) == exact[i] for i in range(a.num_args())]), z3.And(a >= lo, a <= hi)))
        if len(out) >= limit:
            break
    return out

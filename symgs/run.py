"""Driver: ./vcheck <Cxx> quick|thorough   |   ./vcheck <Cxx> --replay <file>"""
import importlib
import json
import os
import sys
import time

from . import core


def main(argv):
    prop = argv[1].upper()
    if len(argv) > 3 and argv[2] == "--replay":
        from . import replay

        return replay.main(["replay", argv[3]])
    tier = argv[2] if len(argv) > 2 else os.environ.get("VERIF_TIER", "quick")
    if tier not in ("quick", "thorough"):
        tier = "quick"
    seed = int(os.environ.get("VERIF_SEED", "0") or 0)
    t0 = time.time()
    import warnings

    warnings.simplefilter("ignore")
    import gstools  # noqa: F401  imported once here; forked workers inherit it

    mod = importlib.import_module(f"symgs.props.{prop.lower()}")
    spec = mod.SPEC
    os.environ.setdefault("VERIF_CROSS", "3" if tier == "thorough" else "0")  # cvc5 second opinions per job
    jobs = mod.jobs(tier, seed)
    known = core.load_known()
    records = []
    stats_all = []
    metas = []
    for name, res, stats, meta in core.run_jobs(jobs, job_timeout=getattr(mod, "JOB_TIMEOUT", {}).get(tier, 900 if tier == "quick" else 3000), per_process=getattr(mod, "JOBS_PER_PROCESS", 1)):
        for r in res:
            r["job"] = name
        records += res
        stats_all.append(stats)
        if meta:
            metas.append(meta)
    # ---- verdicts
    violations = []
    known_hits = []
    inconclusive = []
    n_unsat = 0
    n_vac_ok = 0
    n_vac_unknown = 0
    # stale replay files of this property from earlier runs
    rdir = os.path.join(core.ROOT, "replays")
    if os.path.isdir(rdir):
        for fn in os.listdir(rdir):
            if fn.startswith(prop + "-"):
                try:
                    os.remove(os.path.join(rdir, fn))
                except OSError:
                    pass
    # a listed finding may pin the deviation it stands for ("only_if_unsat": obligation pattern that states the known wrong
    # behaviour exactly): it suppresses its violation only while that pinned obligation is proved -- a different deviation at
    # the same site is reported
    import fnmatch as _fn

    known_all = known
    known = []
    for k in known_all:
        pin = k.get("only_if_unsat")
        if k.get("property") == prop and k.get("status") == "open" and pin:
            hits = [r for r in records if _fn.fnmatchcase(r["id"], pin)]
            if not hits or any(r["status"] not in ("unsat", "ok") for r in hits):
                print(f"NOTE: listed finding not applied (its pinned obligation {pin!r} is {'missing' if not hits else 'not proved'}): {k.get('what', '')[:120]}")
                continue
        known.append(k)
    reproduced_kinds = {}
    known_more = 0
    tried_kinds = {}
    for r in records:
        st = r["status"]
        if st in ("unsat", "ok"):
            n_unsat += 1
            if r.get("vacuity", "sat") == "sat":
                n_vac_ok += 1
            else:
                # twin undecided within its cap: the obligation is discharged but is not counted as
                # a non-trivial case (an unsatisfiable twin is reported as 'vacuous' and fails the check)
                n_vac_unknown += 1
            continue
        if st == "vacuous":
            inconclusive.append((r, "preconditions unsatisfiable (vacuous harness)"))
            continue
        if st in ("sat", "violated"):
            rp = r.get("replay")
            if not rp:
                inconclusive.append((r, "sat without replay: " + str(r.get("replay_error", r.get("witness")))[:300]))
                continue
            kk = (r.get("job"), rp["kind"])
            km = core.match_known(known, prop, r["id"])
            if km is not None and any(kk_ is km for _, kk_ in known_hits):
                # a further witness of an already reproduced listed finding (same obligation pattern)
                r["status"] = "known"
                known_more = known_more + 1
                continue
            if km is None and ((reproduced_kinds.get(kk, 0) >= 1 and tried_kinds.get(kk, 0) >= 3) or tried_kinds.get(kk, 0) >= 6):
                # further witnesses of a harness that already has a reproduced violation (or whose first six
                # witnesses did not reproduce): not replayed again
                r["status"] = "sat-unreplayed"
                if reproduced_kinds.get(kk, 0) == 0:
                    inconclusive.append((r, "sat, not replayed (replay budget of this harness exhausted)"))
                continue
            tried_kinds[kk] = tried_kinds.get(kk, 0) + 1
            path = core.write_replay(prop, r["id"], rp["kind"], rp["inputs"], {"witness": r.get("witness"), "expected": rp.get("expected")})
            rep, detail = core.run_replay(path)
            if rep is True:
                reproduced_kinds[kk] = reproduced_kinds.get(kk, 0) + 1
            r["replay_path"] = path
            r["replay_detail"] = detail
            if rep is True:
                k = core.match_known(known, prop, r["id"])
                if k is not None:
                    known_hits.append((r, k))
                    r["status"] = "known"
                else:
                    violations.append((r, path))
            elif rep is False:
                try:
                    os.remove(path)
                except OSError:
                    pass
                inconclusive.append((r, "solver witness does not reproduce on the real library (spurious under the axioms): " + detail[-300:]))
            else:
                inconclusive.append((r, "replay failed: " + detail[-300:]))
            continue
        inconclusive.append((r, f"{st}: {str(r.get('detail',''))[-600:]}"))
    # ---- regression replays of recorded findings
    reg = 0
    for k in known_all:
        if k.get("property") != prop or not k.get("replay"):
            continue
        if k.get("status") == "open" and not any(k is k2 for k2 in known):
            continue
        path = core.write_replay(prop, "regress-" + k.get("obligation", "x").rstrip("*"), k["replay"]["kind"], k["replay"]["inputs"], {"from_known_findings": True})
        rep, detail = core.run_replay(path)
        reg += 1
        if k.get("status") == "fixed":
            if rep is True:
                violations.append(({"id": "regress/" + k.get("obligation", ""), "status": "sat", "replay_detail": detail}, path))
            else:
                os.remove(path)
        else:
            if rep is True and not any(kk is k for _, kk in known_hits):
                known_hits.append(({"id": "regress/" + k.get("obligation", ""), "replay_path": path, "replay_detail": detail}, k))
            elif rep is not True:
                os.remove(path)
    wall = time.time() - t0
    # ---- evidence
    tot = lambda key: sum(s.get(key, 0) for s in stats_all)
    axioms = sorted({a for s in stats_all for a in s.get("axioms", [])})
    samples = []
    for r in records[:: max(1, len(records) // 12)][:12]:
        samples.append({k: r[k] for k in ("id", "status", "time", "job", "note", "vacuity", "witness") if k in r})
    obligations = len(records)
    coverage = {
        "evaluations": int(tot("queries") + tot("branch_queries")),
        "distinct_nontrivial": int(n_vac_ok),
        "rule": "one case = one obligation (harness path x assertion) decided by an SMT query over all real values of its symbolic inputs; "
        "non-trivial = verdict unsat AND its vacuity twin (preconditions+path condition+axioms) is sat; distinct by obligation id",
        "samples": samples,
        "obligations": obligations,
        "discharged": n_unsat,
        "known_findings_reproduced": len(known_hits),
        "vacuity_twin_undecided": n_vac_unknown,
        "inconclusive": len(inconclusive),
        "paths_explored": int(tot("paths")),
        "branch_queries": int(tot("branch_queries")),
        "branch_unknown": int(tot("branch_unknown")),
        "obligation_queries": int(tot("queries")),
        "solver_time_s": round(tot("solver_time") + tot("branch_time"), 2),
        "regression_replays": reg,
        "slowest_obligations": [{"id": r["id"], "time": r.get("time")} for r in sorted(records, key=lambda r: -(r.get("time") or 0))[:5]],
        "query_cap_s": core.tier_timeout(tier),
        "functions_encoded": spec.get("functions", []),
        "source_hash": core.src_hash(spec.get("files", [])),
        "source_files": spec.get("files", []),
        "bounds": spec.get("bounds", {}).get(tier, spec.get("bounds")),
        "stubs": spec.get("stubs", []),
        "axioms_used": axioms,
        "oracle": spec.get("oracle", ""),
        "outside_claim": spec.get("outside", []),
        "engine": spec.get("engine", "E1"),
        "job_meta": metas[:40],
        "solver": "z3 " + __import__("z3").get_version_string(),
        "cross_check_cvc5": {k: sum(1 for r in records if r.get("cross_cvc5") == k) for k in ("unsat", "unknown", "sat")},
        "cross_check_note": "second opinion of the cvc5 binary on the SMT-LIB text of discharged obligations (first VERIF_CROSS per job; 0 in the quick tier); 'unknown' = cvc5 undecided within 15 s, 'sat' would make the obligation inconclusive",
    }
    core.write_evidence(prop, tier, seed, spec.get("level", "model_checking"), coverage, spec.get("assumptions", []), wall, len(violations))
    # ---- report
    for r, k in known_hits:
        print(f"KNOWN-FINDING: property={prop} {k.get('what','')} [obligation {r['id']}]")
    for r, why in inconclusive:
        print(f"INCONCLUSIVE property={prop} obligation={r['id']} job={r.get('job')} :: {why}")
    for r, path in violations:
        print(f"VIOLATION property={prop} replay={path}")
        print(f"  obligation={r['id']} detail={r.get('replay_detail','')[-300:]}")
    print(f"{prop} {tier}: obligations={obligations} unsat={n_unsat} known={len(known_hits)} violations={len(violations)} inconclusive={len(inconclusive)} paths={tot('paths')} queries={coverage['evaluations']} wall={wall:.1f}s")
    if violations:
        return 1
    if inconclusive:
        return 2
    return 0


if __name__ == "__main__":
    sys.exit(main(sys.argv))

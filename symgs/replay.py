"""Concrete replay of a witness against the unpatched real library.

exit 0: property holds on this input (witness does NOT reproduce)
exit 1: violation reproduced
exit 3: replay error
"""
import importlib
import json
import sys
import traceback


def main(argv):
    path = argv[1]
    body = json.load(open(path))
    prop = body["property"]
    mod = importlib.import_module(f"symgs.props.{prop.lower()}")
    fn = mod.REPLAY[body["kind"]]
    try:
        holds, detail = fn(body["inputs"])
    except Exception:
        traceback.print_exc()
        print("REPLAY-ERROR")
        return 3
    print(("HOLDS " if holds else "REPRODUCED ") + str(detail))
    if not holds:
        print(f"VIOLATION property={prop} replay={path}")
    return 0 if holds else 1


if __name__ == "__main__":
    sys.exit(main(sys.argv))

"""Symbolic scalars (z3 reals) that survive inside real numpy object arrays,
plus the path explorer (decision prefix + re-execution) of engine E1.

A Python/numpy ``float`` expression in the library is read as a mathematical
real.  ``Sym`` wraps a z3 ``ArithRef`` of sort Real; ``SymBool`` wraps a z3
Bool and *forks* the current path when the library asks for its truth value.
"""
import fractions
import math
import os
import time

import numpy as rnp
import z3

from . import theory

RS = z3.RealSort()


class HarnessError(Exception):
    """The harness met something it cannot encode (fails closed, exit 2)."""


class Infeasible(BaseException):
    """Current path has an unsatisfiable path condition (pruned)."""


def frac(v):
    """Exact rational value of a finite Python/numpy number as z3 RealVal."""
    if isinstance(v, (bool, rnp.bool_)):
        return z3.RealVal(int(v))
    if isinstance(v, (int, rnp.integer)):
        return z3.RealVal(int(v))
    if isinstance(v, fractions.Fraction):
        return z3.RealVal(str(v))
    v = float(v)
    if v != v or v in (math.inf, -math.inf):
        raise NonFinite(v)
    if v == int(v) and abs(v) < 2**53:
        return z3.RealVal(int(v))
    fr = fractions.Fraction(v)
    # a double that is the nearest double of a short decimal/rational denotes
    # that rational (source literal 0.1 means 1/10 under the reals reading)
    nice = fr.limit_denominator(10**9)
    if float(nice) == v:
        fr = nice
    return z3.RealVal(str(fr))


class NonFinite(TypeError):
    def __init__(self, v):
        super().__init__(f"non-finite value {v} cannot be a real term")
        self.value = float(v)


NUM = (int, float, rnp.integer, rnp.floating, fractions.Fraction)


def is_num(v):
    return isinstance(v, NUM) and not isinstance(v, (bool, rnp.bool_))


def lift(v):
    """z3 Real term of a Sym or a finite concrete number."""
    if isinstance(v, Sym):
        return v.e
    if isinstance(v, z3.ArithRef):
        return v
    if isinstance(v, rnp.ndarray) and v.ndim == 0:
        return lift(v.item())
    if isinstance(v, (bool, rnp.bool_)):
        return z3.RealVal(int(v))
    if isinstance(v, NUM):
        return frac(v)
    raise TypeError(f"cannot lift {type(v).__name__}")


def _conc(v):
    """concrete float of a plain number (or None)."""
    if isinstance(v, (bool, rnp.bool_)):
        return float(v)
    if isinstance(v, NUM):
        return float(v)
    if isinstance(v, rnp.ndarray) and v.ndim == 0 and v.dtype != object:
        return float(v)
    return None


# --------------------------------------------------------------------------
# path exploration


class Path:
    def __init__(self, prefix):
        self.prefix = list(prefix)
        self.pos = 0
        self.pc = []  # z3 bools, in order of decisions
        self.pending = []
        self.solver = z3.Solver()
        self.solver.set("timeout", BRANCH_TIMEOUT_MS)
        self.lin = z3.Solver()  # the linear, function-free part of the path (a subset: unsat here => unsat)
        self.lin.set("timeout", 200)
        self.dirty = True  # an assumption was added since the path was last seen feasible
        self.inst = theory.Instantiator()
        self.assumed = []  # preconditions (z3 bools)
        self.nsolve = 0
        self.notes = []
        self.forced_unknown = 0

    def add(self, e):
        for ax in self.inst.new_axioms([e]):
            self.solver.add(ax)
        self.solver.add(e)
        if _is_linear(e):
            self.lin.add(e)


BRANCH_TIMEOUT_MS = 5000
INCR_TIMEOUT_MS = 400
MAX_PATHS = 4000
CUR = None
STATS = {"paths": 0, "branch_queries": 0, "branch_time": 0.0, "branch_unknown": 0}


def cur():
    if CUR is None:
        raise HarnessError("symbolic branch outside of explore()")
    return CUR


def assume(cond):
    """Add a precondition to the current path (before the code it constrains)."""
    p = cur()
    e = cond.e if isinstance(cond, SymBool) else cond
    if isinstance(e, (bool, rnp.bool_)):
        if not e:
            raise Infeasible()
        return
    p.assumed.append(e)
    p.add(e)
    p.dirty = True


def _timed(solver, timeout_s):
    """check() with a watchdog thread (z3's timeout is not always honoured inside nlsat)"""
    import threading

    timer = threading.Timer(timeout_s + 1.0, solver.ctx.interrupt)
    timer.daemon = True
    timer.start()
    try:
        try:
            return str(solver.check())
        except z3.Z3Exception:
            return "unknown"
    finally:
        timer.cancel()


_LIN_CACHE = {}


def _is_linear(e):
    """True if the term has no uninterpreted function application and no product / quotient of two non-numerals."""
    key = e.get_id()
    hit = _LIN_CACHE.get(key)
    if hit is not None and hit[0].eq(e):
        return hit[1]
    res = True
    todo, seen = [e], set()
    while todo and res:
        t = todo.pop()
        i = t.get_id()
        if i in seen:
            continue
        seen.add(i)
        if not z3.is_app(t):
            res = False
            break
        k = t.decl().kind()
        if k == z3.Z3_OP_UNINTERPRETED and t.num_args() > 0:
            res = False
        elif k == z3.Z3_OP_MUL:
            if sum(1 for a in t.children() if not z3.is_rational_value(a) and not z3.is_int_value(a)) > 1:
                res = False
        elif k in (z3.Z3_OP_DIV, z3.Z3_OP_IDIV, z3.Z3_OP_MOD, z3.Z3_OP_REM, z3.Z3_OP_POWER):
            if not (z3.is_rational_value(t.arg(1)) or z3.is_int_value(t.arg(1))):
                res = False
        todo.extend(t.children())
    if len(_LIN_CACHE) > 20000:
        _LIN_CACHE.clear()
    _LIN_CACHE[key] = (e, res)
    return res


def _lin_refutes(p, cond):
    if not _is_linear(cond):
        return False
    p.lin.push()
    p.lin.add(cond)
    try:
        r = str(p.lin.check())
    except z3.Z3Exception:
        r = "unknown"
    p.lin.pop()
    return r == "unsat"


def _branch_check(p, cond):
    """feasibility of path and cond: incremental core first (fast, weak on nonlinear
    arithmetic), then a fresh non-incremental solver (nlsat) when that is unknown."""
    p.solver.push()
    p.solver.add(cond)
    p.solver.set("timeout", INCR_TIMEOUT_MS)
    r = _timed(p.solver, INCR_TIMEOUT_MS / 1000.0)
    p.solver.pop()
    if r != "unknown":
        return r
    s2 = z3.Solver()
    s2.set("timeout", BRANCH_TIMEOUT_MS)
    s2.add(p.solver.assertions())
    s2.add(cond)
    STATS["branch_fresh"] = STATS.get("branch_fresh", 0) + 1
    return _timed(s2, BRANCH_TIMEOUT_MS / 1000.0)


def decide(e):
    """Decide the z3 Bool ``e`` on the current path (fork if both feasible)."""
    p = cur()
    e = z3.simplify(e)
    if z3.is_true(e):
        return True
    if z3.is_false(e):
        return False
    if p.pos < len(p.prefix):
        ch, implied = p.prefix[p.pos]
    else:
        t0 = time.time()
        for ax in p.inst.new_axioms([e]):
            p.solver.add(ax)
        # cheap first: the linear, function-free part of the path often settles bounds checks; a side refuted there is
        # refuted, and the other side is then the (feasible) path itself
        # (unless an assumption was added since the path was last seen feasible: then the other side is checked too)
        ne = z3.Not(e)
        if _lin_refutes(p, e):
            rt, rf = "unsat", ("sat" if not p.dirty else _branch_check(p, ne))
            STATS["branch_lin"] = STATS.get("branch_lin", 0) + 1
        elif _lin_refutes(p, ne):
            rt, rf = ("sat" if not p.dirty else _branch_check(p, e)), "unsat"
            STATS["branch_lin"] = STATS.get("branch_lin", 0) + 1
        else:
            rt = _branch_check(p, e)
            rf = "sat" if (rt == "unsat" and not p.dirty) else _branch_check(p, ne)
        if "sat" in (rt, rf):
            p.dirty = False
        if os.environ.get("VERIF_SLOWBRANCH") and time.time() - t0 > float(os.environ["VERIF_SLOWBRANCH"]):
            import sys as _s, traceback as _tb

            fr = [f for f in _tb.extract_stack() if "/gstools/" in f.filename][-2:]
            print(f"[slow branch {time.time() - t0:.1f}s {rt}/{rf}] {str(e)[:300]} @ {[(f.filename.split('/')[-1], f.lineno) for f in fr]}", file=_s.stderr)
        STATS["branch_queries"] += 2
        STATS["branch_time"] += time.time() - t0
        p.nsolve += 2
        t = rt != "unsat"
        f = rf != "unsat"
        if "unknown" in (rt, rf):
            STATS["branch_unknown"] += 1
            p.forced_unknown += 1
        if not t and not f:
            raise Infeasible()
        ch = True if t else False
        implied = not (t and f)
        if not implied:
            p.pending.append(p.prefix[: p.pos] + [(False, False)])
        p.prefix = p.prefix[: p.pos] + [(ch, implied)]
    p.pos += 1
    if not implied:
        # (an outcome implied by the path condition is not a decision)
        c = e if ch else z3.Not(e)
        p.pc.append(c)
        p.add(c)
    return ch


class PathResult:
    __slots__ = ("pc", "assumed", "out", "exc", "tb", "prefix", "unknown_branches")

    def __init__(self, path, out, exc, tb):
        self.pc = list(path.pc)
        self.assumed = list(path.assumed)
        self.out = out
        self.exc = exc
        self.tb = tb
        self.prefix = list(path.prefix)
        self.unknown_branches = path.forced_unknown

    @property
    def conds(self):
        return self.assumed + self.pc


def explore(fn, max_paths=None):
    """Run ``fn()`` once per feasible path; returns list of PathResult.

    Exceptions derived from ``Exception`` raised by the library are path
    outcomes.  HarnessError propagates (fails closed)."""
    global CUR
    import traceback

    max_paths = max_paths or MAX_PATHS
    work = [[]]
    res = []
    while work:
        if len(res) >= max_paths:
            raise HarnessError(f"path budget {max_paths} exhausted")
        CUR = Path(work.pop())
        out = exc = tb = None
        try:
            out = fn()
        except Infeasible:
            work += CUR.pending
            CUR = None
            continue
        except HarnessError:
            CUR = None
            raise
        except Exception as ex:  # library exception: a path outcome
            exc = ex
            tb = traceback.format_exc().splitlines()[-6:]
        if CUR.forced_unknown and CUR.pc:
            # some branch feasibility query timed out: re-check the whole path condition
            # with a fresh solver; an infeasible path is dropped (it is not a case)
            chk = z3.Solver()
            chk.set("timeout", 4 * BRANCH_TIMEOUT_MS)
            conds = CUR.assumed + CUR.pc
            ax, _ = theory.axioms(conds, pairwise=False)
            chk.add(ax)
            chk.add(conds)
            STATS["branch_queries"] += 1
            if str(chk.check()) == "unsat":
                STATS["pruned_paths"] = STATS.get("pruned_paths", 0) + 1
                work += CUR.pending
                CUR = None
                continue
        res.append(PathResult(CUR, out, exc, tb))
        STATS["paths"] += 1
        work += CUR.pending
        CUR = None
    return res


# --------------------------------------------------------------------------
# symbolic booleans


class SymBool:
    __slots__ = ("e",)

    def __init__(self, e):
        self.e = e

    def __bool__(self):
        return decide(self.e)

    @staticmethod
    def _o(o):
        if isinstance(o, SymBool):
            return o.e
        if isinstance(o, (bool, rnp.bool_)):
            return z3.BoolVal(bool(o))
        raise TypeError(type(o))

    def __and__(self, o):
        try:
            return SymBool(z3.And(self.e, self._o(o)))
        except TypeError:
            return NotImplemented

    __rand__ = __and__

    def __or__(self, o):
        try:
            return SymBool(z3.Or(self.e, self._o(o)))
        except TypeError:
            return NotImplemented

    __ror__ = __or__

    def __xor__(self, o):
        try:
            return SymBool(z3.Xor(self.e, self._o(o)))
        except TypeError:
            return NotImplemented

    __rxor__ = __xor__

    def __invert__(self):
        return SymBool(z3.Not(self.e))

    def __eq__(self, o):
        try:
            return SymBool(self.e == self._o(o))
        except TypeError:
            return NotImplemented

    def __ne__(self, o):
        try:
            return SymBool(self.e != self._o(o))
        except TypeError:
            return NotImplemented

    __hash__ = object.__hash__

    def __repr__(self):
        return f"SymBool({self.e})"


def sbool(e):
    """SymBool unless the z3 Bool is syntactically constant."""
    if isinstance(e, (bool, rnp.bool_)):
        return bool(e)
    return SymBool(e)


# --------------------------------------------------------------------------
# symbolic reals

UF = theory.UF


def _z(v):
    return v.e if isinstance(v, Sym) else frac(v)


class Sym:
    __slots__ = ("e",)
    # (no __array_priority__/__array_ufunc__: ndarray OP Sym must stay with numpy so
    # that its object loops call our operators element-wise)

    def __init__(self, e):
        if not isinstance(e, z3.ExprRef):
            e = frac(e)
        self.e = e

    # ---- arithmetic
    def _bin(self, o, f, neutral=None, absorbing=None, right=False):
        if isinstance(o, Sym):
            oe = o.e
        elif isinstance(o, z3.ArithRef):
            oe = o
        elif isinstance(o, (bool, rnp.bool_)):
            oe = z3.RealVal(int(o))
        elif isinstance(o, NUM):
            c = float(o)
            if c != c:
                return math.nan
            if c in (math.inf, -math.inf):
                raise HarnessError("arithmetic of a symbolic real with +-inf")
            if neutral is not None and c == neutral:
                return self
            if absorbing is not None and c == absorbing:
                return 0.0
            oe = frac(o)
        else:
            return NotImplemented
        return Sym(f(oe, self.e) if right else f(self.e, oe))

    def __add__(self, o):
        return self._bin(o, lambda a, b: a + b, neutral=0.0)

    def __radd__(self, o):
        return self._bin(o, lambda a, b: a + b, neutral=0.0, right=True)

    def __sub__(self, o):
        return self._bin(o, lambda a, b: a - b, neutral=0.0)

    def __rsub__(self, o):
        if is_num(o) and float(o) == 0.0:
            return -self
        return self._bin(o, lambda a, b: a - b, right=True)

    def __mul__(self, o):
        return self._bin(o, lambda a, b: a * b, neutral=1.0, absorbing=0.0)

    def __rmul__(self, o):
        return self._bin(o, lambda a, b: a * b, neutral=1.0, absorbing=0.0, right=True)

    def __truediv__(self, o):
        if is_num(o) and float(o) == 0.0:
            raise ZeroDivisionError("symbolic / 0.0")
        return self._bin(o, lambda a, b: a / b, neutral=1.0)

    def __rtruediv__(self, o):
        if is_num(o) and float(o) == 0.0:
            return 0.0
        return self._bin(o, lambda a, b: a / b, right=True)

    def __neg__(self):
        return Sym(-self.e)

    def __pos__(self):
        return self

    def __abs__(self):
        return Sym(z3.If(self.e >= 0, self.e, -self.e))

    def __pow__(self, o):
        return sym_pow(self, o)

    def __rpow__(self, o):
        return sym_pow(o, self)

    def __bool__(self):
        # truth value of a number: non-zero (forks the path like any other branch on a symbolic condition)
        return decide(self.e != 0)

    def __float__(self):
        raise HarnessError("float() of a symbolic real (module not shadowed?)")

    def __int__(self):
        raise HarnessError("int() of a symbolic real")

    def __index__(self):
        raise HarnessError("symbolic real used as index")

    def __round__(self, n=None):
        raise HarnessError("round() of a symbolic real")

    # ---- comparisons
    def _cmp(self, o, f, at_pinf, at_ninf):
        if isinstance(o, Sym):
            return SymBool(f(self.e, o.e))
        if isinstance(o, z3.ArithRef):
            return SymBool(f(self.e, o))
        if isinstance(o, rnp.ndarray):
            return NotImplemented
        c = _conc(o)
        if c is None:
            return NotImplemented
        if c != c:
            return False
        if c == math.inf:
            return at_pinf
        if c == -math.inf:
            return at_ninf
        return SymBool(f(self.e, frac(o)))

    def __lt__(self, o):
        return self._cmp(o, lambda a, b: a < b, True, False)

    def __le__(self, o):
        return self._cmp(o, lambda a, b: a <= b, True, False)

    def __gt__(self, o):
        return self._cmp(o, lambda a, b: a > b, False, True)

    def __ge__(self, o):
        return self._cmp(o, lambda a, b: a >= b, False, True)

    def __eq__(self, o):
        if o is None or isinstance(o, str):
            return False
        r = self._cmp(o, lambda a, b: a == b, False, False)
        return False if r is NotImplemented else r

    def __ne__(self, o):
        if o is None or isinstance(o, str):
            return True
        r = self._cmp(o, lambda a, b: a != b, True, True)
        return True if r is NotImplemented else r

    __hash__ = object.__hash__

    def __deepcopy__(self, memo):
        return self

    def __copy__(self):
        return self

    def __repr__(self):
        s = str(z3.simplify(self.e))
        return "Sym(%s)" % (s if len(s) < 120 else s[:117] + "...")

    def __format__(self, spec):
        return repr(self)

    # ---- numpy object-loop hooks (np.sqrt(objarr) calls elem.sqrt())
    def sqrt(self):
        return fn1("sqrt", self)

    def exp(self):
        return fn1("exp", self)

    def log(self):
        return fn1("log", self)

    def sin(self):
        return fn1("sin", self)

    def cos(self):
        return fn1("cos", self)

    def tan(self):
        return fn1("sin", self) / fn1("cos", self)

    def arcsin(self):
        return fn1("arcsin", self)

    def arccos(self):
        return fn1("arccos", self)

    def arctan(self):
        return fn1("arctan", self)

    def conjugate(self):
        return self

    @property
    def real(self):
        return self

    @property
    def imag(self):
        return 0.0


def fn1(name, x):
    """Apply a unary real function (UF for symbolic, math for concrete)."""
    if isinstance(x, Sym):
        return Sym(UF[name](x.e))
    return theory.CONCRETE[name](float(x))


def fn2(name, x, y):
    if isinstance(x, Sym) or isinstance(y, Sym):
        return Sym(UF[name](lift(x), lift(y)))
    return theory.CONCRETE[name](float(x), float(y))


def sym_pow(b, e):
    """b ** e with exact expansion for small integer exponents."""
    ce = _conc(e)
    if ce is not None and not isinstance(e, Sym):
        if ce == int(ce) and abs(ce) <= 12:
            n = int(ce)
            if not isinstance(b, Sym):
                return float(b) ** n
            if n == 0:
                return 1.0
            r = b.e
            for _ in range(abs(n) - 1):
                r = r * b.e
            return Sym(r) if n > 0 else Sym(1 / r)
        if ce == 0.5:
            return fn1("sqrt", b)
        if ce == -0.5:
            return 1.0 / fn1("sqrt", b)
        if ce == 1.5 and isinstance(b, Sym):
            return b * fn1("sqrt", b)
    cb = _conc(b)
    if cb is not None and not isinstance(b, Sym):
        if cb == 1.0:
            return 1.0
        if not isinstance(e, Sym):
            return float(cb) ** float(ce)
        if cb > 0:
            # c ** x = exp(x * log c) with log c as the *function* log at c
            if cb == math.e:
                return fn1("exp", e)
    return fn2("pow", b, e)


def ite(c, a, b):
    """Real-valued if-then-else on SymBool / bool."""
    if isinstance(c, (bool, rnp.bool_)):
        return a if c else b
    return Sym(z3.If(c.e, lift(a), lift(b)))


def smax(a, b):
    if not isinstance(a, Sym) and not isinstance(b, Sym):
        return max(a, b)
    return Sym(z3.If(lift(a) >= lift(b), lift(a), lift(b)))


def smin(a, b):
    if not isinstance(a, Sym) and not isinstance(b, Sym):
        return min(a, b)
    return Sym(z3.If(lift(a) <= lift(b), lift(a), lift(b)))


def real(name):
    return Sym(z3.Real(name))


def reals(names):
    return [real(n) for n in names.split()]

"""Stub of the random number layer (gstools.random.RNG) for the generator properties.

Contract assumed (numpy.random.RandomState): a stream is a deterministic function of the *value* of
its seed and of the sequence of draws made so far.  Draws are therefore fresh symbols named by
(seed value, index of the sub-stream, kind, position).  Nothing is assumed about their law except
the stated range facts (collected in FACTS and added to the obligations that use them)."""
import numpy as rnp
import z3

from . import theory
from .sym import Sym, lift

FACTS = []
LOG = []  # (event, detail) for evidence / debugging


def reset():
    del FACTS[:]
    del LOG[:]


def _key(seed):
    if seed is None:
        return "None"
    try:
        if isinstance(seed, float) and seed != seed:
            return "nan"
        return repr(int(seed)) if float(seed) == int(seed) else repr(float(seed))
    except Exception:
        return repr(seed)


class SymRandomState:
    def __init__(self, key, stream):
        self.key, self.stream = key, stream
        self.n = 0

    def _syms(self, kind, size):
        shape = () if size is None else tuple(rnp.atleast_1d(size).astype(int))
        out = rnp.empty(shape, dtype=object)
        for idx in rnp.ndindex(*shape):
            out[idx] = Sym(z3.Real(f"{kind}[s{self.key}|{self.stream}|{self.n}|{','.join(map(str, idx))}]"))
        self.n += 1
        return out if shape else out[()]

    def normal(self, loc=0.0, scale=1.0, size=None):
        return self._syms("N", size)

    def uniform(self, low=0.0, high=1.0, size=None):
        u = self._syms("U", size)
        for x in rnp.atleast_1d(u).ravel():
            FACTS.append(z3.And(x.e >= 0, x.e < 1))
        return low + (high - low) * u

    def choice(self, a, size=None, **kw):
        a = list(a)
        if a == [-1, 1]:
            s = self._syms("S", size)
            for x in rnp.atleast_1d(s).ravel():
                FACTS.append(z3.Or(x.e == 1, x.e == -1))
            return s
        raise NotImplementedError("choice")

    def rand(self, *shape):
        return self.uniform(size=shape or None)

    def get_state(self):
        return ("sym", self.key, self.stream, self.n)

    def set_state(self, state):
        # state of *this* stream object only (RNG.random hands out a new stream object on every access)
        if not (isinstance(state, tuple) and state and state[0] == "sym"):
            raise TypeError("set_state: not a state of a symbolic stream")
        _, self.key, self.stream, self.n = state


def make_rng_class():
    from gstools.random.rng import RNG

    class SymRNG(RNG):
        """RNG whose streams are symbolic; sample_sphere (real code) runs on the symbolic draws"""

        def __init__(self, seed=None):
            self._key = _key(seed)
            self._seed_obj = seed
            self._streams = 0
            LOG.append(("new RNG", self._key))

        @property
        def random(self):
            s = SymRandomState(self._key, self._streams)
            self._streams += 1
            return s

        @property
        def seed(self):
            return self._seed_obj

        def sample_ln_pdf(self, ln_pdf, size=None, sample_around=1.0, **kw):
            # MCMC sampler (emcee): radii with an unspecified law
            r = self.random._syms("Rmcmc", size)
            for x in rnp.atleast_1d(r).ravel():
                FACTS.append(x.e >= 0)
            return r

        def sample_dist(self, pdf=None, cdf=None, ppf=None, size=None, **kwargs):
            if ppf is not None:
                u = self.random.uniform(0.0, 1.0, size)
                for x in rnp.atleast_1d(u).ravel():
                    FACTS.append(x.e > 0)
                return ppf(u)  # inverse-transform sampling through the model's own ppf
            r = self.random._syms("Rdist", size)
            for x in rnp.atleast_1d(r).ravel():
                FACTS.append(x.e >= 0)
            return r

    return SymRNG


def install():
    import gstools.field.generator as gen

    gen.RNG = make_rng_class()
    return gen

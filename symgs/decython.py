"""Decythoniser: rewrites the .pyx kernels to Python syntax so that `ast` can parse them.

Only syntax is touched (C declarations, typed parameters, cimports); every
statement of the kernel bodies is kept verbatim.  prange / parallel stay as
marker calls for the interpreter (engine E2) and the ownership analysis (E3).
"""
import ast
import re

BASE = r"(?:unsigned\s+)?(?:double|int|bint|long|float|uint8|np\.int64_t|str|void|_dist_func|_estimator_func|_normalization_func_vec|_normalization_func)"
CTYPE = r"(?:const\s+)?" + BASE + r"(?:\s*\[[:, ]*\])?"


def strip_params(sig):
    parts, depth, cur = [], 0, ""
    for ch in sig:
        if ch in "([":
            depth += 1
        if ch in ")]":
            depth -= 1
        if ch == "," and depth == 0:
            parts.append(cur)
            cur = ""
        else:
            cur += ch
    parts.append(cur)
    out = []
    for p in parts:
        q = p.strip()
        q = re.sub(r"^" + CTYPE + r"\s+(?=\w)", "", q)
        out.append(q)
    return ", ".join(x for x in out if x != "")


def decythonize(src):
    lines = src.split("\n")
    joined = []
    i = 0
    while i < len(lines):
        ln = lines[i]
        s = ln.strip()
        if re.match(r"(def|cdef|ctypedef)\b", s) and s.count("(") > s.count(")"):
            buf = ln.rstrip()
            while buf.count("(") > buf.count(")"):
                i += 1
                nxt = lines[i].split("#")[0].strip()
                buf += " " + nxt
            joined.append(buf)
        else:
            joined.append(ln)
        i += 1
    out = []
    for ln in joined:
        s = ln.strip()
        ind = ln[: len(ln) - len(ln.lstrip())]
        if s.startswith("ctypedef"):
            continue
        if s.startswith("raise "):
            ln = re.sub(r"""f(['"]).*\1""", "'msg'", ln)
            s = ln.strip()
        if s.startswith("cimport "):
            out.append(ind + "pass")
            continue
        m = re.match(r"from\s+(\S+)\s+cimport\s+(.*)", s)
        if m:
            out.append(ind + "pass")
            continue
        m = re.match(r"(?:cdef\s+(?:inline\s+)?(?:\(\s*" + BASE + r"\s*\)|" + BASE + r")\s+|def\s+)(\w+)\s*\((.*)\)\s*(?:nogil)?\s*:\s*$", s)
        if m and (s.startswith("def ") or s.startswith("cdef ")) and not re.match(r"cdef\s+" + CTYPE + r"\s+\w+\s*=", s):
            out.append(f"{ind}def {m.group(1)}({strip_params(m.group(2))}):")
            continue
        if s.startswith("cdef "):
            rest = re.sub(r"^cdef\s+" + CTYPE + r"\s+", "", s)
            if "=" in rest:
                out.append(ind + rest)
            else:
                out.append(ind + "pass")
            continue
        out.append(ln)
    return "\n".join(out)


def parse(path):
    src = open(path).read()
    py = decythonize(src)
    return ast.parse(py), py, src
